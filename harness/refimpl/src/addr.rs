//! Target addresses and their two wire encodings.

use crate::{spec, RefError, RefResult};

#[derive(Clone, Debug, PartialEq, Eq, Hash)]
pub enum Addr {
    V4([u8; 4], u16),
    V6([u8; 16], u16),
    /// raw name bytes as on the wire (1..=255 bytes when valid)
    Domain(Vec<u8>, u16),
}

impl Addr {
    pub fn port(&self) -> u16 {
        match self {
            Addr::V4(_, p) | Addr::V6(_, p) | Addr::Domain(_, p) => *p,
        }
    }
    pub fn representable(&self) -> bool {
        match self {
            Addr::Domain(n, _) => !n.is_empty() && n.len() <= 255,
            _ => true,
        }
    }
    pub fn describe(&self) -> String {
        match self {
            Addr::V4(a, p) => format!("{}.{}.{}.{}:{}", a[0], a[1], a[2], a[3], p),
            Addr::V6(a, p) => format!("[{}]:{}", std::net::Ipv6Addr::from(*a), p),
            Addr::Domain(n, p) => format!("{}:{}", String::from_utf8_lossy(n), p),
        }
    }
}

/// SOCKS5-style: ATYP(1/3/4) addr port(BE).
pub fn socks_encode(a: &Addr, out: &mut Vec<u8>) {
    match a {
        Addr::V4(ip, p) => {
            out.push(1);
            out.extend_from_slice(ip);
            out.extend_from_slice(&p.to_be_bytes());
        }
        Addr::Domain(n, p) => {
            assert!(a.representable(), "unrepresentable domain");
            out.push(3);
            out.push(n.len() as u8);
            out.extend_from_slice(n);
            out.extend_from_slice(&p.to_be_bytes());
        }
        Addr::V6(ip, p) => {
            out.push(4);
            out.extend_from_slice(ip);
            out.extend_from_slice(&p.to_be_bytes());
        }
    }
}

/// Strict SOCKS5-style decode; returns (address, bytes consumed).
pub fn socks_decode(b: &[u8]) -> RefResult<(Addr, usize)> {
    if b.is_empty() {
        return Err(RefError::Incomplete);
    }
    match b[0] {
        1 => {
            if b.len() < 7 {
                return Err(RefError::Incomplete);
            }
            let mut ip = [0u8; 4];
            ip.copy_from_slice(&b[1..5]);
            Ok((Addr::V4(ip, u16::from_be_bytes([b[5], b[6]])), 7))
        }
        3 => {
            if b.len() < 2 {
                return Err(RefError::Incomplete);
            }
            let n = b[1] as usize;
            if n == 0 {
                return spec("empty domain name");
            }
            if b.len() < 2 + n + 2 {
                return Err(RefError::Incomplete);
            }
            Ok((Addr::Domain(b[2..2 + n].to_vec(), u16::from_be_bytes([b[2 + n], b[3 + n]])), 4 + n))
        }
        4 => {
            if b.len() < 19 {
                return Err(RefError::Incomplete);
            }
            let mut ip = [0u8; 16];
            ip.copy_from_slice(&b[1..17]);
            Ok((Addr::V6(ip, u16::from_be_bytes([b[17], b[18]])), 19))
        }
        t => spec(format!("unknown ATYP {t}")),
    }
}

/// VMess-style: port(BE) type(1 v4 / 2 domain / 3 v6) addr.
pub fn vmess_encode(a: &Addr, out: &mut Vec<u8>) {
    out.extend_from_slice(&a.port().to_be_bytes());
    match a {
        Addr::V4(ip, _) => {
            out.push(1);
            out.extend_from_slice(ip);
        }
        Addr::Domain(n, _) => {
            assert!(a.representable(), "unrepresentable domain");
            out.push(2);
            out.push(n.len() as u8);
            out.extend_from_slice(n);
        }
        Addr::V6(ip, _) => {
            out.push(3);
            out.extend_from_slice(ip);
        }
    }
}

pub fn vmess_decode(b: &[u8]) -> RefResult<(Addr, usize)> {
    if b.len() < 3 {
        return Err(RefError::Incomplete);
    }
    let port = u16::from_be_bytes([b[0], b[1]]);
    match b[2] {
        1 => {
            if b.len() < 7 {
                return Err(RefError::Incomplete);
            }
            let mut ip = [0u8; 4];
            ip.copy_from_slice(&b[3..7]);
            Ok((Addr::V4(ip, port), 7))
        }
        2 => {
            if b.len() < 4 {
                return Err(RefError::Incomplete);
            }
            let n = b[3] as usize;
            if n == 0 {
                return spec("empty domain name");
            }
            if b.len() < 4 + n {
                return Err(RefError::Incomplete);
            }
            Ok((Addr::Domain(b[4..4 + n].to_vec(), port), 4 + n))
        }
        3 => {
            if b.len() < 19 {
                return Err(RefError::Incomplete);
            }
            let mut ip = [0u8; 16];
            ip.copy_from_slice(&b[3..19]);
            Ok((Addr::V6(ip, port), 19))
        }
        t => spec(format!("unknown vmess address type {t}")),
    }
}
