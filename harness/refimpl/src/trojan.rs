//! Trojan request and UDP packet format.

use crate::addr::{socks_decode, socks_encode, Addr};
use crate::crypto::sha224_hex;
use crate::{spec, RefError, RefResult};

pub const CMD_CONNECT: u8 = 1;
pub const CMD_UDP: u8 = 3;

pub fn request_encode(password: &[u8], cmd: u8, addr: &Addr, payload: &[u8]) -> Vec<u8> {
    let mut out = sha224_hex(password).into_bytes();
    out.extend_from_slice(b"\r\n");
    out.push(cmd);
    socks_encode(addr, &mut out);
    out.extend_from_slice(b"\r\n");
    out.extend_from_slice(payload);
    out
}

#[derive(Debug, Clone, PartialEq, Eq)]
pub struct Request {
    pub cmd: u8,
    pub addr: Addr,
    pub consumed: usize,
}

/// Strict parse of the request head; `Err(Incomplete)` if more bytes are needed.
pub fn request_decode(password: &[u8], buf: &[u8]) -> RefResult<Request> {
    if buf.len() < 58 {
        return Err(RefError::Incomplete);
    }
    if buf[..56] != *sha224_hex(password).as_bytes() {
        return Err(RefError::Auth("trojan-password"));
    }
    if &buf[56..58] != b"\r\n" {
        return spec("missing CRLF after hash");
    }
    if buf.len() < 59 {
        return Err(RefError::Incomplete);
    }
    let cmd = buf[58];
    if cmd != CMD_CONNECT && cmd != CMD_UDP {
        return spec(format!("command {cmd}"));
    }
    let (addr, used) = socks_decode(&buf[59..])?;
    let off = 59 + used;
    if buf.len() < off + 2 {
        return Err(RefError::Incomplete);
    }
    if &buf[off..off + 2] != b"\r\n" {
        return spec("missing CRLF after address");
    }
    Ok(Request { cmd, addr, consumed: off + 2 })
}

pub fn udp_encode(addr: &Addr, payload: &[u8], out: &mut Vec<u8>) {
    assert!(payload.len() <= 0xFFFF);
    socks_encode(addr, out);
    out.extend_from_slice(&(payload.len() as u16).to_be_bytes());
    out.extend_from_slice(b"\r\n");
    out.extend_from_slice(payload);
}

/// Returns (addr, payload, consumed) or Incomplete.
pub fn udp_decode(buf: &[u8]) -> RefResult<(Addr, Vec<u8>, usize)> {
    let (addr, used) = socks_decode(buf)?;
    if buf.len() < used + 4 {
        return Err(RefError::Incomplete);
    }
    let n = u16::from_be_bytes([buf[used], buf[used + 1]]) as usize;
    if &buf[used + 2..used + 4] != b"\r\n" {
        return spec("missing CRLF in udp packet");
    }
    if buf.len() < used + 4 + n {
        return Err(RefError::Incomplete);
    }
    Ok((addr, buf[used + 4..used + 4 + n].to_vec(), used + 4 + n))
}
