//! Independent reference implementation of the wire formats octo-squirrel speaks,
//! written from the published specifications (SIP004, SIP022 + EIH, VMess AEAD,
//! Trojan, RFC 1928, RFC 9112 request-target). Shares no code with /repo; the only
//! trusted base is the RustCrypto primitive crates.
//!
//! Decoders are strict (they enforce sender obligations) and instrumented: every AEAD
//! unit opened or sealed is reported to an optional `UnitLog` (the event stream of C12).

pub mod addr;
pub mod crypto;
pub mod http;
pub mod selftest;
pub mod socks5;
pub mod ss;
pub mod trojan;
pub mod vmess;

use std::cell::RefCell;

/// One AEAD operation observed at the wire boundary.
#[derive(Clone, Debug, PartialEq, Eq, Hash)]
pub struct Unit {
    /// 8-byte fingerprint of the AEAD key (first 8 bytes of blake3(key))
    pub key_fp: [u8; 8],
    pub nonce: Vec<u8>,
    /// free-form tag: "ss-len", "ss-payload", "vmess-len", ...
    pub what: &'static str,
}

thread_local! {
    static UNIT_LOG: RefCell<Option<Vec<Unit>>> = const { RefCell::new(None) };
}

/// Start recording AEAD units on this thread.
pub fn unit_log_start() {
    UNIT_LOG.with(|l| *l.borrow_mut() = Some(Vec::new()));
}

/// Stop recording and return what was seen.
pub fn unit_log_take() -> Vec<Unit> {
    UNIT_LOG.with(|l| l.borrow_mut().take().unwrap_or_default())
}

pub(crate) fn unit_log(key: &[u8], nonce: &[u8], what: &'static str) {
    UNIT_LOG.with(|l| {
        if let Some(v) = l.borrow_mut().as_mut() {
            let h = blake3::hash(key);
            let mut key_fp = [0u8; 8];
            key_fp.copy_from_slice(&h.as_bytes()[..8]);
            v.push(Unit { key_fp, nonce: nonce.to_vec(), what });
        }
    });
}

/// Diagnostic mode (used by the nonce monitor, C12): when an AEAD unit does not open under the key and nonce the
/// specification prescribes, try the other keys this thread's decoders know about and the neighbouring counters.
/// If one of them opens it, the unit is recorded under the (key, nonce) it was REALLY sealed with and decoding
/// goes on, so that the monitor can name a reuse instead of merely seeing a decode failure. Off by default:
/// every other check sees the strict decoders.
#[derive(Default)]
pub struct Diag {
    keys: Vec<Vec<u8>>,
    pub relocated: Vec<String>,
}

thread_local! {
    static DIAG: RefCell<Option<Diag>> = const { RefCell::new(None) };
}

pub fn diag_start() {
    DIAG.with(|d| *d.borrow_mut() = Some(Diag::default()));
}

pub fn diag_take() -> Vec<String> {
    DIAG.with(|d| d.borrow_mut().take().map(|x| x.relocated).unwrap_or_default())
}

pub(crate) fn diag_key(key: &[u8]) {
    DIAG.with(|d| {
        if let Some(x) = d.borrow_mut().as_mut() {
            if !x.keys.iter().any(|k| k == key) {
                x.keys.push(key.to_vec());
            }
        }
    });
}

pub(crate) fn diag_candidates(len: usize) -> Option<Vec<Vec<u8>>> {
    DIAG.with(|d| d.borrow().as_ref().map(|x| x.keys.iter().filter(|k| k.len() == len).cloned().collect()))
}

pub(crate) fn diag_note(s: String) {
    DIAG.with(|d| {
        if let Some(x) = d.borrow_mut().as_mut() {
            if x.relocated.len() < 16 {
                x.relocated.push(s);
            }
        }
    });
}

#[derive(Debug, Clone, PartialEq, Eq)]
pub enum RefError {
    /// more input needed (not an error for stream decoders)
    Incomplete,
    /// AEAD tag mismatch
    Auth(&'static str),
    /// well-authenticated but violates the specification
    Spec(String),
}

impl std::fmt::Display for RefError {
    fn fmt(&self, f: &mut std::fmt::Formatter<'_>) -> std::fmt::Result {
        match self {
            RefError::Incomplete => write!(f, "incomplete"),
            RefError::Auth(w) => write!(f, "auth failure at {w}"),
            RefError::Spec(s) => write!(f, "spec violation: {s}"),
        }
    }
}

pub type RefResult<T> = Result<T, RefError>;

pub(crate) fn spec<T>(s: impl Into<String>) -> RefResult<T> {
    Err(RefError::Spec(s.into()))
}
