//! RFC 1928 message builders/parsers used by scripted applications.

use crate::addr::{socks_decode, socks_encode, Addr};
use crate::{spec, RefResult};

pub fn greeting(methods: &[u8]) -> Vec<u8> {
    let mut v = vec![5, methods.len() as u8];
    v.extend_from_slice(methods);
    v
}

pub fn request(cmd: u8, addr: &Addr) -> Vec<u8> {
    let mut v = vec![5, cmd, 0];
    socks_encode(addr, &mut v);
    v
}

/// Parse a command reply `05 REP 00 ATYP BND`; returns (rep, bnd, consumed).
pub fn parse_reply(buf: &[u8]) -> RefResult<(u8, Addr, usize)> {
    if buf.len() < 4 {
        return Err(crate::RefError::Incomplete);
    }
    if buf[0] != 5 || buf[2] != 0 {
        return spec("malformed SOCKS5 reply");
    }
    let (a, used) = socks_decode(&buf[3..])?;
    Ok((buf[1], a, 3 + used))
}

/// SOCKS5 UDP request header `00 00 FRAG ATYP addr port data`.
pub fn udp_wrap(addr: &Addr, data: &[u8]) -> Vec<u8> {
    let mut v = vec![0, 0, 0];
    socks_encode(addr, &mut v);
    v.extend_from_slice(data);
    v
}

pub fn udp_unwrap(buf: &[u8]) -> RefResult<(Addr, Vec<u8>)> {
    if buf.len() < 4 {
        return spec("short SOCKS5 UDP datagram");
    }
    if buf[0] != 0 || buf[1] != 0 || buf[2] != 0 {
        return spec("bad RSV/FRAG");
    }
    let (a, used) = match socks_decode(&buf[3..]) {
        Ok(x) => x,
        Err(crate::RefError::Incomplete) => return spec("truncated address"),
        Err(e) => return Err(e),
    };
    Ok((a, buf[3 + used..].to_vec()))
}
