fn main() {
    let f = refimpl::selftest::run();
    for l in &f {
        eprintln!("SELFTEST FAIL: {l}");
    }
    if f.is_empty() {
        println!("refimpl self-test ok");
    } else {
        std::process::exit(3);
    }
}
