//! Known-answer and round-trip self-test. A failure here makes a check *broken*, never a violation.

use crate::addr::Addr;
use crate::crypto::*;
use crate::ss::*;
use crate::vmess;

fn hex(b: &[u8]) -> String {
    b.iter().map(|x| format!("{:02x}", x)).collect()
}

pub fn run() -> Vec<String> {
    let mut f = Vec::new();
    macro_rules! check {
        ($name:expr, $got:expr, $want:expr) => {
            {
                let got = $got;
                let want = $want;
                if got != want {
                    f.push(format!("{}: got {:?}, want {:?}", $name, got, want));
                }
            }
        };
    }
    // primitives / published vectors
    check!("md5(password)", hex(&md5(&[b"password"])), "5f4dcc3b5aa765d61d8327deb882cf99");
    check!("evp16(password)", hex(&evp_bytes_to_key(b"password", 16)), "5f4dcc3b5aa765d61d8327deb882cf99");
    check!("evp32 prefix", hex(&evp_bytes_to_key(b"password", 32)[..16]), "5f4dcc3b5aa765d61d8327deb882cf99");
    check!("evp32 second block", hex(&evp_bytes_to_key(b"password", 32)[16..]), hex(&md5(&[&md5(&[b"password"]), b"password"])));
    check!("fnv1a32('')", fnv1a32(b""), 0x811c9dc5u32);
    check!("fnv1a32('a')", fnv1a32(b"a"), 0xe40c292cu32);
    check!("crc32(123456789)", crc32(b"123456789"), 0xCBF43926u32);
    check!("sha224(password1)", crate::crypto::sha224_hex(b"password1"), "9440e64e095ff718c1926110fd811e64948984c9dee7ef860feb4d5d");
    {
        let mut s = Shake::new(b"");
        check!("shake128('')", (s.next_u16(), s.next_u16()), (0x7f9cu16, 0x2ba4u16));
    }
    // vectors that also appear in upstream test suites (V2Ray kdf, SIP022 sub-key / identity header)
    check!("vmess kdf", b64_encode(&vmess_kdf(b"Demo Key for Auth ID Test", &[])), "e50sLh+rC0B6LsALqzcblmfKNfZnQIbvOEJRgh9gBfg=");
    check!("vmess kdf16", b64_encode(&vmess_kdf16(b"Demo Key for Auth ID Test", &[b"Demo Path for Auth ID Test"])), "ZuQa1H+nRfv9HpcyXpPb9A==");
    check!(
        "vmess cmd key",
        b64_encode(&vmess_cmd_key(&parse_uuid("b831381d-6324-4d53-ad4f-8cda48b30811").unwrap())),
        "tQ2RasDOwGeYGvjl84p1jw=="
    );
    {
        let key = b64_decode("Lc3tTx0BY6ZJ/fCwOx3JvF0I/anhwJBO5p2+FA5Vce4=").unwrap();
        let salt = b64_decode("3oFO0VyLyGI4nFN0M9P+62vPND/L6v8IingaPJWTbJA=").unwrap();
        let mut m = key.clone();
        m.extend_from_slice(&salt);
        check!("sip022 session subkey", b64_encode(&blake3_derive("shadowsocks 2022 session subkey", &m, 32)), "EdNE+4U8dVnHT0+poAFDK2bdlwfrHT61sUNr9WYPh+E=");
    }
    // base64
    check!("b64 roundtrip", b64_decode(&b64_encode(&[1, 2, 3, 4, 5])).unwrap(), vec![1u8, 2, 3, 4, 5]);
    check!("b64 reject", b64_decode("ab=c"), None::<Vec<u8>>);

    // round trips inside the reference
    for m in ALL_METHODS {
        let addr = Addr::Domain(b"example.org".to_vec(), 443);
        let payload: Vec<u8> = (0..40000u32).map(|i| (i * 7) as u8).collect();
        if m.is_2022() {
            let psk = vec![7u8; m.key_len()];
            let keys = Keys { psk: psk.clone(), ipsks: vec![] };
            let salt = vec![9u8; m.key_len()];
            let req = S22Request { type_byte: 0, timestamp: 1000, addr: addr.clone(), padding: vec![], initial_payload: payload[..100].to_vec() };
            let (mut wire, mut cc) = s22_request_encode(m, &keys, &salt, &req);
            write_chunks(&mut cc, &payload[100..], m.max_chunk(), &mut wire);
            let mut r = S22ServerReader::new(m, &psk, vec![], 1010);
            let mut got = Vec::new();
            for piece in wire.chunks(977) {
                match r.feed(piece) {
                    Ok(p) => got.extend_from_slice(&p),
                    Err(e) => f.push(format!("{} s22 request roundtrip: {}", m.name(), e)),
                }
            }
            check!(format!("{} s22 request payload", m.name()), (got == payload), true);
            check!(format!("{} s22 request addr", m.name()), r.addr.clone(), Some(addr.clone()));
            let (mut wire, mut cc) = s22_response_encode(m, &psk, &[3u8; 32][..m.key_len()], 1, 1011, &salt, &payload[..5]);
            write_chunks(&mut cc, &payload[5..], 0xFFFF, &mut wire);
            let mut r = S22ClientReader::new(m, &psk, &salt, 1000);
            let mut got = Vec::new();
            for piece in wire.chunks(1313) {
                match r.feed(piece) {
                    Ok(p) => got.extend_from_slice(&p),
                    Err(e) => f.push(format!("{} s22 response roundtrip: {}", m.name(), e)),
                }
            }
            check!(format!("{} s22 response payload", m.name()), (got == payload), true);
            let p = S22UdpPacket { session_id: 5, packet_id: 1, type_byte: 0, timestamp: 1000, client_session_id: None, padding: vec![1, 2, 3], addr: addr.clone(), payload: payload[..1200].to_vec() };
            let w = s22_udp_client_encode(m, &keys, &p, &[4u8; 24]);
            match s22_udp_server_decode(m, &psk, &[], &w) {
                Ok((q, None)) => check!(format!("{} s22 udp c2s", m.name()), q, p),
                other => f.push(format!("{} s22 udp c2s: {:?}", m.name(), other.map(|x| x.1))),
            }
            let p = S22UdpPacket { session_id: 6, packet_id: 9, type_byte: 1, timestamp: 1000, client_session_id: Some(5), padding: vec![], addr: addr.clone(), payload: vec![] };
            let w = s22_udp_server_encode(m, &psk, &p, &[5u8; 24]);
            match s22_udp_client_decode(m, &psk, &w) {
                Ok(q) => check!(format!("{} s22 udp s2c", m.name()), q, p),
                Err(e) => f.push(format!("{} s22 udp s2c: {}", m.name(), e)),
            }
        } else {
            let master = evp_bytes_to_key(b"barfoo!", m.key_len());
            let mut w = Sip004Writer::new(m, &master, vec![1u8; m.key_len()]);
            let mut wire = Vec::new();
            w.write(&payload, 0x3FFF, &mut wire);
            let mut r = Sip004Reader::new(m, &master, true);
            let mut got = Vec::new();
            for piece in wire.chunks(501) {
                match r.feed(piece) {
                    Ok(p) => got.extend_from_slice(&p),
                    Err(e) => f.push(format!("{} sip004 roundtrip: {}", m.name(), e)),
                }
            }
            check!(format!("{} sip004 payload", m.name()), (got == payload), true);
            let d = sip004_udp_encode(m, &master, &vec![2u8; m.key_len()], &addr, b"hello");
            check!(format!("{} sip004 udp", m.name()), sip004_udp_decode(m, &master, &d), Ok::<_, crate::RefError>((addr.clone(), b"hello".to_vec())));
        }
    }
    // EIH round trip and the published identity-header vector
    {
        let m = Method::B3Aes256Gcm;
        let ipsk = vec![1u8; 32];
        let upsk = vec![2u8; 32];
        let keys = Keys { psk: upsk.clone(), ipsks: vec![ipsk.clone()] };
        let users = vec![S22User { name: "x".into(), upsk: vec![3u8; 32] }, S22User { name: "u".into(), upsk: upsk.clone() }];
        let req = S22Request { type_byte: 0, timestamp: 50, addr: Addr::V4([1, 2, 3, 4], 5), padding: vec![0; 10], initial_payload: vec![] };
        let (wire, _) = s22_request_encode(m, &keys, &[8u8; 32], &req);
        let mut r = S22ServerReader::new(m, &ipsk, users.clone(), 60);
        match r.feed(&wire) {
            Ok(_) => check!("eih tcp user", r.user, Some(1)),
            Err(e) => f.push(format!("eih tcp: {e}")),
        }
        let p = S22UdpPacket { session_id: 77, packet_id: 3, type_byte: 0, timestamp: 50, client_session_id: None, padding: vec![], addr: Addr::V6([9; 16], 1), payload: vec![1] };
        let w = s22_udp_client_encode(m, &keys, &p, &[0; 24]);
        match s22_udp_server_decode(m, &ipsk, &users, &w) {
            Ok((q, u)) => {
                check!("eih udp pkt", q, p);
                check!("eih udp user", u, Some(1));
            }
            Err(e) => f.push(format!("eih udp: {e}")),
        }
        // vector: iPSK/uPSK/salt from the SIP022 identity-header example used by upstream tests
        let ipsk = b64_decode("leWhlhIIhjHhGeaGVpqpRA==").unwrap();
        let upsk = b64_decode("BomScdlR6tXdKxm4FyZg9g==").unwrap();
        let salt = b64_decode("/xyg1YnI2gNuMydqgt8MgbfT0zDMougbi64SbDsVn1Q=").unwrap();
        let mut mat = ipsk.clone();
        mat.extend_from_slice(&salt);
        let sub = blake3_derive("shadowsocks 2022 identity subkey", &mat, 32);
        let mut block = blake3_hash16(&upsk);
        aes_ecb_encrypt_block(&sub, &mut block);
        check!("eih vector (aes-256 sub-key)", b64_encode(&block), "jGIxVuv1qqwcBYak0kGGaA==");
    }
    // VMess round trips
    for sec in [vmess::SEC_AES128_GCM, vmess::SEC_CHACHA20_POLY1305] {
        for opt in vmess::VALID_OPTION_MASKS {
            let uuid = parse_uuid("b831381d-6324-4d53-ad4f-8cda48b30811").unwrap();
            let ck = vmess_cmd_key(&uuid);
            let h = vmess::RequestHeader {
                version: 1,
                body_iv: [5; 16],
                body_key: [6; 16],
                resp_v: 0x42,
                option: opt,
                padding: vec![1, 2, 3],
                security: sec,
                reserved: 0,
                command: vmess::CMD_TCP,
                addr: Addr::Domain(b"v.example".to_vec(), 8080),
            };
            let aid = vmess::make_auth_id(&ck, 5000, 99);
            let mut wire = vmess::seal_request_header(&ck, &h, &aid, &[7; 8]);
            let mut w = vmess::Body::new(vmess::Direction::Request, sec, opt, &h.body_key, &h.body_iv);
            let payload: Vec<u8> = (0..20000u32).map(|i| (i * 13) as u8).collect();
            w.write(&payload, 8000, &mut |n| vec![0xAA; n], &mut wire);
            match vmess::open_request_header(&[[0; 16], ck], 5100, &wire) {
                Ok(o) => {
                    check!(format!("vmess hdr sec={sec} opt={opt:#x}"), o.header.clone(), h.clone());
                    check!("vmess key idx", o.key_index, 1usize);
                    let mut r = vmess::Body::new(vmess::Direction::Request, sec, opt, &h.body_key, &h.body_iv);
                    let mut got = Vec::new();
                    for piece in wire[o.consumed..].chunks(333) {
                        match r.feed(piece) {
                            Ok(cs) => cs.iter().for_each(|c| got.extend_from_slice(c)),
                            Err(e) => f.push(format!("vmess body sec={sec} opt={opt:#x}: {e}")),
                        }
                    }
                    check!(format!("vmess body sec={sec} opt={opt:#x}"), (got == payload), true);
                }
                Err(e) => f.push(format!("vmess open header: {e}")),
            }
            check!("vmess stale auth id", vmess::open_request_header(&[ck], 5121, &wire).is_err(), true);
            let (rk, ri) = vmess::response_keys(&h.body_key, &h.body_iv);
            let rh = vmess::seal_response_header(&rk, &ri, &[0x42, opt, 0, 0]);
            check!("vmess resp hdr", vmess::open_response_header(&rk, &ri, &rh), Ok::<_, crate::RefError>((vec![0x42, opt, 0, 0], rh.len())));
        }
    }
    // trojan
    {
        let a = Addr::V4([10, 0, 0, 1], 80);
        let w = crate::trojan::request_encode(b"pw", 1, &a, b"xyz");
        match crate::trojan::request_decode(b"pw", &w) {
            Ok(r) => {
                check!("trojan addr", r.addr, a);
                check!("trojan rest", &w[r.consumed..], b"xyz");
            }
            Err(e) => f.push(format!("trojan: {e}")),
        }
        check!("trojan wrong pw", crate::trojan::request_decode(b"pW", &w).is_err(), true);
    }
    f
}
