//! VMess AEAD (header sealing, auth-id, response header, body chunk stream).
//! Written from the V2Ray protocol description and v2ray-core behaviour; randomness is supplied by the caller.

use crate::addr::{vmess_decode, vmess_encode, Addr};
use crate::crypto::*;
use crate::{spec, RefError, RefResult};

pub const OPT_CHUNK_STREAM: u8 = 0x01;
pub const OPT_CHUNK_MASKING: u8 = 0x04;
pub const OPT_GLOBAL_PADDING: u8 = 0x08;
pub const OPT_AUTH_LEN: u8 = 0x10;

pub const SEC_AES128_GCM: u8 = 3;
pub const SEC_CHACHA20_POLY1305: u8 = 4;

pub const CMD_TCP: u8 = 1;
pub const CMD_UDP: u8 = 2;

pub const AUTH_ID_WINDOW: i64 = 120;

/// Option masks a v2ray-core peer can actually produce (ChunkStream always on; GlobalPadding needs ChunkMasking).
pub const VALID_OPTION_MASKS: [u8; 6] = [0x01, 0x05, 0x0D, 0x11, 0x15, 0x1D];

#[derive(Clone, Debug, PartialEq, Eq)]
pub struct RequestHeader {
    pub version: u8,
    pub body_iv: [u8; 16],
    pub body_key: [u8; 16],
    pub resp_v: u8,
    pub option: u8,
    /// 0..=15 random bytes
    pub padding: Vec<u8>,
    pub security: u8,
    pub reserved: u8,
    pub command: u8,
    pub addr: Addr,
}

pub fn make_auth_id(cmd_key: &[u8; 16], time: i64, rand: u32) -> [u8; 16] {
    let mut b = [0u8; 16];
    b[..8].copy_from_slice(&time.to_be_bytes());
    b[8..12].copy_from_slice(&rand.to_be_bytes());
    let c = crc32(&b[..12]);
    b[12..].copy_from_slice(&c.to_be_bytes());
    let k = vmess_kdf16(cmd_key, &[b"AES Auth ID Encryption"]);
    aes_ecb_encrypt_block(&k, &mut b);
    b
}

/// Returns (time, rand) if the CRC matches under this key.
pub fn open_auth_id(cmd_key: &[u8; 16], auth_id: &[u8; 16]) -> Option<(i64, u32)> {
    let mut b = *auth_id;
    let k = vmess_kdf16(cmd_key, &[b"AES Auth ID Encryption"]);
    aes_ecb_decrypt_block(&k, &mut b);
    let c = crc32(&b[..12]);
    if b[12..] != c.to_be_bytes() {
        return None;
    }
    Some((i64::from_be_bytes(b[..8].try_into().unwrap()), u32::from_be_bytes(b[8..12].try_into().unwrap())))
}

pub fn header_plaintext(h: &RequestHeader) -> Vec<u8> {
    assert!(h.padding.len() <= 15);
    let mut p = vec![h.version];
    p.extend_from_slice(&h.body_iv);
    p.extend_from_slice(&h.body_key);
    p.push(h.resp_v);
    p.push(h.option);
    p.push(((h.padding.len() as u8) << 4) | (h.security & 0x0F));
    p.push(h.reserved);
    p.push(h.command);
    vmess_encode(&h.addr, &mut p);
    p.extend_from_slice(&h.padding);
    let f = fnv1a32(&p);
    p.extend_from_slice(&f.to_be_bytes());
    p
}

/// Seal arbitrary header plaintext (lets a harness send authenticated-but-malformed headers).
pub fn seal_header_bytes(cmd_key: &[u8; 16], plaintext: &[u8], auth_id: &[u8; 16], conn_nonce: &[u8; 8]) -> Vec<u8> {
    let lk = vmess_kdf16(cmd_key, &[b"VMess Header AEAD Key_Length", auth_id, conn_nonce]);
    let li = vmess_kdf12(cmd_key, &[b"VMess Header AEAD Nonce_Length", auth_id, conn_nonce]);
    let pk = vmess_kdf16(cmd_key, &[b"VMess Header AEAD Key", auth_id, conn_nonce]);
    let pi = vmess_kdf12(cmd_key, &[b"VMess Header AEAD Nonce", auth_id, conn_nonce]);
    let mut out = auth_id.to_vec();
    out.extend_from_slice(&seal(AeadKind::Aes128Gcm, &lk, &li, auth_id, &(plaintext.len() as u16).to_be_bytes(), "vmess-hdr-len"));
    out.extend_from_slice(conn_nonce);
    out.extend_from_slice(&seal(AeadKind::Aes128Gcm, &pk, &pi, auth_id, plaintext, "vmess-hdr"));
    out
}

pub fn seal_request_header(cmd_key: &[u8; 16], h: &RequestHeader, auth_id: &[u8; 16], conn_nonce: &[u8; 8]) -> Vec<u8> {
    seal_header_bytes(cmd_key, &header_plaintext(h), auth_id, conn_nonce)
}

#[derive(Clone, Debug)]
pub struct OpenedRequest {
    pub header: RequestHeader,
    pub consumed: usize,
    pub key_index: usize,
    pub auth_time: i64,
    pub auth_id: [u8; 16],
    pub conn_nonce: [u8; 8],
}

/// Strict server-side opening of a sealed request header. `Err(Incomplete)` if more bytes are needed.
pub fn open_request_header(cmd_keys: &[[u8; 16]], now: i64, buf: &[u8]) -> RefResult<OpenedRequest> {
    if buf.len() < 16 {
        return Err(RefError::Incomplete);
    }
    let mut auth_id = [0u8; 16];
    auth_id.copy_from_slice(&buf[..16]);
    let mut found = None;
    for (i, k) in cmd_keys.iter().enumerate() {
        if let Some((t, _)) = open_auth_id(k, &auth_id) {
            if (t - now).abs() <= AUTH_ID_WINDOW {
                found = Some((i, t));
                break;
            }
        }
    }
    let (key_index, auth_time) = match found {
        Some(x) => x,
        None => return Err(RefError::Auth("vmess-auth-id")),
    };
    let cmd_key = &cmd_keys[key_index];
    if buf.len() < 16 + 18 + 8 {
        return Err(RefError::Incomplete);
    }
    let mut conn_nonce = [0u8; 8];
    conn_nonce.copy_from_slice(&buf[34..42]);
    let lk = vmess_kdf16(cmd_key, &[b"VMess Header AEAD Key_Length", &auth_id, &conn_nonce]);
    let li = vmess_kdf12(cmd_key, &[b"VMess Header AEAD Nonce_Length", &auth_id, &conn_nonce]);
    let l = open(AeadKind::Aes128Gcm, &lk, &li, &auth_id, &buf[16..34], "vmess-hdr-len").ok_or(RefError::Auth("vmess-hdr-len"))?;
    let n = u16::from_be_bytes([l[0], l[1]]) as usize;
    if buf.len() < 42 + n + 16 {
        return Err(RefError::Incomplete);
    }
    let pk = vmess_kdf16(cmd_key, &[b"VMess Header AEAD Key", &auth_id, &conn_nonce]);
    let pi = vmess_kdf12(cmd_key, &[b"VMess Header AEAD Nonce", &auth_id, &conn_nonce]);
    let p = open(AeadKind::Aes128Gcm, &pk, &pi, &auth_id, &buf[42..42 + n + 16], "vmess-hdr").ok_or(RefError::Auth("vmess-hdr"))?;
    let header = parse_header_plaintext(&p)?;
    Ok(OpenedRequest { header, consumed: 42 + n + 16, key_index, auth_time, auth_id, conn_nonce })
}

pub fn parse_header_plaintext(p: &[u8]) -> RefResult<RequestHeader> {
    if p.len() < 1 + 16 + 16 + 1 + 1 + 1 + 1 + 1 + 3 + 4 {
        return spec("header too short");
    }
    let version = p[0];
    if version != 1 {
        return spec(format!("version {version}"));
    }
    let mut body_iv = [0u8; 16];
    body_iv.copy_from_slice(&p[1..17]);
    let mut body_key = [0u8; 16];
    body_key.copy_from_slice(&p[17..33]);
    let resp_v = p[33];
    let option = p[34];
    let pad_len = (p[35] >> 4) as usize;
    let security = p[35] & 0x0F;
    let reserved = p[36];
    let command = p[37];
    if command != CMD_TCP && command != CMD_UDP {
        return spec(format!("command {command}"));
    }
    let (addr, used) = match vmess_decode(&p[38..]) {
        Ok(x) => x,
        Err(RefError::Incomplete) => return spec("truncated address"),
        Err(e) => return Err(e),
    };
    let off = 38 + used;
    if p.len() != off + pad_len + 4 {
        return spec(format!("header length {} != {}", p.len(), off + pad_len + 4));
    }
    let padding = p[off..off + pad_len].to_vec();
    let f = fnv1a32(&p[..off + pad_len]);
    if p[off + pad_len..] != f.to_be_bytes() {
        return spec("fnv1a mismatch");
    }
    Ok(RequestHeader { version, body_iv, body_key, resp_v, option, padding, security, reserved, command, addr })
}

pub fn response_keys(req_key: &[u8; 16], req_iv: &[u8; 16]) -> ([u8; 16], [u8; 16]) {
    let mut k = [0u8; 16];
    k.copy_from_slice(&sha256(&[req_key])[..16]);
    let mut i = [0u8; 16];
    i.copy_from_slice(&sha256(&[req_iv])[..16]);
    (k, i)
}

/// Sealed response header: `AEAD(len) AEAD([V, opt, cmd, cmdlen])`.
pub fn seal_response_header(resp_key: &[u8; 16], resp_iv: &[u8; 16], content: &[u8]) -> Vec<u8> {
    let lk = vmess_kdf16(resp_key, &[b"AEAD Resp Header Len Key"]);
    let li = vmess_kdf12(resp_iv, &[b"AEAD Resp Header Len IV"]);
    let pk = vmess_kdf16(resp_key, &[b"AEAD Resp Header Key"]);
    let pi = vmess_kdf12(resp_iv, &[b"AEAD Resp Header IV"]);
    let mut out = seal(AeadKind::Aes128Gcm, &lk, &li, &[], &(content.len() as u16).to_be_bytes(), "vmess-resp-len");
    out.extend_from_slice(&seal(AeadKind::Aes128Gcm, &pk, &pi, &[], content, "vmess-resp-hdr"));
    out
}

/// Returns (header content, consumed).
pub fn open_response_header(resp_key: &[u8; 16], resp_iv: &[u8; 16], buf: &[u8]) -> RefResult<(Vec<u8>, usize)> {
    if buf.len() < 18 {
        return Err(RefError::Incomplete);
    }
    let lk = vmess_kdf16(resp_key, &[b"AEAD Resp Header Len Key"]);
    let li = vmess_kdf12(resp_iv, &[b"AEAD Resp Header Len IV"]);
    let l = open(AeadKind::Aes128Gcm, &lk, &li, &[], &buf[..18], "vmess-resp-len").ok_or(RefError::Auth("vmess-resp-len"))?;
    let n = u16::from_be_bytes([l[0], l[1]]) as usize;
    if buf.len() < 18 + n + 16 {
        return Err(RefError::Incomplete);
    }
    let pk = vmess_kdf16(resp_key, &[b"AEAD Resp Header Key"]);
    let pi = vmess_kdf12(resp_iv, &[b"AEAD Resp Header IV"]);
    let c = open(AeadKind::Aes128Gcm, &pk, &pi, &[], &buf[18..18 + n + 16], "vmess-resp-hdr").ok_or(RefError::Auth("vmess-resp-hdr"))?;
    Ok((c, 18 + n + 16))
}

#[derive(Clone, Copy, Debug, PartialEq, Eq)]
pub enum Direction {
    Request,
    Response,
}

struct Counted {
    kind: AeadKind,
    key: Vec<u8>,
    iv: [u8; 16],
    count: u16,
    what: &'static str,
}

impl Counted {
    fn new(security: u8, key16: &[u8; 16], iv: &[u8; 16], what: &'static str) -> Self {
        let (kind, key) = if security == SEC_CHACHA20_POLY1305 { (AeadKind::ChaCha20Poly1305, vmess_chacha_key(key16).to_vec()) } else { (AeadKind::Aes128Gcm, key16.to_vec()) };
        crate::diag_key(&key);
        Self { kind, key, iv: *iv, count: 0, what }
    }
    fn nonce(&self) -> [u8; 12] {
        let mut n = [0u8; 12];
        n[..2].copy_from_slice(&self.count.to_be_bytes());
        n[2..].copy_from_slice(&self.iv[2..12]);
        n
    }
    fn seal(&mut self, pt: &[u8]) -> Vec<u8> {
        let n = self.nonce();
        self.count = self.count.wrapping_add(1);
        seal(self.kind, &self.key, &n, &[], pt, self.what)
    }
    fn open(&mut self, ct: &[u8]) -> RefResult<Vec<u8>> {
        let n = self.nonce();
        match open(self.kind, &self.key, &n, &[], ct, self.what) {
            Some(p) => {
                self.count = self.count.wrapping_add(1);
                Ok(p)
            }
            None => Err(RefError::Auth(self.what)),
        }
    }
}

/// One direction of the body chunk stream.
pub struct Body {
    payload: Counted,
    len_auth: Option<Counted>,
    shake: Option<Shake>,
    masking: bool,
    padding: bool,
    buf: Vec<u8>,
    pending: Option<(usize, usize)>, // (total chunk length after the size field, padding)
    /// set once a zero-length (terminating) chunk was read
    pub eof: bool,
    /// number of payload chunks sealed or opened
    pub chunks: u64,
}

impl Body {
    pub fn new(dir: Direction, security: u8, option: u8, req_key: &[u8; 16], req_iv: &[u8; 16]) -> Self {
        let (rk, ri) = response_keys(req_key, req_iv);
        let (key, iv) = match dir {
            Direction::Request => (*req_key, *req_iv),
            Direction::Response => (rk, ri),
        };
        let masking = option & OPT_CHUNK_MASKING != 0;
        let padding = option & OPT_GLOBAL_PADDING != 0;
        let shake = if masking || padding { Some(Shake::new(&iv)) } else { None };
        let len_auth = if option & OPT_AUTH_LEN != 0 {
            // v2ray-core derives the length cipher from the *request* key and IV in both directions
            let k = vmess_kdf16(req_key, &[b"auth_len"]);
            Some(Counted::new(security, &k, req_iv, if dir == Direction::Request { "vmess-len-request" } else { "vmess-len-response" }))
        } else {
            None
        };
        Self { payload: Counted::new(security, &key, &iv, if dir == Direction::Request { "vmess-payload-request" } else { "vmess-payload-response" }), len_auth, shake, masking, padding, buf: vec![], pending: None, eof: false, chunks: 0 }
    }

    fn size_field_len(&self) -> usize {
        if self.len_auth.is_some() {
            18
        } else {
            2
        }
    }

    /// Seal one chunk (`data` may be empty: the terminating chunk). `pad_bytes` supplies the padding content.
    pub fn write_chunk(&mut self, data: &[u8], pad_source: &mut dyn FnMut(usize) -> Vec<u8>, out: &mut Vec<u8>) {
        let pad = if self.padding { (self.shake.as_mut().unwrap().next_u16() % 64) as usize } else { 0 };
        let total = data.len() + 16 + pad;
        assert!(total <= 0xFFFF);
        if let Some(la) = self.len_auth.as_mut() {
            out.extend_from_slice(&la.seal(&((total - 16) as u16).to_be_bytes()));
        } else if self.masking {
            let m = self.shake.as_mut().unwrap().next_u16();
            out.extend_from_slice(&(m ^ total as u16).to_be_bytes());
        } else {
            out.extend_from_slice(&(total as u16).to_be_bytes());
        }
        out.extend_from_slice(&self.payload.seal(data));
        out.extend_from_slice(&pad_source(pad));
        self.chunks += 1;
    }

    /// Stream mode: split `data` into chunks of at most `max_payload` bytes.
    pub fn write(&mut self, data: &[u8], max_payload: usize, pad_source: &mut dyn FnMut(usize) -> Vec<u8>, out: &mut Vec<u8>) {
        for c in data.chunks(max_payload.max(1)) {
            self.write_chunk(c, pad_source, out);
        }
    }

    /// Feed wire bytes; returns the plaintext of every chunk completed by them.
    pub fn feed(&mut self, bytes: &[u8]) -> RefResult<Vec<Vec<u8>>> {
        self.buf.extend_from_slice(bytes);
        let mut out = Vec::new();
        loop {
            match self.pending {
                None => {
                    let sf = self.size_field_len();
                    if self.buf.len() < sf {
                        return Ok(out);
                    }
                    let pad = if self.padding { (self.shake.as_mut().unwrap().next_u16() % 64) as usize } else { 0 };
                    let total = if let Some(la) = self.len_auth.as_mut() {
                        let l = la.open(&self.buf[..18])?;
                        u16::from_be_bytes([l[0], l[1]]) as usize + 16
                    } else if self.masking {
                        let m = self.shake.as_mut().unwrap().next_u16();
                        (u16::from_be_bytes([self.buf[0], self.buf[1]]) ^ m) as usize
                    } else {
                        u16::from_be_bytes([self.buf[0], self.buf[1]]) as usize
                    };
                    self.buf.drain(..sf);
                    if total < 16 + pad {
                        return spec(format!("chunk length {total} shorter than tag+padding {}", 16 + pad));
                    }
                    self.pending = Some((total, pad));
                }
                Some((total, pad)) => {
                    if self.buf.len() < total {
                        return Ok(out);
                    }
                    let p = self.payload.open(&self.buf[..total - pad])?;
                    self.buf.drain(..total);
                    self.pending = None;
                    self.chunks += 1;
                    if p.is_empty() {
                        self.eof = true;
                    }
                    out.push(p);
                }
            }
        }
    }

    pub fn buffered(&self) -> usize {
        self.buf.len()
    }
}
