//! Independent extraction of the proxy target from an HTTP/1.1 request line
//! (RFC 9112 request-target forms, RFC 3986 authority).

/// What a forward proxy must connect to for `METHOD SP request-target`.
/// `None` = the request names no usable absolute target (must be refused).
/// The host is returned exactly as written (IPv6 literals keep their brackets).
pub fn expected_target(method: &str, target: &str) -> Option<(String, u16)> {
    if method.is_empty() || target.is_empty() || target.bytes().any(|b| b <= b' ' || b == 0x7f) {
        return None;
    }
    if method == "CONNECT" {
        // authority-form: host ":" port, port mandatory
        let (host, port) = split_authority(target)?;
        let port = port?;
        return Some((host, port));
    }
    // absolute-form: scheme "://" authority [ path ] [ "?" query ]
    let rest = target.strip_prefix("http://").or_else(|| strip_prefix_ci(target, "http://"))?;
    let end = rest.find(|c| c == '/' || c == '?' || c == '#').unwrap_or(rest.len());
    let authority = &rest[..end];
    if authority.contains('@') {
        return None; // userinfo is not produced by the workload; treated as unsupported
    }
    let (host, port) = split_authority(authority)?;
    Some((host, port.unwrap_or(80)))
}

fn strip_prefix_ci<'a>(s: &'a str, p: &str) -> Option<&'a str> {
    if s.len() >= p.len() && s[..p.len()].eq_ignore_ascii_case(p) {
        Some(&s[p.len()..])
    } else {
        None
    }
}

/// host [":" port] where host is reg-name / IPv4 / "[" IPv6 "]".
fn split_authority(a: &str) -> Option<(String, Option<u16>)> {
    if a.is_empty() {
        return None;
    }
    let (host, rest) = if a.starts_with('[') {
        let close = a.find(']')?;
        let inner = &a[1..close];
        if inner.is_empty() || !inner.bytes().all(|b| b.is_ascii_hexdigit() || b == b':' || b == b'.') {
            return None;
        }
        (&a[..=close], &a[close + 1..])
    } else {
        let colon = a.find(':');
        let h = &a[..colon.unwrap_or(a.len())];
        if h.is_empty() || h.contains('[') || h.contains(']') {
            return None;
        }
        (h, &a[colon.unwrap_or(a.len())..])
    };
    let port = if rest.is_empty() {
        None
    } else {
        let p = rest.strip_prefix(':')?;
        if p.is_empty() || p.len() > 5 || !p.bytes().all(|b| b.is_ascii_digit()) {
            return None;
        }
        let v: u32 = p.parse().ok()?;
        if v > 65535 {
            return None;
        }
        Some(v as u16)
    };
    Some((host.to_string(), port))
}

#[cfg(test)]
mod t {
    use super::*;
    #[test]
    fn basics() {
        assert_eq!(expected_target("GET", "http://a.b/x?y=http://z:1/"), Some(("a.b".into(), 80)));
        assert_eq!(expected_target("GET", "http://a.b:8080"), Some(("a.b".into(), 8080)));
        assert_eq!(expected_target("PUT", "http://[::1]/a:b"), Some(("[::1]".into(), 80)));
        assert_eq!(expected_target("CONNECT", "[::1]:443"), Some(("[::1]".into(), 443)));
        assert_eq!(expected_target("CONNECT", "a.b"), None);
        assert_eq!(expected_target("GET", "/index.html"), None);
        assert_eq!(expected_target("GET", "http://a:99999/"), None);
    }
}
