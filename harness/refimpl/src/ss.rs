//! Shadowsocks AEAD (SIP004) and Shadowsocks 2022 (SIP022, with extensible identity headers).
//! All randomness (salts, padding, session ids, XChaCha nonces) is supplied by the caller.

use crate::addr::{socks_decode, socks_encode, Addr};
use crate::crypto::*;
use crate::{spec, RefError, RefResult};

#[derive(Clone, Copy, Debug, PartialEq, Eq, Hash)]
pub enum Method {
    Aes128Gcm,
    Aes256Gcm,
    ChaCha20IetfPoly1305,
    B3Aes128Gcm,
    B3Aes256Gcm,
    B3ChaCha20Poly1305,
    B3ChaCha8Poly1305,
}

pub const ALL_METHODS: [Method; 7] = [
    Method::Aes128Gcm,
    Method::Aes256Gcm,
    Method::ChaCha20IetfPoly1305,
    Method::B3Aes128Gcm,
    Method::B3Aes256Gcm,
    Method::B3ChaCha20Poly1305,
    Method::B3ChaCha8Poly1305,
];

impl Method {
    pub fn name(self) -> &'static str {
        match self {
            Method::Aes128Gcm => "aes-128-gcm",
            Method::Aes256Gcm => "aes-256-gcm",
            Method::ChaCha20IetfPoly1305 => "chacha20-poly1305",
            Method::B3Aes128Gcm => "2022-blake3-aes-128-gcm",
            Method::B3Aes256Gcm => "2022-blake3-aes-256-gcm",
            Method::B3ChaCha20Poly1305 => "2022-blake3-chacha20-poly1305",
            Method::B3ChaCha8Poly1305 => "2022-blake3-chacha8-poly1305",
        }
    }
    pub fn from_name(s: &str) -> Option<Method> {
        ALL_METHODS.iter().copied().find(|m| m.name() == s).or(if s == "chacha20-ietf-poly1305" { Some(Method::ChaCha20IetfPoly1305) } else { None })
    }
    pub fn is_2022(self) -> bool {
        matches!(self, Method::B3Aes128Gcm | Method::B3Aes256Gcm | Method::B3ChaCha20Poly1305 | Method::B3ChaCha8Poly1305)
    }
    pub fn supports_eih(self) -> bool {
        matches!(self, Method::B3Aes128Gcm | Method::B3Aes256Gcm)
    }
    pub fn key_len(self) -> usize {
        match self {
            Method::Aes128Gcm | Method::B3Aes128Gcm => 16,
            _ => 32,
        }
    }
    /// AEAD used for the TCP stream (and for legacy UDP).
    pub fn stream_aead(self) -> AeadKind {
        match self {
            Method::Aes128Gcm | Method::B3Aes128Gcm => AeadKind::Aes128Gcm,
            Method::Aes256Gcm | Method::B3Aes256Gcm => AeadKind::Aes256Gcm,
            Method::ChaCha20IetfPoly1305 | Method::B3ChaCha20Poly1305 => AeadKind::ChaCha20Poly1305,
            Method::B3ChaCha8Poly1305 => AeadKind::ChaCha8Poly1305,
        }
    }
    /// Largest payload a sender may put into one chunk.
    pub fn max_chunk(self) -> usize {
        if self.is_2022() {
            0xFFFF
        } else {
            0x3FFF
        }
    }
}

#[derive(Clone, Debug, PartialEq, Eq)]
pub struct Keys {
    /// the key the payload is encrypted under: master key (SIP004), PSK or uPSK (SIP022)
    pub psk: Vec<u8>,
    /// identity PSKs, outermost first (SIP022 EIH); empty otherwise
    pub ipsks: Vec<Vec<u8>>,
}

/// README-level credential -> keys. Legacy: any text through EVP_BytesToKey. 2022: base64 keys of
/// exactly the cipher's key length, ':'-separated, last one is the user key.
pub fn keys_from_password(m: Method, password: &str) -> RefResult<Keys> {
    if !m.is_2022() {
        return Ok(Keys { psk: evp_bytes_to_key(password.as_bytes(), m.key_len()), ipsks: vec![] });
    }
    let mut all = Vec::new();
    for part in password.split(':') {
        let k = match b64_decode(part) {
            Some(k) => k,
            None => return spec("invalid base64 key"),
        };
        if k.len() != m.key_len() {
            return spec(format!("key length {} != {}", k.len(), m.key_len()));
        }
        all.push(k);
    }
    let psk = all.pop().unwrap();
    Ok(Keys { psk, ipsks: all })
}

/// Counter-nonce AEAD for stream chunks: 96-bit little-endian counter from 0.
#[derive(Clone)]
pub struct ChunkCipher {
    kind: AeadKind,
    key: Vec<u8>,
    ctr: u128,
}

impl ChunkCipher {
    pub fn new(kind: AeadKind, key: Vec<u8>) -> Self {
        crate::diag_key(&key);
        Self { kind, key, ctr: 0 }
    }
    pub fn counter(&self) -> u128 {
        self.ctr
    }
    pub fn key(&self) -> &[u8] {
        &self.key
    }
    fn nonce(&self) -> [u8; 12] {
        let mut n = [0u8; 12];
        n.copy_from_slice(&self.ctr.to_le_bytes()[..12]);
        n
    }
    pub fn seal(&mut self, pt: &[u8], what: &'static str) -> Vec<u8> {
        let n = self.nonce();
        self.ctr += 1;
        seal(self.kind, &self.key, &n, &[], pt, what)
    }
    pub fn open(&mut self, ct: &[u8], what: &'static str) -> RefResult<Vec<u8>> {
        let n = self.nonce();
        match open(self.kind, &self.key, &n, &[], ct, what) {
            Some(p) => {
                self.ctr += 1;
                Ok(p)
            }
            None => Err(RefError::Auth(what)),
        }
    }
}

/// Append `[len|tag][payload|tag]` chunks for `data`, none larger than `max_chunk`.
pub fn write_chunks(cc: &mut ChunkCipher, data: &[u8], max_chunk: usize, out: &mut Vec<u8>) {
    for c in data.chunks(max_chunk.max(1)) {
        out.extend_from_slice(&cc.seal(&(c.len() as u16).to_be_bytes(), "ss-len"));
        out.extend_from_slice(&cc.seal(c, "ss-payload"));
    }
}

/// Incremental reader of `[len|tag][payload|tag]` chunks.
pub struct ChunkReader {
    pending_len: Option<usize>,
    limit: usize,
    /// lengths of the payload chunks read so far
    pub chunk_lens: Vec<usize>,
}

impl ChunkReader {
    pub fn new(limit: usize) -> Self {
        Self { pending_len: None, limit, chunk_lens: vec![] }
    }
    /// Consume as many complete units from the front of `buf` as possible.
    pub fn read(&mut self, cc: &mut ChunkCipher, buf: &mut Vec<u8>, out: &mut Vec<u8>) -> RefResult<()> {
        loop {
            match self.pending_len {
                None => {
                    if buf.len() < 2 + TAG {
                        return Ok(());
                    }
                    let l = cc.open(&buf[..2 + TAG], "ss-len")?;
                    buf.drain(..2 + TAG);
                    let n = u16::from_be_bytes([l[0], l[1]]) as usize;
                    if n > self.limit {
                        return spec(format!("chunk length {n:#x} exceeds the sender limit {:#x}", self.limit));
                    }
                    self.pending_len = Some(n);
                }
                Some(n) => {
                    if buf.len() < n + TAG {
                        return Ok(());
                    }
                    let p = cc.open(&buf[..n + TAG], "ss-payload")?;
                    buf.drain(..n + TAG);
                    out.extend_from_slice(&p);
                    self.chunk_lens.push(n);
                    self.pending_len = None;
                }
            }
        }
    }
}

// ---------------------------------------------------------------------------------------------
// SIP004 stream

pub struct Sip004Writer {
    cc: ChunkCipher,
    salt: Option<Vec<u8>>,
}

impl Sip004Writer {
    pub fn new(m: Method, master: &[u8], salt: Vec<u8>) -> Self {
        assert!(!m.is_2022());
        assert_eq!(salt.len(), m.key_len());
        let sub = ss_subkey(master, &salt);
        Self { cc: ChunkCipher::new(m.stream_aead(), sub), salt: Some(salt) }
    }
    pub fn write(&mut self, data: &[u8], max_chunk: usize, out: &mut Vec<u8>) {
        if let Some(s) = self.salt.take() {
            out.extend_from_slice(&s);
        }
        write_chunks(&mut self.cc, data, max_chunk.min(0x3FFF), out);
    }
}

pub struct Sip004Reader {
    m: Method,
    master: Vec<u8>,
    cc: Option<ChunkCipher>,
    buf: Vec<u8>,
    pub chunks: ChunkReader,
    pub salt: Option<Vec<u8>>,
}

impl Sip004Reader {
    /// `strict_limit`: enforce the 0x3FFF sender limit (otherwise accept up to 0xFFFF).
    pub fn new(m: Method, master: &[u8], strict_limit: bool) -> Self {
        assert!(!m.is_2022());
        Self { m, master: master.to_vec(), cc: None, buf: vec![], chunks: ChunkReader::new(if strict_limit { 0x3FFF } else { 0xFFFF }), salt: None }
    }
    pub fn feed(&mut self, bytes: &[u8]) -> RefResult<Vec<u8>> {
        self.buf.extend_from_slice(bytes);
        let mut out = Vec::new();
        if self.cc.is_none() {
            let n = self.m.key_len();
            if self.buf.len() < n {
                return Ok(out);
            }
            let salt: Vec<u8> = self.buf.drain(..n).collect();
            self.cc = Some(ChunkCipher::new(self.m.stream_aead(), ss_subkey(&self.master, &salt)));
            self.salt = Some(salt);
        }
        self.chunks.read(self.cc.as_mut().unwrap(), &mut self.buf, &mut out)?;
        Ok(out)
    }
    pub fn buffered(&self) -> usize {
        self.buf.len()
    }
}

/// SIP004 UDP: [salt][AEAD(addr || payload)] with an all-zero nonce.
pub fn sip004_udp_encode(m: Method, master: &[u8], salt: &[u8], addr: &Addr, payload: &[u8]) -> Vec<u8> {
    assert_eq!(salt.len(), m.key_len());
    let sub = ss_subkey(master, salt);
    let mut pt = Vec::new();
    socks_encode(addr, &mut pt);
    pt.extend_from_slice(payload);
    let mut out = salt.to_vec();
    out.extend_from_slice(&seal(m.stream_aead(), &sub, &[0u8; 12], &[], &pt, "ss-udp"));
    out
}

pub fn sip004_udp_decode(m: Method, master: &[u8], pkt: &[u8]) -> RefResult<(Addr, Vec<u8>)> {
    let n = m.key_len();
    if pkt.len() < n + TAG {
        return spec("datagram too short");
    }
    let sub = ss_subkey(master, &pkt[..n]);
    let pt = open(m.stream_aead(), &sub, &[0u8; 12], &[], &pkt[n..], "ss-udp").ok_or(RefError::Auth("ss-udp"))?;
    let (a, used) = match socks_decode(&pt) {
        Ok(x) => x,
        Err(RefError::Incomplete) => return spec("truncated address"),
        Err(e) => return Err(e),
    };
    Ok((a, pt[used..].to_vec()))
}

// ---------------------------------------------------------------------------------------------
// SIP022 TCP

pub const TYPE_CLIENT: u8 = 0;
pub const TYPE_SERVER: u8 = 1;
pub const MAX_PADDING: usize = 900;
pub const MAX_TIME_DIFF: u64 = 30;

fn session_subkey(m: Method, psk: &[u8], salt: &[u8]) -> Vec<u8> {
    let mut mat = psk.to_vec();
    mat.extend_from_slice(salt);
    blake3_derive("shadowsocks 2022 session subkey", &mat, m.key_len())
}

fn identity_subkey(m: Method, ipsk: &[u8], salt: &[u8]) -> Vec<u8> {
    let mut mat = ipsk.to_vec();
    mat.extend_from_slice(salt);
    blake3_derive("shadowsocks 2022 identity subkey", &mat, m.key_len())
}

pub fn time_ok(now: u64, ts: u64) -> bool {
    now.abs_diff(ts) <= MAX_TIME_DIFF
}

#[derive(Clone, Debug)]
pub struct S22Request {
    pub type_byte: u8,
    pub timestamp: u64,
    pub addr: Addr,
    pub padding: Vec<u8>,
    pub initial_payload: Vec<u8>,
}

/// Client side: produce `salt [EIH..] fixed-header variable-header` and the chunk cipher for what follows.
pub fn s22_request_encode(m: Method, keys: &Keys, salt: &[u8], req: &S22Request) -> (Vec<u8>, ChunkCipher) {
    assert!(m.is_2022());
    assert_eq!(salt.len(), m.key_len());
    let mut out = salt.to_vec();
    if !keys.ipsks.is_empty() {
        assert!(m.supports_eih());
        for (i, ipsk) in keys.ipsks.iter().enumerate() {
            let next: &[u8] = if i + 1 < keys.ipsks.len() { &keys.ipsks[i + 1] } else { &keys.psk };
            let sub = identity_subkey(m, ipsk, salt);
            let mut block = blake3_hash16(next);
            aes_ecb_encrypt_block(&sub, &mut block);
            out.extend_from_slice(&block);
        }
    }
    let mut cc = ChunkCipher::new(m.stream_aead(), session_subkey(m, &keys.psk, salt));
    let mut var = Vec::new();
    socks_encode(&req.addr, &mut var);
    var.extend_from_slice(&(req.padding.len() as u16).to_be_bytes());
    var.extend_from_slice(&req.padding);
    var.extend_from_slice(&req.initial_payload);
    assert!(var.len() <= 0xFFFF);
    let mut fixed = vec![req.type_byte];
    fixed.extend_from_slice(&req.timestamp.to_be_bytes());
    fixed.extend_from_slice(&(var.len() as u16).to_be_bytes());
    out.extend_from_slice(&cc.seal(&fixed, "s22-fixed"));
    out.extend_from_slice(&cc.seal(&var, "s22-var"));
    (out, cc)
}

/// Like `s22_request_encode` but with an arbitrary (possibly malformed) variable header - correctly encrypted.
pub fn s22_request_encode_raw(m: Method, keys: &Keys, salt: &[u8], type_byte: u8, timestamp: u64, var: &[u8], declared_len: u16) -> (Vec<u8>, ChunkCipher) {
    let mut out = salt.to_vec();
    for (i, ipsk) in keys.ipsks.iter().enumerate() {
        let next: &[u8] = if i + 1 < keys.ipsks.len() { &keys.ipsks[i + 1] } else { &keys.psk };
        let sub = identity_subkey(m, ipsk, salt);
        let mut block = blake3_hash16(next);
        aes_ecb_encrypt_block(&sub, &mut block);
        out.extend_from_slice(&block);
    }
    let mut cc = ChunkCipher::new(m.stream_aead(), session_subkey(m, &keys.psk, salt));
    let mut fixed = vec![type_byte];
    fixed.extend_from_slice(&timestamp.to_be_bytes());
    fixed.extend_from_slice(&declared_len.to_be_bytes());
    out.extend_from_slice(&cc.seal(&fixed, "s22-fixed"));
    out.extend_from_slice(&cc.seal(var, "s22-var"));
    (out, cc)
}

#[derive(Clone, Debug)]
pub struct S22User {
    pub name: String,
    pub upsk: Vec<u8>,
}

/// Strict server-side reader of a client's request stream.
pub struct S22ServerReader {
    m: Method,
    server_psk: Vec<u8>,
    users: Vec<S22User>,
    now: u64,
    buf: Vec<u8>,
    cc: Option<ChunkCipher>,
    stage: u8, // 0 = salt+eih+fixed, 1 = variable header, 2 = chunks
    var_len: usize,
    pub chunks: ChunkReader,
    pub salt: Option<Vec<u8>>,
    pub user: Option<usize>,
    pub addr: Option<Addr>,
    pub timestamp: Option<u64>,
    pub padding_len: Option<usize>,
    pub initial_payload_len: Option<usize>,
    /// enforce "payload or padding" and the padding maximum
    pub strict: bool,
}

impl S22ServerReader {
    pub fn new(m: Method, server_psk: &[u8], users: Vec<S22User>, now: u64) -> Self {
        assert!(m.is_2022());
        Self {
            m,
            server_psk: server_psk.to_vec(),
            users,
            now,
            buf: vec![],
            cc: None,
            stage: 0,
            var_len: 0,
            chunks: ChunkReader::new(0xFFFF),
            salt: None,
            user: None,
            addr: None,
            timestamp: None,
            padding_len: None,
            initial_payload_len: None,
            strict: true,
        }
    }
    /// The key responses must be sealed under.
    pub fn response_key(&self) -> &[u8] {
        match self.user {
            Some(i) => &self.users[i].upsk,
            None => &self.server_psk,
        }
    }
    pub fn feed(&mut self, bytes: &[u8]) -> RefResult<Vec<u8>> {
        self.buf.extend_from_slice(bytes);
        let mut out = Vec::new();
        let n = self.m.key_len();
        let eih = if self.users.is_empty() { 0 } else { 16 };
        if self.stage == 0 {
            let need = n + eih + 1 + 8 + 2 + TAG;
            if self.buf.len() < need {
                return Ok(out);
            }
            let salt = self.buf[..n].to_vec();
            let key: Vec<u8> = if eih > 0 {
                let sub = identity_subkey(self.m, &self.server_psk, &salt);
                let mut block = [0u8; 16];
                block.copy_from_slice(&self.buf[n..n + 16]);
                aes_ecb_decrypt_block(&sub, &mut block);
                match self.users.iter().position(|u| blake3_hash16(&u.upsk) == block) {
                    Some(i) => {
                        self.user = Some(i);
                        self.users[i].upsk.clone()
                    }
                    None => return Err(RefError::Auth("s22-eih-unknown-user")),
                }
            } else {
                self.server_psk.clone()
            };
            let mut cc = ChunkCipher::new(self.m.stream_aead(), session_subkey(self.m, &key, &salt));
            let fixed = cc.open(&self.buf[n + eih..need], "s22-fixed")?;
            self.buf.drain(..need);
            if fixed[0] != TYPE_CLIENT {
                return spec(format!("request type byte {}", fixed[0]));
            }
            let ts = u64::from_be_bytes(fixed[1..9].try_into().unwrap());
            self.timestamp = Some(ts);
            if !time_ok(self.now, ts) {
                return spec(format!("timestamp {} outside +-30 s of {}", ts, self.now));
            }
            self.var_len = u16::from_be_bytes([fixed[9], fixed[10]]) as usize;
            self.salt = Some(salt);
            self.cc = Some(cc);
            self.stage = 1;
        }
        if self.stage == 1 {
            if self.buf.len() < self.var_len + TAG {
                return Ok(out);
            }
            let var = self.cc.as_mut().unwrap().open(&self.buf[..self.var_len + TAG], "s22-var")?;
            self.buf.drain(..self.var_len + TAG);
            let (a, used) = match socks_decode(&var) {
                Ok(x) => x,
                Err(RefError::Incomplete) => return spec("variable header: truncated address"),
                Err(e) => return Err(e),
            };
            if var.len() < used + 2 {
                return spec("variable header: missing padding length");
            }
            let pad = u16::from_be_bytes([var[used], var[used + 1]]) as usize;
            if var.len() < used + 2 + pad {
                return spec("variable header: padding exceeds header");
            }
            let payload = &var[used + 2 + pad..];
            if self.strict {
                if pad > MAX_PADDING {
                    return spec(format!("padding {pad} > 900"));
                }
                // SIP022 3.1.3: a request that carries no initial payload MUST carry padding, and servers MUST reject a
                // request that has neither (sing-shadowsocks: "missing payload or padding")
                if pad == 0 && payload.is_empty() {
                    return spec("request header carries neither payload nor padding");
                }
            }
            self.addr = Some(a);
            self.padding_len = Some(pad);
            self.initial_payload_len = Some(payload.len());
            out.extend_from_slice(payload);
            self.stage = 2;
        }
        self.chunks.read(self.cc.as_mut().unwrap(), &mut self.buf, &mut out)?;
        Ok(out)
    }
    pub fn header_done(&self) -> bool {
        self.stage == 2
    }
    pub fn buffered(&self) -> usize {
        self.buf.len()
    }
}

/// Server side: `salt fixed-header(type,ts,request_salt,len) first-payload` and the chunk cipher.
pub fn s22_response_encode(
    m: Method,
    key: &[u8],
    salt: &[u8],
    type_byte: u8,
    timestamp: u64,
    request_salt: &[u8],
    first_payload: &[u8],
) -> (Vec<u8>, ChunkCipher) {
    assert!(first_payload.len() <= 0xFFFF);
    let mut cc = ChunkCipher::new(m.stream_aead(), session_subkey(m, key, salt));
    let mut fixed = vec![type_byte];
    fixed.extend_from_slice(&timestamp.to_be_bytes());
    fixed.extend_from_slice(request_salt);
    fixed.extend_from_slice(&(first_payload.len() as u16).to_be_bytes());
    let mut out = salt.to_vec();
    out.extend_from_slice(&cc.seal(&fixed, "s22-fixed"));
    out.extend_from_slice(&cc.seal(first_payload, "s22-payload"));
    (out, cc)
}

/// Strict client-side reader of a server's response stream.
pub struct S22ClientReader {
    m: Method,
    key: Vec<u8>,
    own_salt: Vec<u8>,
    now: u64,
    buf: Vec<u8>,
    cc: Option<ChunkCipher>,
    stage: u8,
    first_len: usize,
    pub chunks: ChunkReader,
    pub salt: Option<Vec<u8>>,
    pub timestamp: Option<u64>,
}

impl S22ClientReader {
    pub fn new(m: Method, key: &[u8], own_request_salt: &[u8], now: u64) -> Self {
        Self { m, key: key.to_vec(), own_salt: own_request_salt.to_vec(), now, buf: vec![], cc: None, stage: 0, first_len: 0, chunks: ChunkReader::new(0xFFFF), salt: None, timestamp: None }
    }
    pub fn feed(&mut self, bytes: &[u8]) -> RefResult<Vec<u8>> {
        self.buf.extend_from_slice(bytes);
        let mut out = Vec::new();
        let n = self.m.key_len();
        if self.stage == 0 {
            let need = n + 1 + 8 + n + 2 + TAG;
            if self.buf.len() < need {
                return Ok(out);
            }
            let salt = self.buf[..n].to_vec();
            let mut cc = ChunkCipher::new(self.m.stream_aead(), session_subkey(self.m, &self.key, &salt));
            let fixed = cc.open(&self.buf[n..need], "s22-fixed")?;
            self.buf.drain(..need);
            if fixed[0] != TYPE_SERVER {
                return spec(format!("response type byte {}", fixed[0]));
            }
            let ts = u64::from_be_bytes(fixed[1..9].try_into().unwrap());
            self.timestamp = Some(ts);
            if !time_ok(self.now, ts) {
                return spec("response timestamp outside window");
            }
            if fixed[9..9 + n] != self.own_salt[..] {
                return spec("response request-salt does not match the request");
            }
            self.first_len = u16::from_be_bytes([fixed[9 + n], fixed[10 + n]]) as usize;
            self.salt = Some(salt);
            self.cc = Some(cc);
            self.stage = 1;
        }
        if self.stage == 1 {
            if self.buf.len() < self.first_len + TAG {
                return Ok(out);
            }
            let p = self.cc.as_mut().unwrap().open(&self.buf[..self.first_len + TAG], "s22-payload")?;
            self.buf.drain(..self.first_len + TAG);
            out.extend_from_slice(&p);
            self.chunks.chunk_lens.push(self.first_len);
            self.stage = 2;
        }
        self.chunks.read(self.cc.as_mut().unwrap(), &mut self.buf, &mut out)?;
        Ok(out)
    }
    pub fn buffered(&self) -> usize {
        self.buf.len()
    }
}

// ---------------------------------------------------------------------------------------------
// SIP022 UDP

#[derive(Clone, Debug, PartialEq, Eq)]
pub struct S22UdpPacket {
    /// sender's session id (client session id for requests, server session id for responses)
    pub session_id: u64,
    pub packet_id: u64,
    pub type_byte: u8,
    pub timestamp: u64,
    /// only in responses
    pub client_session_id: Option<u64>,
    pub padding: Vec<u8>,
    pub addr: Addr,
    pub payload: Vec<u8>,
}

fn udp_aead(m: Method) -> AeadKind {
    match m {
        Method::B3Aes128Gcm => AeadKind::Aes128Gcm,
        Method::B3Aes256Gcm => AeadKind::Aes256Gcm,
        Method::B3ChaCha20Poly1305 => AeadKind::XChaCha20Poly1305,
        Method::B3ChaCha8Poly1305 => AeadKind::XChaCha8Poly1305,
        _ => panic!("not a 2022 method"),
    }
}

fn udp_body(p: &S22UdpPacket) -> Vec<u8> {
    let mut b = vec![p.type_byte];
    b.extend_from_slice(&p.timestamp.to_be_bytes());
    if let Some(c) = p.client_session_id {
        b.extend_from_slice(&c.to_be_bytes());
    }
    b.extend_from_slice(&(p.padding.len() as u16).to_be_bytes());
    b.extend_from_slice(&p.padding);
    socks_encode(&p.addr, &mut b);
    b.extend_from_slice(&p.payload);
    b
}

fn udp_parse_body(session_id: u64, packet_id: u64, body: &[u8], response: bool) -> RefResult<S22UdpPacket> {
    let fixed = 1 + 8 + if response { 8 } else { 0 } + 2;
    if body.len() < fixed {
        return spec("udp body too short");
    }
    let type_byte = body[0];
    let timestamp = u64::from_be_bytes(body[1..9].try_into().unwrap());
    let mut off = 9;
    let client_session_id = if response {
        off += 8;
        Some(u64::from_be_bytes(body[9..17].try_into().unwrap()))
    } else {
        None
    };
    let pad = u16::from_be_bytes([body[off], body[off + 1]]) as usize;
    off += 2;
    if body.len() < off + pad {
        return spec("udp padding exceeds body");
    }
    let padding = body[off..off + pad].to_vec();
    off += pad;
    let (addr, used) = match socks_decode(&body[off..]) {
        Ok(x) => x,
        Err(RefError::Incomplete) => return spec("udp truncated address"),
        Err(e) => return Err(e),
    };
    off += used;
    Ok(S22UdpPacket { session_id, packet_id, type_byte, timestamp, client_session_id, padding, addr, payload: body[off..].to_vec() })
}

/// Encode a client->server datagram. `xnonce` is used by the chacha methods only.
pub fn s22_udp_client_encode(m: Method, keys: &Keys, p: &S22UdpPacket, xnonce: &[u8; 24]) -> Vec<u8> {
    assert!(p.client_session_id.is_none());
    let body = udp_body(p);
    let mut head = [0u8; 16];
    head[..8].copy_from_slice(&p.session_id.to_be_bytes());
    head[8..].copy_from_slice(&p.packet_id.to_be_bytes());
    match m {
        Method::B3Aes128Gcm | Method::B3Aes256Gcm => {
            let sub = session_subkey(m, &keys.psk, &p.session_id.to_be_bytes());
            let ct = seal(udp_aead(m), &sub, &head[4..16], &[], &body, "s22-udp");
            let mut out = Vec::new();
            let mut enc_head = head;
            let head_key: &[u8] = if keys.ipsks.is_empty() { &keys.psk } else { &keys.ipsks[0] };
            aes_ecb_encrypt_block(head_key, &mut enc_head);
            out.extend_from_slice(&enc_head);
            for (i, ipsk) in keys.ipsks.iter().enumerate() {
                let next: &[u8] = if i + 1 < keys.ipsks.len() { &keys.ipsks[i + 1] } else { &keys.psk };
                let mut block = blake3_hash16(next);
                for (b, h) in block.iter_mut().zip(head.iter()) {
                    *b ^= h;
                }
                aes_ecb_encrypt_block(ipsk, &mut block);
                out.extend_from_slice(&block);
            }
            out.extend_from_slice(&ct);
            out
        }
        _ => {
            let mut pt = head.to_vec();
            pt.extend_from_slice(&body);
            let mut out = xnonce.to_vec();
            out.extend_from_slice(&seal(udp_aead(m), &keys.psk, xnonce, &[], &pt, "s22-udp"));
            out
        }
    }
}

/// Decode a client->server datagram as a server with `server_psk` and an optional user table.
/// Returns the packet and the index of the user whose key opened it.
pub fn s22_udp_server_decode(m: Method, server_psk: &[u8], users: &[S22User], pkt: &[u8]) -> RefResult<(S22UdpPacket, Option<usize>)> {
    match m {
        Method::B3Aes128Gcm | Method::B3Aes256Gcm => {
            let eih = if users.is_empty() { 0 } else { 16 };
            if pkt.len() < 16 + eih + TAG {
                return spec("datagram too short");
            }
            let mut head = [0u8; 16];
            head.copy_from_slice(&pkt[..16]);
            aes_ecb_decrypt_block(server_psk, &mut head);
            let session_id = u64::from_be_bytes(head[..8].try_into().unwrap());
            let packet_id = u64::from_be_bytes(head[8..].try_into().unwrap());
            let (key, user): (Vec<u8>, Option<usize>) = if eih > 0 {
                let mut block = [0u8; 16];
                block.copy_from_slice(&pkt[16..32]);
                aes_ecb_decrypt_block(server_psk, &mut block);
                for (b, h) in block.iter_mut().zip(head.iter()) {
                    *b ^= h;
                }
                match users.iter().position(|u| blake3_hash16(&u.upsk) == block) {
                    Some(i) => (users[i].upsk.clone(), Some(i)),
                    None => return Err(RefError::Auth("s22-udp-eih-unknown-user")),
                }
            } else {
                (server_psk.to_vec(), None)
            };
            let sub = session_subkey(m, &key, &session_id.to_be_bytes());
            let body = open(udp_aead(m), &sub, &head[4..16], &[], &pkt[16 + eih..], "s22-udp").ok_or(RefError::Auth("s22-udp"))?;
            Ok((udp_parse_body(session_id, packet_id, &body, false)?, user))
        }
        _ => {
            if pkt.len() < 24 + 16 + TAG {
                return spec("datagram too short");
            }
            let pt = open(udp_aead(m), server_psk, &pkt[..24], &[], &pkt[24..], "s22-udp").ok_or(RefError::Auth("s22-udp"))?;
            let session_id = u64::from_be_bytes(pt[..8].try_into().unwrap());
            let packet_id = u64::from_be_bytes(pt[8..16].try_into().unwrap());
            Ok((udp_parse_body(session_id, packet_id, &pt[16..], false)?, None))
        }
    }
}

/// Encode a server->client datagram under `key` (the user's key in multi-user mode, else the PSK).
pub fn s22_udp_server_encode(m: Method, key: &[u8], p: &S22UdpPacket, xnonce: &[u8; 24]) -> Vec<u8> {
    assert!(p.client_session_id.is_some());
    let body = udp_body(p);
    let mut head = [0u8; 16];
    head[..8].copy_from_slice(&p.session_id.to_be_bytes());
    head[8..].copy_from_slice(&p.packet_id.to_be_bytes());
    match m {
        Method::B3Aes128Gcm | Method::B3Aes256Gcm => {
            let sub = session_subkey(m, key, &p.session_id.to_be_bytes());
            let ct = seal(udp_aead(m), &sub, &head[4..16], &[], &body, "s22-udp");
            let mut enc_head = head;
            aes_ecb_encrypt_block(key, &mut enc_head);
            let mut out = enc_head.to_vec();
            out.extend_from_slice(&ct);
            out
        }
        _ => {
            let mut pt = head.to_vec();
            pt.extend_from_slice(&body);
            let mut out = xnonce.to_vec();
            out.extend_from_slice(&seal(udp_aead(m), key, xnonce, &[], &pt, "s22-udp"));
            out
        }
    }
}

/// Decode a server->client datagram with the client's own key.
pub fn s22_udp_client_decode(m: Method, key: &[u8], pkt: &[u8]) -> RefResult<S22UdpPacket> {
    match m {
        Method::B3Aes128Gcm | Method::B3Aes256Gcm => {
            if pkt.len() < 16 + TAG {
                return spec("datagram too short");
            }
            let mut head = [0u8; 16];
            head.copy_from_slice(&pkt[..16]);
            aes_ecb_decrypt_block(key, &mut head);
            let session_id = u64::from_be_bytes(head[..8].try_into().unwrap());
            let packet_id = u64::from_be_bytes(head[8..].try_into().unwrap());
            let sub = session_subkey(m, key, &session_id.to_be_bytes());
            let body = open(udp_aead(m), &sub, &head[4..16], &[], &pkt[16..], "s22-udp").ok_or(RefError::Auth("s22-udp"))?;
            udp_parse_body(session_id, packet_id, &body, true)
        }
        _ => {
            if pkt.len() < 24 + 16 + TAG {
                return spec("datagram too short");
            }
            let pt = open(udp_aead(m), key, &pkt[..24], &[], &pkt[24..], "s22-udp").ok_or(RefError::Auth("s22-udp"))?;
            let session_id = u64::from_be_bytes(pt[..8].try_into().unwrap());
            let packet_id = u64::from_be_bytes(pt[8..16].try_into().unwrap());
            udp_parse_body(session_id, packet_id, &pt[16..], true)
        }
    }
}

/// Datagram with an arbitrary (possibly malformed) body, correctly encrypted. `response` selects the server->client key usage.
pub fn s22_udp_encode_raw(m: Method, keys: &Keys, session_id: u64, packet_id: u64, body: &[u8], xnonce: &[u8; 24], response: bool) -> Vec<u8> {
    let mut head = [0u8; 16];
    head[..8].copy_from_slice(&session_id.to_be_bytes());
    head[8..].copy_from_slice(&packet_id.to_be_bytes());
    match m {
        Method::B3Aes128Gcm | Method::B3Aes256Gcm => {
            let sub = session_subkey(m, &keys.psk, &session_id.to_be_bytes());
            let ct = seal(udp_aead(m), &sub, &head[4..16], &[], body, "s22-udp");
            let mut out = Vec::new();
            let mut enc_head = head;
            let head_key: &[u8] = if keys.ipsks.is_empty() || response { &keys.psk } else { &keys.ipsks[0] };
            aes_ecb_encrypt_block(head_key, &mut enc_head);
            out.extend_from_slice(&enc_head);
            if !response {
                for (i, ipsk) in keys.ipsks.iter().enumerate() {
                    let next: &[u8] = if i + 1 < keys.ipsks.len() { &keys.ipsks[i + 1] } else { &keys.psk };
                    let mut block = blake3_hash16(next);
                    for (b, h) in block.iter_mut().zip(head.iter()) {
                        *b ^= h;
                    }
                    aes_ecb_encrypt_block(ipsk, &mut block);
                    out.extend_from_slice(&block);
                }
            }
            out.extend_from_slice(&ct);
            out
        }
        _ => {
            let mut pt = head.to_vec();
            pt.extend_from_slice(body);
            let mut out = xnonce.to_vec();
            out.extend_from_slice(&seal(udp_aead(m), &keys.psk, xnonce, &[], &pt, "s22-udp"));
            out
        }
    }
}

/// SIP004 datagram with an arbitrary plaintext.
pub fn sip004_udp_encode_raw(m: Method, master: &[u8], salt: &[u8], plaintext: &[u8]) -> Vec<u8> {
    let sub = ss_subkey(master, salt);
    let mut out = salt.to_vec();
    out.extend_from_slice(&seal(m.stream_aead(), &sub, &[0u8; 12], &[], plaintext, "ss-udp"));
    out
}

/// A client->server AES-2022 datagram whose identity header names the user holding `eih_upsk` while the body is sealed
/// under `body_upsk` (what a registered user can forge against another one). Only for the EIH-capable methods.
pub fn s22_udp_client_encode_forged(m: Method, ipsk: &[u8], body_upsk: &[u8], eih_upsk: &[u8], p: &S22UdpPacket, _xnonce: &[u8; 24]) -> Vec<u8> {
    assert!(m.supports_eih());
    let body = udp_body(p);
    let mut head = [0u8; 16];
    head[..8].copy_from_slice(&p.session_id.to_be_bytes());
    head[8..].copy_from_slice(&p.packet_id.to_be_bytes());
    let sub = session_subkey(m, body_upsk, &p.session_id.to_be_bytes());
    let ct = seal(udp_aead(m), &sub, &head[4..16], &[], &body, "s22-udp");
    let mut enc_head = head;
    aes_ecb_encrypt_block(ipsk, &mut enc_head);
    let mut out = enc_head.to_vec();
    let mut block = blake3_hash16(eih_upsk);
    for (b, h) in block.iter_mut().zip(head.iter()) {
        *b ^= h;
    }
    aes_ecb_encrypt_block(ipsk, &mut block);
    out.extend_from_slice(&block);
    out.extend_from_slice(&ct);
    out
}

// ---------------------------------------------------------------------------------------------
// SIP023 relays: what a hop that holds only its own identity key does with a request.

/// TCP: the relay holding `ipsk` opens the FIRST identity header of `wire` (salt ‖ EIH_0 ‖ EIH_1 ‖ ... ‖ rest) under its
/// identity subkey and learns the hash of the next key; what it forwards is the stream without that header.
pub fn s22_relay_hop_tcp(m: Method, ipsk: &[u8], wire: &[u8]) -> RefResult<([u8; 16], Vec<u8>)> {
    let k = m.key_len();
    if wire.len() < k + 16 {
        return Err(RefError::Incomplete);
    }
    let sub = identity_subkey(m, ipsk, &wire[..k]);
    let mut block = [0u8; 16];
    block.copy_from_slice(&wire[k..k + 16]);
    aes_ecb_decrypt_block(&sub, &mut block);
    let mut fwd = wire[..k].to_vec();
    fwd.extend_from_slice(&wire[k + 16..]);
    Ok((block, fwd))
}

/// UDP (AES methods): the relay holding `ipsk` decrypts the separate header, opens the first identity header
/// (AES-ECB under `ipsk`, XOR separate header) and forwards the packet with the separate header re-encrypted under the
/// next hop's key and that identity header removed.
pub fn s22_relay_hop_udp(m: Method, ipsk: &[u8], next_ipsk: &[u8], pkt: &[u8]) -> RefResult<([u8; 16], Vec<u8>)> {
    assert!(m.supports_eih());
    if pkt.len() < 32 {
        return Err(RefError::Incomplete);
    }
    let mut head = [0u8; 16];
    head.copy_from_slice(&pkt[..16]);
    aes_ecb_decrypt_block(ipsk, &mut head);
    let mut block = [0u8; 16];
    block.copy_from_slice(&pkt[16..32]);
    aes_ecb_decrypt_block(ipsk, &mut block);
    for (b, h) in block.iter_mut().zip(head.iter()) {
        *b ^= h;
    }
    let mut out_head = head;
    aes_ecb_encrypt_block(next_ipsk, &mut out_head);
    let mut fwd = out_head.to_vec();
    fwd.extend_from_slice(&pkt[32..]);
    Ok((block, fwd))
}
