//! Primitive wrappers and key derivations.

use aes::cipher::{BlockDecrypt, BlockEncrypt};
use aes_gcm::aead::{Aead, KeyInit, Payload};
use md5::{Digest, Md5};
use sha2::Sha256;
use sha3::digest::{ExtendableOutput, Update, XofReader};

#[derive(Clone, Copy, Debug, PartialEq, Eq, Hash)]
pub enum AeadKind {
    Aes128Gcm,
    Aes256Gcm,
    ChaCha20Poly1305,
    ChaCha8Poly1305,
    XChaCha20Poly1305,
    XChaCha8Poly1305,
}

impl AeadKind {
    pub fn key_len(self) -> usize {
        match self {
            AeadKind::Aes128Gcm => 16,
            _ => 32,
        }
    }
    pub fn nonce_len(self) -> usize {
        match self {
            AeadKind::XChaCha20Poly1305 | AeadKind::XChaCha8Poly1305 => 24,
            _ => 12,
        }
    }
}

pub const TAG: usize = 16;

macro_rules! with_aead {
    ($kind:expr, $key:expr, |$c:ident| $body:expr) => {
        match $kind {
            AeadKind::Aes128Gcm => {
                let $c = aes_gcm::Aes128Gcm::new_from_slice($key).expect("key length");
                $body
            }
            AeadKind::Aes256Gcm => {
                let $c = aes_gcm::Aes256Gcm::new_from_slice($key).expect("key length");
                $body
            }
            AeadKind::ChaCha20Poly1305 => {
                let $c = chacha20poly1305::ChaCha20Poly1305::new_from_slice($key).expect("key length");
                $body
            }
            AeadKind::ChaCha8Poly1305 => {
                let $c = chacha20poly1305::ChaCha8Poly1305::new_from_slice($key).expect("key length");
                $body
            }
            AeadKind::XChaCha20Poly1305 => {
                let $c = chacha20poly1305::XChaCha20Poly1305::new_from_slice($key).expect("key length");
                $body
            }
            AeadKind::XChaCha8Poly1305 => {
                let $c = chacha20poly1305::XChaCha8Poly1305::new_from_slice($key).expect("key length");
                $body
            }
        }
    };
}

/// AEAD seal; `key` must have exactly `kind.key_len()` bytes, `nonce` exactly `kind.nonce_len()`.
pub fn seal(kind: AeadKind, key: &[u8], nonce: &[u8], aad: &[u8], pt: &[u8], what: &'static str) -> Vec<u8> {
    assert_eq!(key.len(), kind.key_len());
    assert_eq!(nonce.len(), kind.nonce_len());
    crate::unit_log(key, nonce, what);
    crate::diag_key(key);
    with_aead!(kind, key, |c| c.encrypt(nonce.into(), Payload { msg: pt, aad }).expect("seal"))
}

/// AEAD open; `None` on tag mismatch.
pub fn open(kind: AeadKind, key: &[u8], nonce: &[u8], aad: &[u8], ct: &[u8], what: &'static str) -> Option<Vec<u8>> {
    assert_eq!(key.len(), kind.key_len());
    assert_eq!(nonce.len(), kind.nonce_len());
    if ct.len() < TAG {
        return None;
    }
    crate::diag_key(key);
    let r = with_aead!(kind, key, |c| c.decrypt(nonce.into(), Payload { msg: ct, aad }).ok());
    if r.is_some() {
        crate::unit_log(key, nonce, what);
        return r;
    }
    // diagnostic mode only: was it sealed under another key of this session, or a neighbouring counter?
    if let Some(cands) = crate::diag_candidates(key.len()) {
        let mut nonces: Vec<Vec<u8>> = vec![nonce.to_vec()];
        if nonce.len() == 12 {
            for d in [1i64, -1, 2, -2] {
                // 96-bit little-endian counter (Shadowsocks)
                let mut le = [0u8; 16];
                le[..12].copy_from_slice(nonce);
                let v = u128::from_le_bytes(le).wrapping_add(d as i128 as u128);
                nonces.push(v.to_le_bytes()[..12].to_vec());
                // 16-bit big-endian counter in front of the IV (VMess)
                let mut be = nonce.to_vec();
                let c = u16::from_be_bytes([be[0], be[1]]).wrapping_add(d as u16);
                be[..2].copy_from_slice(&c.to_be_bytes());
                nonces.push(be);
            }
        }
        for k in cands.iter() {
            for (ni, n) in nonces.iter().enumerate() {
                if k.as_slice() == key && ni == 0 {
                    continue;
                }
                let r = with_aead!(kind, k, |c| c.decrypt(n.as_slice().into(), Payload { msg: ct, aad }).ok());
                if r.is_some() {
                    crate::unit_log(k, n, what);
                    crate::diag_note(format!("unit '{what}' does not open under the key and nonce the specification prescribes; it opens under {} and {}", if k.as_slice() == key { "the prescribed key" } else { "ANOTHER key of the same session" }, if ni == 0 { "the prescribed nonce" } else { "a neighbouring counter value" }));
                    return r;
                }
            }
        }
    }
    None
}

pub fn aes_ecb_encrypt_block(key: &[u8], block: &mut [u8; 16]) {
    let b = aes::Block::from_mut_slice(block);
    match key.len() {
        16 => aes::Aes128::new_from_slice(key).unwrap().encrypt_block(b),
        32 => aes::Aes256::new_from_slice(key).unwrap().encrypt_block(b),
        n => panic!("aes key length {n}"),
    }
}

pub fn aes_ecb_decrypt_block(key: &[u8], block: &mut [u8; 16]) {
    let b = aes::Block::from_mut_slice(block);
    match key.len() {
        16 => aes::Aes128::new_from_slice(key).unwrap().decrypt_block(b),
        32 => aes::Aes256::new_from_slice(key).unwrap().decrypt_block(b),
        n => panic!("aes key length {n}"),
    }
}

pub fn md5(parts: &[&[u8]]) -> [u8; 16] {
    let mut h = Md5::new();
    for p in parts {
        Digest::update(&mut h, p);
    }
    h.finalize().into()
}

pub fn sha256(parts: &[&[u8]]) -> [u8; 32] {
    let mut h = Sha256::new();
    for p in parts {
        Digest::update(&mut h, p);
    }
    h.finalize().into()
}

pub fn sha224_hex(data: &[u8]) -> String {
    let mut h = sha2::Sha224::new();
    Digest::update(&mut h, data);
    let d = h.finalize();
    let mut s = String::with_capacity(56);
    for b in d.iter() {
        s.push_str(&format!("{:02x}", b));
    }
    s
}

/// OpenSSL EVP_BytesToKey with MD5, no salt, one iteration (SIP004 password -> master key).
pub fn evp_bytes_to_key(password: &[u8], key_len: usize) -> Vec<u8> {
    let mut out = Vec::with_capacity(key_len + 16);
    let mut prev: Vec<u8> = Vec::new();
    while out.len() < key_len {
        let d = md5(&[&prev, password]);
        out.extend_from_slice(&d);
        prev = d.to_vec();
    }
    out.truncate(key_len);
    out
}

/// HKDF-SHA1 with info "ss-subkey" (SIP004 session sub-key).
pub fn ss_subkey(master: &[u8], salt: &[u8]) -> Vec<u8> {
    let hk = hkdf::Hkdf::<sha1::Sha1>::new(Some(salt), master);
    let mut okm = vec![0u8; master.len()];
    hk.expand(b"ss-subkey", &mut okm).expect("hkdf");
    okm
}

/// BLAKE3 derive_key, truncated to `out_len`.
pub fn blake3_derive(context: &str, material: &[u8], out_len: usize) -> Vec<u8> {
    let mut h = blake3::Hasher::new_derive_key(context);
    h.update(material);
    let mut out = vec![0u8; out_len];
    h.finalize_xof().fill(&mut out);
    out
}

pub fn blake3_hash16(data: &[u8]) -> [u8; 16] {
    let mut out = [0u8; 16];
    out.copy_from_slice(&blake3::hash(data).as_bytes()[..16]);
    out
}

pub fn fnv1a32(data: &[u8]) -> u32 {
    let mut h: u32 = 0x811c9dc5;
    for b in data {
        h ^= *b as u32;
        h = h.wrapping_mul(0x0100_0193);
    }
    h
}

pub fn crc32(data: &[u8]) -> u32 {
    crc32fast::hash(data)
}

/// VMess AEAD KDF: a chain of HMACs, each using the previous level as its hash function,
/// bottom level SHA-256 keyed "VMess AEAD KDF".
pub fn vmess_kdf(key: &[u8], path: &[&[u8]]) -> [u8; 32] {
    fn level(keys: &[&[u8]], data: &[u8]) -> [u8; 32] {
        // keys[0] is the innermost HMAC key; keys.last() the outermost.
        match keys.split_last() {
            None => sha256(&[data]),
            Some((k, inner)) => {
                assert!(k.len() <= 64);
                let mut ipad = [0x36u8; 64];
                let mut opad = [0x5cu8; 64];
                for (i, b) in k.iter().enumerate() {
                    ipad[i] ^= b;
                    opad[i] ^= b;
                }
                let mut buf = Vec::with_capacity(64 + data.len());
                buf.extend_from_slice(&ipad);
                buf.extend_from_slice(data);
                let ih = level(inner, &buf);
                let mut buf2 = Vec::with_capacity(96);
                buf2.extend_from_slice(&opad);
                buf2.extend_from_slice(&ih);
                level(inner, &buf2)
            }
        }
    }
    let mut keys: Vec<&[u8]> = Vec::with_capacity(path.len() + 1);
    keys.push(b"VMess AEAD KDF");
    keys.extend_from_slice(path);
    level(&keys, key)
}

pub fn vmess_kdf16(key: &[u8], path: &[&[u8]]) -> [u8; 16] {
    let mut o = [0u8; 16];
    o.copy_from_slice(&vmess_kdf(key, path)[..16]);
    o
}

pub fn vmess_kdf12(key: &[u8], path: &[&[u8]]) -> [u8; 12] {
    let mut o = [0u8; 12];
    o.copy_from_slice(&vmess_kdf(key, path)[..12]);
    o
}

/// cmd key = MD5(uuid bytes || magic)
pub fn vmess_cmd_key(uuid: &[u8; 16]) -> [u8; 16] {
    md5(&[uuid, b"c48619fe-8f02-49e0-b9e9-edf763e17e21"])
}

/// ChaCha20-Poly1305 body key = MD5(k) || MD5(MD5(k))
pub fn vmess_chacha_key(k: &[u8]) -> [u8; 32] {
    let a = md5(&[k]);
    let b = md5(&[&a]);
    let mut o = [0u8; 32];
    o[..16].copy_from_slice(&a);
    o[16..].copy_from_slice(&b);
    o
}

pub struct Shake {
    reader: Box<dyn XofReader + Send + Sync>,
}

impl Shake {
    pub fn new(seed: &[u8]) -> Self {
        let mut h = sha3::Shake128::default();
        h.update(seed);
        Self { reader: Box::new(h.finalize_xof()) }
    }
    pub fn next_u16(&mut self) -> u16 {
        let mut b = [0u8; 2];
        self.reader.read(&mut b);
        u16::from_be_bytes(b)
    }
}

pub fn parse_uuid(s: &str) -> Option<[u8; 16]> {
    let hex: String = s.chars().filter(|c| *c != '-').collect();
    if hex.len() != 32 || s.len() != 36 {
        return None;
    }
    let mut o = [0u8; 16];
    for i in 0..16 {
        o[i] = u8::from_str_radix(&hex[2 * i..2 * i + 2], 16).ok()?;
    }
    Some(o)
}

pub fn b64_decode(s: &str) -> Option<Vec<u8>> {
    // standard alphabet with padding, strict
    const T: &[u8; 64] = b"ABCDEFGHIJKLMNOPQRSTUVWXYZabcdefghijklmnopqrstuvwxyz0123456789+/";
    let bytes = s.as_bytes();
    if bytes.len() % 4 != 0 {
        return None;
    }
    let mut out = Vec::new();
    for (ci, chunk) in bytes.chunks(4).enumerate() {
        let last = ci == bytes.len() / 4 - 1;
        let mut v = [0u8; 4];
        let mut pad = 0;
        for (i, c) in chunk.iter().enumerate() {
            if *c == b'=' {
                if !last || i < 2 {
                    return None;
                }
                pad += 1;
                v[i] = 0;
            } else {
                if pad > 0 {
                    return None;
                }
                v[i] = T.iter().position(|t| t == c)? as u8;
            }
        }
        let n = ((v[0] as u32) << 18) | ((v[1] as u32) << 12) | ((v[2] as u32) << 6) | v[3] as u32;
        out.push((n >> 16) as u8);
        if pad < 2 {
            out.push((n >> 8) as u8);
        }
        if pad < 1 {
            out.push(n as u8);
        }
    }
    Some(out)
}

pub fn b64_encode(data: &[u8]) -> String {
    const T: &[u8; 64] = b"ABCDEFGHIJKLMNOPQRSTUVWXYZabcdefghijklmnopqrstuvwxyz0123456789+/";
    let mut s = String::new();
    for c in data.chunks(3) {
        let n = ((c[0] as u32) << 16) | ((*c.get(1).unwrap_or(&0) as u32) << 8) | *c.get(2).unwrap_or(&0) as u32;
        s.push(T[(n >> 18) as usize & 63] as char);
        s.push(T[(n >> 12) as usize & 63] as char);
        if c.len() > 1 {
            s.push(T[(n >> 6) as usize & 63] as char);
        } else {
            s.push('=');
        }
        if c.len() > 2 {
            s.push(T[n as usize & 63] as char);
        } else {
            s.push('=');
        }
    }
    s
}
