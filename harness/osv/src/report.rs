//! What a harness binary hands to the `check` driver: counts measured by the monitors,
//! de-duplicated violations with witnesses, inconclusive cases.

use serde_json::{json, Value};
use std::collections::{BTreeMap, HashSet};
use std::hash::{Hash, Hasher};

#[derive(Default)]
pub struct Report {
    pub evaluations: u64,
    pub distinct: HashSet<u64>,
    pub samples: Vec<Value>,
    pub monitors: BTreeMap<String, u64>,
    pub violations: BTreeMap<String, Viol>,
    pub inconclusive: BTreeMap<String, u64>,
    pub notes: Vec<String>,
    pub extra: BTreeMap<String, Value>,
}

pub struct Viol {
    pub count: u64,
    pub what: String,
    pub witness: Value,
}

pub fn hash_of<T: Hash>(t: &T) -> u64 {
    let mut h = std::collections::hash_map::DefaultHasher::new();
    t.hash(&mut h);
    h.finish()
}

impl Report {
    pub fn new() -> Self {
        Self::default()
    }
    /// One executed case. `descriptor` identifies it; `nontrivial` = a monitor observed something beyond set-up.
    pub fn case<T: Hash>(&mut self, descriptor: &T, nontrivial: bool) {
        self.evaluations += 1;
        if nontrivial {
            self.distinct.insert(hash_of(descriptor));
        }
    }
    pub fn sample(&mut self, v: Value) {
        if self.samples.len() < 6 {
            self.samples.push(v);
        }
    }
    pub fn mon(&mut self, name: &str, n: u64) {
        *self.monitors.entry(name.to_string()).or_insert(0) += n;
    }
    pub fn violation(&mut self, signature: impl Into<String>, what: impl Into<String>, witness: Value) {
        let e = self.violations.entry(signature.into()).or_insert_with(|| Viol { count: 0, what: what.into(), witness });
        e.count += 1;
    }
    pub fn inconclusive(&mut self, reason: impl Into<String>) {
        *self.inconclusive.entry(reason.into()).or_insert(0) += 1;
    }
    pub fn note(&mut self, s: impl Into<String>) {
        let s = s.into();
        if !self.notes.contains(&s) && self.notes.len() < 50 {
            self.notes.push(s);
        }
    }
    pub fn merge(&mut self, o: Report) {
        self.evaluations += o.evaluations;
        self.distinct.extend(o.distinct);
        for s in o.samples {
            self.sample(s);
        }
        for (k, v) in o.monitors {
            *self.monitors.entry(k).or_insert(0) += v;
        }
        for (k, v) in o.violations {
            match self.violations.get_mut(&k) {
                Some(e) => e.count += v.count,
                None => {
                    self.violations.insert(k, v);
                }
            }
        }
        for (k, v) in o.inconclusive {
            *self.inconclusive.entry(k).or_insert(0) += v;
        }
        for n in o.notes {
            self.note(n);
        }
        for (k, v) in o.extra {
            self.extra.entry(k).or_insert(v);
        }
    }
    pub fn to_json(&self) -> Value {
        json!({
            "evaluations": self.evaluations,
            "distinct_nontrivial": self.distinct.len(),
            "samples": self.samples,
            "monitors": self.monitors,
            "violations": self.violations.iter().map(|(k, v)| json!({"signature": k, "count": v.count, "what": v.what, "witness": v.witness})).collect::<Vec<_>>(),
            "inconclusive": self.inconclusive,
            "notes": self.notes,
            "extra": self.extra,
        })
    }
    pub fn write(&self, path: &str) {
        std::fs::write(path, serde_json::to_vec_pretty(&self.to_json()).unwrap()).expect("write report");
    }
}

pub fn hex(b: &[u8]) -> String {
    let mut s = String::with_capacity(b.len() * 2);
    for x in b {
        s.push_str(&format!("{:02x}", x));
    }
    s
}

pub fn unhex(s: &str) -> Vec<u8> {
    (0..s.len() / 2).map(|i| u8::from_str_radix(&s[2 * i..2 * i + 2], 16).unwrap_or(0)).collect()
}

/// Hex, abbreviated in the middle when long (witness files keep the full value elsewhere).
pub fn hex_short(b: &[u8]) -> String {
    if b.len() <= 96 {
        hex(b)
    } else {
        format!("{}..({} bytes)..{}", hex(&b[..40]), b.len(), hex(&b[b.len() - 24..]))
    }
}

/// Run `n` jobs on `threads` OS threads; each job gets its index and a private Report; all are merged.
pub fn parallel<F>(n: usize, threads: usize, f: F) -> Report
where
    F: Fn(usize, &mut Report) + Sync,
{
    use std::sync::atomic::{AtomicUsize, Ordering};
    let next = AtomicUsize::new(0);
    let mut total = Report::new();
    let reports: Vec<Report> = std::thread::scope(|s| {
        let hs: Vec<_> = (0..threads.max(1))
            .map(|_| {
                s.spawn(|| {
                    let mut r = Report::new();
                    loop {
                        let i = next.fetch_add(1, Ordering::SeqCst);
                        if i >= n {
                            break;
                        }
                        f(i, &mut r);
                    }
                    r
                })
            })
            .collect();
        hs.into_iter().map(|h| h.join().expect("worker thread")).collect()
    });
    for r in reports {
        total.merge(r);
    }
    total
}
