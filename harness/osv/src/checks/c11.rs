//! C11 - each UDP packet id is accepted at most once, in any arrival order.
//! L1: the real `PacketWindowFilter` against an explicit set model, step by step.
//! (The "refusal is simply dropped" clause is decided on the real client codec here and on running nodes by osv-e2e.)

use std::collections::BTreeSet;

use bytes::BytesMut;
use octo_squirrel::manager::packet_window::PacketWindowFilter;
use refimpl::ss;
use serde_json::json;

use super::{pin_clock, Args};
use crate::drive::guarded;
use crate::prng::Rng;
use crate::real::{self, Cfg, Proto};
use crate::report::{parallel, Report};

const WINDOW: u64 = 8128;

#[derive(Default)]
struct Model {
    accepted: BTreeSet<u64>,
    highest: Option<u64>,
}

impl Model {
    fn validate(&mut self, id: u64, limit: u64) -> bool {
        if id >= limit {
            return false;
        }
        if self.accepted.contains(&id) {
            return false;
        }
        if let Some(h) = self.highest {
            if id < h && h - id > WINDOW {
                return false;
            }
        }
        self.accepted.insert(id);
        if self.highest.map_or(true, |h| id > h) {
            self.highest = Some(id);
        }
        // ids that fell out of the window can never be accepted again: forget them to bound memory
        if let Some(h) = self.highest {
            if self.accepted.len() > 40000 {
                let lo = h.saturating_sub(WINDOW);
                self.accepted = self.accepted.split_off(&lo);
            }
        }
        true
    }
}

fn alphabet() -> Vec<u64> {
    let mut v = vec![0, 1, 2, 62, 63, 64, 65, 127, 128, 8127, 8128, 8129, 8190, 8191, 8192, 8193, 8255, 8256, 16383, 16384, 16385, (1 << 32) - 1, 1 << 32, (1 << 32) + 1, 1 << 63];
    for d in [8193u64, 8192, 8191, 8129, 8128, 8127, 65, 64, 63, 2, 1, 0] {
        v.push(u64::MAX - d);
    }
    v
}

fn run_history(h: &[u64], limit: u64) -> Option<(usize, bool, bool)> {
    let mut f = PacketWindowFilter::new();
    let mut m = Model::default();
    for (k, id) in h.iter().enumerate() {
        let got = f.validate_packet_id(*id, limit);
        let want = m.validate(*id, limit);
        if got != want {
            return Some((k, got, want));
        }
    }
    None
}

fn report_div(rep: &mut Report, kind: &str, h: &[u64], limit: u64, k: usize, got: bool, want: bool) {
    let prefix: Vec<String> = h[..=k].iter().map(|x| x.to_string()).collect();
    let sym = if got { "accepts-what-model-refuses" } else { "refuses-what-model-accepts" };
    rep.violation(format!("C11|filter|{}|{}", kind, sym), format!("PacketWindowFilter {} at step {} of a {} history", sym, k, kind), json!({"history_prefix": prefix, "limit": limit.to_string(), "filter": got, "model": want}));
}

pub fn run(a: &Args) -> Report {
    let alpha = alphabet();
    let limits = [u64::MAX, u64::MAX - (1 << 13), 100];
    let mut rep = Report::new();
    // exhaustive: all histories of length <= 3 over the boundary alphabet, every limit
    let n = alpha.len();
    let total3 = n * n * n;
    let r1 = parallel(total3, a.threads, |idx, rep| {
        let h = [alpha[idx / (n * n)], alpha[(idx / n) % n], alpha[idx % n]];
        for limit in limits {
            rep.evaluations += 1;
            rep.mon("filter_decisions_compared", 3);
            if let Some((k, got, want)) = run_history(&h, limit) {
                report_div(rep, "len3-boundary-alphabet", &h, limit, k, got, want);
            }
        }
        rep.distinct.insert(idx as u64);
    });
    rep.merge(r1);
    rep.extra.insert("exhaustive_len3_histories".into(), json!(total3 * limits.len()));
    // exhaustive: length 5 over a 16-value sub-alphabet
    let sub: Vec<u64> = vec![0, 1, 63, 64, 8127, 8128, 8129, 8191, 8192, 8193, 16384, 16385 + 8128, 1 << 32, u64::MAX - 8129, u64::MAX - 1, u64::MAX];
    let s = sub.len();
    let total5 = s.pow(5);
    let r2 = parallel(total5 / s, a.threads, |idx, rep| {
        for last in 0..s {
            let mut h = [0u64; 5];
            let mut x = idx;
            for j in 0..4 {
                h[j] = sub[x % s];
                x /= s;
            }
            h[4] = sub[last];
            rep.evaluations += 1;
            rep.mon("filter_decisions_compared", 5);
            if let Some((k, got, want)) = run_history(&h, u64::MAX) {
                report_div(rep, "len5-sub-alphabet", &h, u64::MAX, k, got, want);
            }
        }
        rep.distinct.insert(0x5000_0000 + idx as u64);
    });
    rep.merge(r2);
    rep.extra.insert("exhaustive_len5_histories".into(), json!(total5));
    // seeded random walks
    let walks = a.n(20000, 200000);
    let seed = a.seed;
    let r3 = parallel(walks, a.threads, |i, rep| {
        let mut rng = Rng::derive(seed, 0xC11, i as u64);
        let steps = 10000;
        let mut h = Vec::with_capacity(steps);
        let mut cur: u64 = match rng.below(4) {
            0 => 0,
            1 => rng.below(1 << 20),
            2 => u64::MAX - rng.below(40000),
            _ => rng.next_u64(),
        };
        let style = rng.below(4);
        for _ in 0..steps {
            let id = match style {
                0 => {
                    cur = cur.wrapping_add(1);
                    cur.wrapping_add(rng.below(18001)).wrapping_sub(9000)
                }
                1 => {
                    if rng.chance(1, 50) {
                        cur = cur.wrapping_add(rng.below(20000));
                    }
                    cur.wrapping_sub(rng.below(8200))
                }
                2 => {
                    cur = cur.wrapping_add(rng.below(130) * 64);
                    cur.wrapping_sub(rng.below(3) * 64).wrapping_add(rng.below(3))
                }
                _ => {
                    if rng.chance(1, 200) {
                        cur = rng.next_u64();
                    }
                    cur.wrapping_add(rng.below(64)).wrapping_sub(rng.below(8300))
                }
            };
            h.push(id);
        }
        let limit = *rng.pick(&limits[..2]);
        rep.evaluations += 1;
        rep.mon("filter_decisions_compared", steps as u64);
        rep.distinct.insert(0x9000_0000 + i as u64);
        if let Some((k, got, want)) = run_history(&h, limit) {
            let lo = k.saturating_sub(12);
            report_div(rep, "random-walk", &h[lo..=k], limit, k - lo, got, want);
            rep.note(format!("random-walk divergence: seed={seed} walk={i} step={k} (witness shows the last 12 ids only; replay by seed/index)"));
        }
        if i < 2 {
            rep.sample(json!({"kind": "random-walk", "seed": seed, "index": i, "style": style, "first_ids": h[..8].iter().map(|x| x.to_string()).collect::<Vec<_>>()}));
        }
    });
    rep.merge(r3);
    rep.sample(json!({"kind": "exhaustive", "alphabet": alpha.iter().map(|x| x.to_string()).collect::<Vec<_>>(), "lengths": "<=3 (all) and 5 (16-value sub-alphabet)", "limits": limits.iter().map(|x| x.to_string()).collect::<Vec<_>>()}));

    // the client codec: a refused reply must simply be dropped; the replies that follow are still delivered
    let n = a.n(1500, 6000);
    let r4 = parallel(n, a.threads.min(1).max(1), |i, rep| client_codec_history(seed, i as u64, rep));
    rep.merge(r4);
    // the same with two and three server sessions answering one client session
    let r5 = parallel(n, a.threads.min(1).max(1), |i, rep| client_codec_history_n(seed, i as u64, 2 + (i % 2), rep));
    rep.merge(r5);
    rep
}

/// Scripted reply ids through the real client `DatagramPacketCodec` (decode + replay filter).
fn client_codec_history(seed: u64, i: u64, rep: &mut Report) {
    client_codec_history_n(seed, i, 1, rep)
}

/// `n_sessions` server sessions answer the same client session (a server that restarted, or that rebuilt an expired
/// association, answers under a new server session id and counts its packet ids from 1 again): each server session is
/// a session of its own, the model keeps one accepted-set per server session id. With more than one session the ids are
/// small and overlapping on purpose (1, 2, 3, ... in every session), and copies of earlier datagrams of EVERY session
/// keep arriving between the fresh ones.
fn client_codec_history_n(seed: u64, i: u64, n_sessions: usize, rep: &mut Report) {
    let mut rng = Rng::derive(seed, 0xC11C + n_sessions as u64 - 1, i);
    let methods = [ss::Method::B3Aes128Gcm, ss::Method::B3Aes256Gcm, ss::Method::B3ChaCha20Poly1305, ss::Method::B3ChaCha8Poly1305];
    let m = methods[(i % 4) as usize];
    let cfg = Cfg::random(&mut rng, Proto::Ss(m), 0);
    let now = 1_700_000_000;
    pin_clock(now);
    let mut client = real::ss_udp_client(&cfg);
    let keys = cfg.ref_client_keys();
    let (csid, _, _) = client.session_ids();
    let ssids: Vec<u64> = (0..n_sessions).map(|_| rng.next_u64()).collect();
    let mut models: Vec<Model> = (0..n_sessions).map(|_| Model::default()).collect();
    let base = if n_sessions > 1 { 1 } else { rng.below(1 << 30) + 9000 };
    // (server session, id)
    let mut ids: Vec<(usize, u64)> = Vec::new();
    let steps = if n_sessions > 1 { 24u64 } else { 12 };
    for k in 0..steps {
        // sessions follow one another (0 first, then 1, ...) with stragglers and copies of earlier ones in between
        let current = ((k * n_sessions as u64) / steps) as usize;
        let sess = if n_sessions > 1 && rng.chance(1, 4) { rng.below(current as u64 + 1) as usize } else { current };
        let kk = k % (steps / n_sessions as u64).max(1);
        match rng.below(5) {
            0 if !ids.is_empty() => ids.push(*rng.pick(&ids)), // duplicate (of any session)
            1 => ids.push((sess, base + kk * 3 - rng.below(3).min(base + kk * 3))),
            2 if n_sessions == 1 => ids.push((sess, base.saturating_sub(8129 + rng.below(100)))), // stale
            _ => ids.push((sess, base + kk * 3 + rng.below(3))),
        }
    }
    let mut dead = false;
    let mut history = Vec::new();
    for (k, (sess, id)) in ids.iter().enumerate() {
        let (ssid, model) = (ssids[*sess], &mut models[*sess]);
        let payload = rng.bytes(20);
        let from = refimpl::addr::Addr::V4(rng.arr(), 53);
        let p = ss::S22UdpPacket { session_id: ssid, packet_id: *id, type_byte: 1, timestamp: now, client_session_id: Some(csid), padding: vec![], addr: from.clone(), payload: payload.clone() };
        let wire = ss::s22_udp_server_encode(m, &keys.psk, &p, &rng.arr());
        let want = model.validate(*id, u64::MAX);
        let mut src = BytesMut::from(&wire[..]);
        let got = guarded(|| client.decode(&mut src));

        rep.mon("client_reply_decisions_compared", 1);
        history.push(json!({"server_session": sess, "id": id.to_string(), "model": want, "codec": match &got { Ok(Some(_)) => "delivered", Ok(None) => "none", Err(_) => "error" }}));
        match (&got, want) {
            (Ok(Some((pl, a))), true) => {
                if *pl != payload || *a != from {
                    rep.violation(format!("C11|client-codec|{}|delivered-wrong-content", m.name()), "reply delivered with wrong content", json!({"seed": seed, "index": i, "history": history}));
                    return;
                }
            }
            (Ok(Some(_)), false) => {
                let fam = if n_sessions > 1 { "client-codec/several-server-sessions" } else { "client-codec" };
                rep.violation(format!("C11|{}|{}|delivers-refused-id", fam, m.name()), "client delivers a reply whose packet id the model refuses (duplicate or stale within its server session)", json!({"seed": seed, "index": i, "server_sessions": n_sessions, "history": history}));
                return;
            }
            (Ok(None), false) => {}
            (Err(_), false) => {
                // a refusal reported as a decode *error* ends the binding's reply task in the real client (template.rs new_binding: `break`)
                dead = true;
            }
            (_, true) => {
                let fam = if n_sessions > 1 { "client-codec/several-server-sessions" } else { "client-codec" };
                rep.violation(format!("C11|{}|{}|fresh-reply-not-delivered", fam, m.name()), "a fresh in-window reply is not delivered", json!({"seed": seed, "index": i, "step": k, "server_sessions": n_sessions, "history": history}));
                return;
            }
        }
    }
    rep.evaluations += 1;
    rep.distinct.insert(0xC000_0000 + i + ((n_sessions as u64) << 24));
    if n_sessions > 1 {
        rep.mon("client_histories_with_several_server_sessions", 1);
    }
    if dead {
        rep.violation(
            format!("C11|client-codec|{}|refusal-is-an-error-that-ends-the-reply-task", m.name()),
            "DatagramPacketCodec::decode turns a refused (duplicate/stale) packet id into Err; new_binding's reply task breaks on the first Err, so every later reply of that binding is lost",
            json!({"seed": seed, "index": i, "history": history}),
        );
    }
}
