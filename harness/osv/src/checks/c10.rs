//! C10 - stale, replayed, mis-typed or unbound handshakes are rejected.
//! The accept/reject decision of the real decoders is compared with the rule, evaluated from the fields the
//! harness put into reference-made messages and the pinned clock (verif clock hook). Replays are presented
//! sequentially (with the hooked clock advanced) and concurrently (barrier).

use std::sync::{Arc, Barrier};

use bytes::BytesMut;
use refimpl::addr::Addr;
use refimpl::ss;
use refimpl::vmess;
use serde_json::json;

use super::{pin_clock, Args};
use crate::drive::{drain_client, drain_client_dgram, drain_server, guarded};
use crate::gen;
use crate::peer::{ClientOpts, RefClient, RefServer, ServerOpts};
use crate::prng::Rng;
use crate::real::{self, to_address, Cfg, Proto};
use crate::report::Report;

const NOW: u64 = 1_700_000_000;

fn deltas() -> Vec<i64> {
    vec![-(1i64 << 31), -3600, -121, -120, -119, -61, -31, -30, -29, -1, 0, 1, 29, 30, 31, 61, 119, 120, 121, 3600, 1i64 << 31]
}

fn ss2022() -> [ss::Method; 4] {
    [ss::Method::B3Aes128Gcm, ss::Method::B3Aes256Gcm, ss::Method::B3ChaCha20Poly1305, ss::Method::B3ChaCha8Poly1305]
}

pub struct Cx<'a> {
    pub rep: &'a mut Report,
    pub seed: u64,
    pub prop: &'static str,
}

impl Cx<'_> {
    fn decide(&mut self, what: &str, proto: &str, descr: serde_json::Value, want_accept: bool, got_accept: bool) {
        self.rep.evaluations += 1;
        self.rep.mon("decisions_compared", 1);
        self.rep.distinct.insert(crate::report::hash_of(&(what, proto, descr.to_string())));
        if want_accept != got_accept {
            let sym = if got_accept { "accepted-but-must-be-rejected" } else { "rejected-but-must-be-accepted" };
            self.rep.violation(format!("{}|{}|{}|{}", self.prop, what, proto, sym), format!("{} ({}): {}", what, proto, sym), json!({"seed": self.seed, "case": descr, "rule_says_accept": want_accept, "decoder_accepted": got_accept}));
        }
    }
}

/// Does a fresh real server codec (sharing `shared`) yield an item for this request?
fn server_accepts(cfg: &Cfg, shared: &real::ServerShared, wire: &[u8]) -> bool {
    let mut s = real::server_codec(cfg, shared).unwrap();
    let mut b = BytesMut::from(wire);
    let d = drain_server(s.as_mut(), &mut b, true);
    !d.items.is_empty()
}

fn tcp_server_grid(cx: &mut Cx, rng: &mut Rng) {
    for m in ss2022() {
        for n_users in [0usize, 2] {
            if n_users > 0 && !m.supports_eih() {
                continue;
            }
            let cfg = Cfg::random(rng, Proto::Ss(m), n_users);
            let target = gen::random_addr(rng);
            pin_clock(NOW);
            // timestamp grid, type 0
            for d in deltas().into_iter().chain([-(NOW as i64), i64::MAX - NOW as i64]) {
                let ts = (NOW as i64).wrapping_add(d) as u64;
                let ts = if d == i64::MAX - NOW as i64 { u64::MAX } else { ts };
                let shared = real::server_shared(&cfg).unwrap();
                let mut c = RefClient::new(&cfg, &target, rng, NOW, ClientOpts { timestamp: Some(ts as i64), ..Default::default() });
                let w = c.write(b"hello", rng);
                let want = NOW.abs_diff(ts) <= 30;
                let got = server_accepts(&cfg, &shared, &w);
                cx.decide("ss2022-tcp-request-timestamp", m.name(), json!({"delta": d, "ts": ts.to_string(), "users": n_users}), want, got);
            }
            // all type bytes, fresh timestamp
            for t in 0..=255u8 {
                let shared = real::server_shared(&cfg).unwrap();
                let mut c = RefClient::new(&cfg, &target, rng, NOW, ClientOpts { type_byte: t, ..Default::default() });
                let w = c.write(b"hello", rng);
                let got = server_accepts(&cfg, &shared, &w);
                cx.decide("ss2022-tcp-request-type", m.name(), json!({"type": t, "users": n_users}), t == 0, got);
            }
            // sequential replay while the timestamp is still acceptable, with the hooked clock advanced
            for (d0, advance) in [(0i64, 0i64), (0, 1), (0, 29), (0, 30), (30, 0), (30, 31), (30, 59), (30, 60), (-30, 0), (-29, 1), (10, 35)] {
                pin_clock(NOW);
                let shared = real::server_shared(&cfg).unwrap();
                let ts = (NOW as i64 + d0) as u64;
                let mut c = RefClient::new(&cfg, &target, rng, NOW, ClientOpts { timestamp: Some(ts as i64), ..Default::default() });
                let w = c.write(b"hello", rng);
                let first = server_accepts(&cfg, &shared, &w);
                cx.decide("ss2022-tcp-first-presentation", m.name(), json!({"delta": d0}), true, first);
                // some other fresh handshakes in between
                for _ in 0..rng.below(4) {
                    let mut o = RefClient::new(&cfg, &target, rng, NOW, ClientOpts::default());
                    let ow = o.write(b"x", rng);
                    server_accepts(&cfg, &shared, &ow);
                }
                let later = (NOW as i64 + advance) as u64;
                pin_clock(later);
                let still_valid = later.abs_diff(ts) <= 30;
                let second = server_accepts(&cfg, &shared, &w);
                // a replay is never acceptable: either the timestamp has expired or the salt is remembered
                cx.decide("ss2022-tcp-replay-sequential", m.name(), json!({"delta": d0, "clock_advanced_by": advance, "timestamp_still_valid": still_valid}), false, second);
            }
            pin_clock(NOW);
            // a handshake whose header was seen but whose payload never completed must still count as seen
            {
                let shared = real::server_shared(&cfg).unwrap();
                let mut c = RefClient::new(&cfg, &target, rng, NOW, ClientOpts::default());
                let w = c.write(b"hello", rng);
                let head = m.key_len() + if n_users > 0 { 16 } else { 0 } + 11 + 16;
                let mut s = real::server_codec(&cfg, &shared).unwrap();
                let mut b = BytesMut::from(&w[..head + 3]);
                let _ = drain_server(s.as_mut(), &mut b, true);
                // the attacker now replays the complete request on another connection while the first is still open
                let second = server_accepts(&cfg, &shared, &w);
                // and the original connection completes
                b.extend_from_slice(&w[head + 3..]);
                let d = drain_server(s.as_mut(), &mut b, true);
                let first = !d.items.is_empty();
                cx.decide("ss2022-tcp-replay-during-incomplete-original", m.name(), json!({"users": n_users, "note": "at most one of the two connections carrying the same salt may be accepted"}), true, !(first && second));
            }
        }
    }
}

/// T threads present the same valid request to T codecs sharing one context, released by a barrier.
pub fn tcp_server_concurrent(cx: &mut Cx, rng: &mut Rng, rounds: usize) {
    let mut winners_hist = std::collections::BTreeMap::new();
    for round in 0..rounds {
        let m = ss2022()[round % 4];
        let cfg = Cfg::random(rng, Proto::Ss(m), 0);
        let target = gen::random_addr(rng);
        let shared = Arc::new(real::server_shared(&cfg).unwrap());
        let mut c = RefClient::new(&cfg, &target, rng, NOW, ClientOpts::default());
        let w = Arc::new(c.write(b"hello", rng));
        let t = [2usize, 4, 8, 16][round % 4];
        let barrier = Arc::new(Barrier::new(t));
        let cfg = Arc::new(cfg);
        let hs: Vec<_> = (0..t)
            .map(|_| {
                let (shared, w, barrier, cfg) = (shared.clone(), w.clone(), barrier.clone(), cfg.clone());
                std::thread::spawn(move || {
                    pin_clock(NOW);
                    let mut s = real::server_codec(&cfg, &shared).unwrap();
                    let mut b = BytesMut::from(&w[..]);
                    barrier.wait();
                    let d = drain_server(s.as_mut(), &mut b, true);
                    !d.items.is_empty()
                })
            })
            .collect();
        let accepts = hs.into_iter().map(|h| h.join().unwrap_or(false)).filter(|x| *x).count();
        *winners_hist.entry(accepts).or_insert(0u64) += 1;
        cx.rep.evaluations += 1;
        cx.rep.mon("concurrent_replay_contests", 1);
        cx.rep.distinct.insert(crate::report::hash_of(&("contest", round)));
        if accepts > 1 {
            cx.rep.violation(format!("{}|ss2022-tcp-replay-concurrent|{}|accepted-more-than-once", cx.prop, m.name()), "copies of one handshake presented concurrently were accepted more than once", json!({"seed": cx.seed, "round": round, "threads": t, "accepted": accepts}));
        }
        if accepts == 0 {
            cx.rep.violation(format!("{}|ss2022-tcp-replay-concurrent|{}|never-accepted", cx.prop, m.name()), "a valid handshake presented concurrently was accepted by nobody", json!({"seed": cx.seed, "round": round, "threads": t}));
        }
    }
    cx.rep.extra.insert("concurrent_contest_accept_histogram".into(), json!(winners_hist));
}

fn tcp_client_grid(cx: &mut Cx, rng: &mut Rng) {
    for m in ss2022() {
        let cfg = Cfg::random(rng, Proto::Ss(m), 0);
        let target = gen::random_addr(rng);
        let taddr = to_address(&target);
        let sh = real::client_shared(&cfg).unwrap();
        // returns whether the real client releases plaintext for a reference response built with `opts`
        let mut trial = |rng: &mut Rng, opts: ServerOpts, other_flow: bool| -> Option<bool> {
            pin_clock(NOW);
            let mut c = real::client_codec(&cfg, &sh, &taddr).ok()?;
            let mut req = BytesMut::new();
            guarded(|| c.encode(b"ping", &mut req)).ok()?;
            let mut s = RefServer::new(&cfg, NOW, opts);
            if other_flow {
                // the response belongs to another flow of the same client (same key, different request salt)
                let mut c2 = real::client_codec(&cfg, &sh, &taddr).ok()?;
                let mut req2 = BytesMut::new();
                guarded(|| c2.encode(b"ping", &mut req2)).ok()?;
                s.read(&req2).ok()?;
            } else {
                s.read(&req).ok()?;
            }
            let resp = s.write(b"pong", rng);
            let mut b = BytesMut::from(&resp[..]);
            let d = drain_client(c.as_mut(), &mut b, true);
            Some(!d.items.is_empty())
        };
        for d in deltas() {
            let ts = (NOW as i64 + d) as u64;
            if let Some(got) = trial(rng, ServerOpts { timestamp: Some(ts), ..Default::default() }, false) {
                cx.decide("ss2022-tcp-response-timestamp", m.name(), json!({"delta": d}), NOW.abs_diff(ts) <= 30, got);
            }
        }
        for t in 0..=255u8 {
            if let Some(got) = trial(rng, ServerOpts { type_byte: t, ..Default::default() }, false) {
                cx.decide("ss2022-tcp-response-type", m.name(), json!({"type": t}), t == 1, got);
            }
        }
        // request-salt binding: own, each bit flipped, another flow's, zero
        if let Some(got) = trial(rng, ServerOpts::default(), false) {
            cx.decide("ss2022-tcp-response-salt", m.name(), json!({"echo": "own"}), true, got);
        }
        if let Some(got) = trial(rng, ServerOpts::default(), true) {
            cx.decide("ss2022-tcp-response-salt", m.name(), json!({"echo": "another flow's request salt (response spliced from another flow)"}), false, got);
        }
        if let Some(got) = trial(rng, ServerOpts { echo_salt: Some(vec![0; m.key_len()]), ..Default::default() }, false) {
            cx.decide("ss2022-tcp-response-salt", m.name(), json!({"echo": "zero"}), false, got);
        }
        for bit in 0..m.key_len() * 8 {
            pin_clock(NOW);
            let mut c = real::client_codec(&cfg, &sh, &taddr).unwrap();
            let mut req = BytesMut::new();
            if guarded(|| c.encode(b"ping", &mut req)).is_err() {
                continue;
            }
            let mut salt = req[..m.key_len()].to_vec();
            salt[bit / 8] ^= 1 << (bit % 8);
            let mut s = RefServer::new(&cfg, NOW, ServerOpts { echo_salt: Some(salt), ..Default::default() });
            if s.read(&req).is_err() {
                continue;
            }
            let resp = s.write(b"pong", rng);
            let mut b = BytesMut::from(&resp[..]);
            let d = drain_client(c.as_mut(), &mut b, true);
            cx.decide("ss2022-tcp-response-salt", m.name(), json!({"echo": "own with one bit flipped", "bit": bit}), false, !d.items.is_empty());
        }
    }
}

fn udp_grid(cx: &mut Cx, rng: &mut Rng) {
    for m in ss2022() {
        for n_users in [0usize, 2] {
            if n_users > 0 && !m.supports_eih() {
                continue;
            }
            let cfg = Cfg::random(rng, Proto::Ss(m), n_users);
            pin_clock(NOW);
            let server = real::ss_udp_server(&cfg).unwrap();
            let mut client = real::ss_udp_client(&cfg);
            let keys = cfg.ref_client_keys();
            let (csid, _, _) = client.session_ids();
            let target = Addr::V4([9, 9, 9, 9], 53);
            let mut pid = 0u64;
            for d in deltas() {
                let ts = (NOW as i64 + d) as u64;
                let p = ss::S22UdpPacket { session_id: rng.next_u64(), packet_id: 1, type_byte: 0, timestamp: ts, client_session_id: None, padding: vec![], addr: target.clone(), payload: b"q".to_vec() };
                let w = ss::s22_udp_client_encode(m, &keys, &p, &rng.arr());
                let mut b = BytesMut::from(&w[..]);
                let got = matches!(guarded(|| server.decode(&mut b)), Ok(Some(_)));
                cx.decide("ss2022-udp-request-timestamp", m.name(), json!({"delta": d, "users": n_users}), NOW.abs_diff(ts) <= 30, got);
                pid += 1;
                let p = ss::S22UdpPacket { session_id: 77, packet_id: pid, type_byte: 1, timestamp: ts, client_session_id: Some(csid), padding: vec![], addr: target.clone(), payload: b"a".to_vec() };
                let w = ss::s22_udp_server_encode(m, &keys.psk, &p, &rng.arr());
                let mut b = BytesMut::from(&w[..]);
                let got = matches!(guarded(|| client.decode(&mut b)), Ok(Some(_)));
                cx.decide("ss2022-udp-response-timestamp", m.name(), json!({"delta": d, "users": n_users}), NOW.abs_diff(ts) <= 30, got);
            }
            for t in 0..=255u8 {
                let p = ss::S22UdpPacket { session_id: rng.next_u64(), packet_id: 1, type_byte: t, timestamp: NOW, client_session_id: None, padding: vec![], addr: target.clone(), payload: b"q".to_vec() };
                let w = ss::s22_udp_client_encode(m, &keys, &p, &rng.arr());
                let mut b = BytesMut::from(&w[..]);
                let got = matches!(guarded(|| server.decode(&mut b)), Ok(Some(_)));
                cx.decide("ss2022-udp-request-type", m.name(), json!({"type": t, "users": n_users}), t == 0, got);
                pid += 1;
                let p = ss::S22UdpPacket { session_id: 77, packet_id: pid, type_byte: t, timestamp: NOW, client_session_id: Some(csid), padding: vec![], addr: target.clone(), payload: b"a".to_vec() };
                let w = ss::s22_udp_server_encode(m, &keys.psk, &p, &rng.arr());
                let mut b = BytesMut::from(&w[..]);
                let got = matches!(guarded(|| client.decode(&mut b)), Ok(Some(_)));
                cx.decide("ss2022-udp-response-type", m.name(), json!({"type": t, "users": n_users}), t == 1, got);
            }
            // a response is bound to the client's own request by the client session id it names: the session's own id is
            // accepted, every single-bit neighbour, another session's id and zero are not (a datagram the server sealed for
            // ANOTHER session of the same key - another binding of this client, another device of the same user - must not
            // come out here, wherever it was re-sent to)
            let mut others: Vec<(String, u64)> = (0..64).map(|b| (format!("bit-{b}-flipped"), csid ^ (1u64 << b))).collect();
            others.push(("another-session".into(), rng.next_u64()));
            others.push(("zero".into(), 0));
            others.push(("own".into(), csid));
            for (label, id) in others {
                pid += 1;
                let p = ss::S22UdpPacket { session_id: 78, packet_id: pid, type_byte: 1, timestamp: NOW, client_session_id: Some(id), padding: vec![], addr: target.clone(), payload: b"a".to_vec() };
                let w = ss::s22_udp_server_encode(m, &keys.psk, &p, &rng.arr());
                let mut b = BytesMut::from(&w[..]);
                let got = matches!(guarded(|| client.decode(&mut b)), Ok(Some(_)));
                cx.decide("ss2022-udp-response-client-session-id", m.name(), json!({"client_session_id": label, "users": n_users}), id == csid, got);
            }
            // the same once more under the server session the client has just accepted a genuine answer from (it now keeps
            // state for that server session): whom a datagram answers is a question for every datagram, not for the first one
            let mut others: Vec<(String, u64)> = (0..64).map(|b| (format!("bit-{b}-flipped"), csid ^ (1u64 << b))).collect();
            others.push(("another-session".into(), rng.next_u64()));
            others.push(("zero".into(), 0));
            others.push(("own".into(), csid));
            for (label, id) in others {
                pid += 1;
                let p = ss::S22UdpPacket { session_id: 78, packet_id: pid, type_byte: 1, timestamp: NOW, client_session_id: Some(id), padding: vec![], addr: target.clone(), payload: b"a".to_vec() };
                let w = ss::s22_udp_server_encode(m, &keys.psk, &p, &rng.arr());
                let mut b = BytesMut::from(&w[..]);
                let got = matches!(guarded(|| client.decode(&mut b)), Ok(Some(_)));
                cx.decide("ss2022-udp-response-client-session-id-under-a-known-server-session", m.name(), json!({"client_session_id": label, "users": n_users}), id == csid, got);
            }
        }
    }
}

fn vmess_grid(cx: &mut Cx, rng: &mut Rng) {
    for sec in [vmess::SEC_AES128_GCM, vmess::SEC_CHACHA20_POLY1305] {
        let proto = Proto::Vmess(sec);
        let cfg = Cfg::random(rng, proto, 2);
        let target = gen::random_addr(rng);
        let shared = real::server_shared(&cfg).unwrap();
        pin_clock(NOW);
        for d in deltas().into_iter().chain([-122, -118, 118, 122, 600, -600]) {
            let t = NOW as i64 + d;
            let mut c = RefClient::new(&cfg, &target, rng, NOW, ClientOpts { timestamp: Some(t), ..Default::default() });
            let w = c.write(b"hello", rng);
            let got = server_accepts(&cfg, &shared, &w);
            cx.decide("vmess-auth-id-timestamp", &proto.name(), json!({"delta": d}), d.abs() <= 120, got);
        }
        // the extremes of the 64-bit timestamp field (where a signed difference or its absolute value overflows)
        for (label, t) in [("i64::MIN", i64::MIN), ("i64::MIN+1", i64::MIN + 1), ("i64::MAX", i64::MAX), ("now-2^63", NOW as i64 + i64::MIN), ("now-2^63+1", NOW as i64 + i64::MIN + 1), ("now-2^63-1 (wraps)", (NOW as i64 + i64::MIN).wrapping_sub(1)), ("-1", -1), ("0", 0)] {
            let mut c = RefClient::new(&cfg, &target, rng, NOW, ClientOpts { timestamp: Some(t), ..Default::default() });
            let w = c.write(b"hello", rng);
            let got = server_accepts(&cfg, &shared, &w);
            cx.decide("vmess-auth-id-timestamp-extreme", &proto.name(), json!({"timestamp": label}), false, got);
        }
        // a request that arrives slowly: the auth id (first 16 bytes) comes in while the token is fresh, the rest of the
        // header only after the hooked clock has moved on. A token is honoured only within 120 s of its timestamp: when
        // the request is finally complete - the moment the server would act on it - a token older than that must not
        // be honoured any more (and one that is still fresh must be, however slowly the bytes came)
        for d0 in [0i64, -100, 100, -119] {
            for adv in [0u64, 10, 100, 121, 130, 300, 3600] {
                for first in [16usize, 17, 34, 41, 60] {
                    let mut c = RefClient::new(&cfg, &target, rng, NOW, ClientOpts { timestamp: Some(NOW as i64 + d0), ..Default::default() });
                    let w = c.write(b"hello", rng);
                    let k = first.min(w.len() - 1);
                    let mut srv = real::server_codec(&cfg, &shared).unwrap();
                    pin_clock(NOW);
                    let mut b = BytesMut::from(&w[..k]);
                    let early = drain_server(srv.as_mut(), &mut b, true);
                    if !early.items.is_empty() {
                        // the header was complete in the first piece (the server acts on the header alone): decided at the first clock
                        cx.decide("vmess-slow-request", &proto.name(), json!({"delta_at_first_byte": d0, "first_piece": k, "decided": "with the first piece"}), d0.abs() <= 120, true);
                        pin_clock(NOW);
                        continue;
                    }
                    let refused_early = early.stop.is_some();
                    pin_clock(NOW + adv);
                    b.extend_from_slice(&w[k..]);
                    let late = drain_server(srv.as_mut(), &mut b, true);
                    let got = !refused_early && !late.items.is_empty();
                    let age = (d0 - adv as i64).abs();
                    // fresh at the first byte (all d0 here are) and fresh at completion: must be accepted; stale at completion: must not
                    cx.decide("vmess-slow-request", &proto.name(), json!({"delta_at_first_byte": d0, "clock_advanced_by": adv, "first_piece": k, "age_at_completion": age}), age <= 120, got);
                    pin_clock(NOW);
                }
            }
        }
        // client: response authentication byte, all 256 values; response keyed from another request
        let taddr = to_address(&target);
        let sh = real::client_shared(&cfg).unwrap();
        for dgram in [false, true] {
            for v in 0..=255u16 {
                let (mut dec, req) = match client_and_request(&cfg, &sh, &taddr, dgram) {
                    Some(x) => x,
                    None => continue,
                };
                let o = match vmess::open_request_header(&cfg.ref_cmd_keys(), NOW as i64, &req) {
                    Ok(o) => o,
                    Err(_) => continue,
                };
                let mut s = RefServer::new(&cfg, NOW, ServerOpts { resp_v: Some(v as u8), ..Default::default() });
                if s.read_units(&req).is_err() {
                    continue;
                }
                let resp = s.write(b"pong", rng);
                let got = dec(&resp);
                cx.decide(if dgram { "vmess-response-auth-byte/udp" } else { "vmess-response-auth-byte/tcp" }, &proto.name(), json!({"sent": v, "expected": o.header.resp_v}), v as u8 == o.header.resp_v, got);
            }
            // response made for another request (other body key/iv) of the same user
            for _ in 0..8 {
                let (mut dec, _req) = match client_and_request(&cfg, &sh, &taddr, dgram) {
                    Some(x) => x,
                    None => continue,
                };
                let (_dec2, req2) = match client_and_request(&cfg, &sh, &taddr, dgram) {
                    Some(x) => x,
                    None => continue,
                };
                let mut s = RefServer::new(&cfg, NOW, ServerOpts::default());
                if s.read_units(&req2).is_err() {
                    continue;
                }
                let resp = s.write(b"pong", rng);
                let got = dec(&resp);
                cx.decide(if dgram { "vmess-response-binding/udp" } else { "vmess-response-binding/tcp" }, &proto.name(), json!({"response": "keyed from another request of the same user"}), false, got);
            }
        }
    }
}

#[allow(clippy::type_complexity)]
fn client_and_request(cfg: &Cfg, sh: &real::ClientShared, taddr: &octo_squirrel::protocol::address::Address, dgram: bool) -> Option<(Box<dyn FnMut(&[u8]) -> bool>, Vec<u8>)> {
    pin_clock(NOW);
    if dgram {
        let mut c = real::client_dgram_codec(cfg, taddr).ok()?;
        let mut req = BytesMut::new();
        let t = taddr.clone();
        guarded(|| c.encode(b"ping", &t, &mut req)).ok()?;
        Some((
            Box::new(move |resp: &[u8]| {
                let mut b = BytesMut::from(resp);
                !drain_client_dgram(c.as_mut(), &mut b, true).items.is_empty()
            }),
            req.to_vec(),
        ))
    } else {
        let mut c = real::client_codec(cfg, sh, taddr).ok()?;
        let mut req = BytesMut::new();
        guarded(|| c.encode(b"ping", &mut req)).ok()?;
        Some((
            Box::new(move |resp: &[u8]| {
                let mut b = BytesMut::from(resp);
                !drain_client(c.as_mut(), &mut b, true).items.is_empty()
            }),
            req.to_vec(),
        ))
    }
}

/// A handshake presented again after N OTHER valid handshakes have been accepted in between (all inside the window in which
/// its timestamp is acceptable: the clock is pinned). Whatever the server remembers accepted salts in, it must not have
/// forgotten this one - for traffic volumes far below the documented limit of the cache (102400 salts; that limit itself
/// is the known finding of the thorough tier). Deployments with and without a user table: the server builds its replay
/// state at start-up from its configuration.
fn interposed_handshakes(cx: &mut Cx, rng: &mut Rng, counts: &[usize]) {
    for (k, m) in [ss::Method::B3Aes128Gcm, ss::Method::B3Aes256Gcm, ss::Method::B3ChaCha20Poly1305].into_iter().enumerate() {
        for users in [0usize, 2] {
            if users > 0 && !m.supports_eih() {
                continue;
            }
            let n = counts[(k + users) % counts.len()];
            let cfg = Cfg::random(rng, Proto::Ss(m), users);
            let target = gen::random_addr(rng);
            pin_clock(NOW);
            let Ok(shared) = real::server_shared(&cfg) else { continue };
            let mut c = RefClient::new(&cfg, &target, rng, NOW, ClientOpts::default());
            let w = c.write(b"hello", rng);
            let first = server_accepts(&cfg, &shared, &w);
            let mut others = 0usize;
            for _ in 0..n {
                let mut o = RefClient::new(&cfg, &target, rng, NOW, ClientOpts::default());
                let ow = o.write(b"x", rng);
                if server_accepts(&cfg, &shared, &ow) {
                    others += 1;
                }
            }
            let again = server_accepts(&cfg, &shared, &w);
            cx.rep.mon("handshakes_interposed_before_a_replay", others as u64);
            if !first || others != n {
                cx.rep.inconclusive("interposed handshakes: the original or one of the handshakes in between was not accepted");
                continue;
            }
            cx.decide("ss2022-tcp-replay-after-other-handshakes", &format!("{}|users={}", m.name(), users), json!({"handshakes_in_between": n, "documented_capacity_of_the_cache": 102400, "note": "the timestamp is still acceptable (clock pinned)"}), false, again);
        }
    }
}

/// Real-time cases (thorough): the salt cache must remember a salt for as long as its timestamp stays acceptable.
fn realtime_cases(cx: &mut Cx, rng: &mut Rng) {
    let m = ss::Method::B3Aes128Gcm;
    let cfg = Cfg::random(rng, Proto::Ss(m), 0);
    let target = gen::random_addr(rng);
    // (a) ts = now+30, accepted; 31 s of real time later the clock says now+31: ts is 1 s in the past and still acceptable
    pin_clock(NOW);
    let shared = real::server_shared(&cfg).unwrap();
    let mut c = RefClient::new(&cfg, &target, rng, NOW, ClientOpts { timestamp: Some(NOW as i64 + 30), ..Default::default() });
    let w = c.write(b"hello", rng);
    let first = server_accepts(&cfg, &shared, &w);
    cx.decide("ss2022-tcp-first-presentation", m.name(), json!({"delta": 30, "realtime": true}), true, first);
    // (c) timestamps count whole seconds: accepted at second N with ts = N+30, the handshake is still acceptable during
    //     the whole of second N+60, i.e. for up to 61 s of real time - the cache must not forget it after 60.0 s
    let shared_c = real::server_shared(&cfg).unwrap();
    let mut cc = RefClient::new(&cfg, &target, rng, NOW, ClientOpts { timestamp: Some(NOW as i64 + 30), ..Default::default() });
    let wc = cc.write(b"hello", rng);
    let first_c = server_accepts(&cfg, &shared_c, &wc);
    let t_c = std::time::Instant::now();
    // (b) capacity: accept h, then 102401 further valid handshakes, then h again
    let shared_b = real::server_shared(&cfg).unwrap();
    let mut cb = RefClient::new(&cfg, &target, rng, NOW, ClientOpts::default());
    let wb = cb.write(b"hello", rng);
    let first_b = server_accepts(&cfg, &shared_b, &wb);
    for _ in 0..102_401 {
        let mut o = RefClient::new(&cfg, &target, rng, NOW, ClientOpts::default());
        let ow = o.write(b"x", rng);
        server_accepts(&cfg, &shared_b, &ow);
    }
    let second_b = server_accepts(&cfg, &shared_b, &wb);
    cx.decide("ss2022-tcp-replay-after-cache-capacity", m.name(), json!({"first_accepted": first_b, "handshakes_in_between": 102401, "note": "the timestamp is still acceptable (clock pinned)"}), false, second_b);
    std::thread::sleep(std::time::Duration::from_secs(31));
    pin_clock(NOW + 31);
    let second = server_accepts(&cfg, &shared, &w);
    cx.decide("ss2022-tcp-replay-after-31s-real-time", m.name(), json!({"delta": 30, "clock_advanced_by": 31, "real_seconds_slept": 31, "timestamp_still_valid": true}), false, second);
    let target_elapsed = std::time::Duration::from_millis(60_300);
    if t_c.elapsed() < target_elapsed {
        std::thread::sleep(target_elapsed - t_c.elapsed());
    }
    pin_clock(NOW + 60);
    let second_c = server_accepts(&cfg, &shared_c, &wc);
    let slept = t_c.elapsed();
    if first_c && slept < std::time::Duration::from_millis(60_950) {
        cx.decide("ss2022-tcp-replay-in-the-61st-second", m.name(), json!({"delta": 30, "clock_advanced_by": 60, "real_seconds_elapsed": slept.as_secs_f64(), "timestamp_still_valid": true}), false, second_c);
    } else {
        cx.rep.inconclusive("the 61st-second replay could not be timed (machine too loaded)");
    }
    pin_clock(NOW);
}

pub fn run(a: &Args) -> Report {
    let mut rep = Report::new();
    let mut rng = Rng::derive(a.seed, 0xC10, 0);
    {
        let mut cx = Cx { rep: &mut rep, seed: a.seed, prop: "C10" };
        tcp_server_grid(&mut cx, &mut rng);
        tcp_client_grid(&mut cx, &mut rng);
        udp_grid(&mut cx, &mut rng);
        vmess_grid(&mut cx, &mut rng);
        tcp_server_concurrent(&mut cx, &mut rng, a.n(200, 3000));
        if a.scale >= 1.0 {
            interposed_handshakes(&mut cx, &mut rng, if a.thorough { &[1100, 2100, 5000, 20000, 60000] } else { &[1100, 2100, 5000, 20000] });
        }
        if a.thorough && a.scale >= 1.0 {
            realtime_cases(&mut cx, &mut rng);
        }
    }
    rep.sample(json!({"grid_deltas_seconds": deltas(), "type_bytes": "0..=255", "request_salt_echo": ["own", "each bit flipped", "another flow's", "zero"], "vmess_response_auth_byte": "0..=255", "replay": ["sequential with hooked clock advanced by 0/1/29/30/31/59/60", "concurrent on 2/4/8/16 threads (barrier)", "during an incomplete original", "thorough: 31 s real time, 102401 handshakes (cache capacity)"]}));
    rep.extra.insert("exhaustive_detail".into(), json!("the boundary grid (timestamps x type bytes x salt echoes x auth bytes) is enumerated completely for every SIP022 cipher, TCP and UDP, both directions, and both VMess securities"));
    rep
}
