//! C04 - decoding is independent of segmentation and never stalls.
//! Real decoders inside the real `FramedRead` (and `WebSocketFramed`), fed exactly the chosen pieces by an
//! in-memory transport that then stays Pending; a paused tokio clock turns "nothing was woken" into a fact.

use std::time::Duration;

use futures::{SinkExt, StreamExt};
use serde_json::json;
use tokio_util::codec::FramedRead;

use super::Args;
use crate::gen;
use crate::memio::Segments;
use crate::panicmon::{self, normalise};
use crate::prng::Rng;
use crate::real::{all_protos, Cfg, Proto};
use crate::report::{parallel, Report};
use crate::scn::{Got, Inst, Role, Source, Spec};

pub fn new_rt() -> tokio::runtime::Runtime {
    tokio::runtime::Builder::new_current_thread().enable_time().start_paused(true).build().expect("runtime")
}

pub enum Outcome {
    Done(Got),
    Error(Got, String),
    Panic(panicmon::PanicInfo),
}

/// Deliver `pieces` through the real FramedRead and collect everything it yields until it goes Pending.
pub fn through_framed_read(rt: &tokio::runtime::Runtime, inst: Inst, pieces: Vec<Vec<u8>>, eof: bool) -> (Outcome, Inst0) {
    let Inst { dec, wire, frame_ends, plain_ends, exempt, expected_addr, expected_stream, expected_dgrams, request_wire } = inst;
    let keep = Inst0 { wire, frame_ends, plain_ends, exempt, expected_addr, expected_stream, expected_dgrams, request_wire };
    let r = panicmon::catch(|| {
        rt.block_on(async move {
            let mut fr = FramedRead::new(Segments::new(pieces, eof), dec);
            let mut got = Got::default();
            loop {
                match tokio::time::timeout(Duration::from_secs(1), fr.next()).await {
                    Err(_) => return Outcome::Done(got),
                    Ok(None) => return Outcome::Done(got),
                    Ok(Some(Ok(evs))) => got.push(evs),
                    Ok(Some(Err(e))) => return Outcome::Error(got, format!("{e:#}")),
                }
            }
        })
    });
    match r {
        Ok(o) => (o, keep),
        Err(p) => (Outcome::Panic(p), keep),
    }
}

/// Deliver `pieces` as WebSocket binary messages from a real tokio-websockets client into `WebSocketFramed`.
pub fn through_websocket(rt: &tokio::runtime::Runtime, inst: Inst, pieces: Vec<Vec<u8>>) -> (Outcome, Inst0) {
    let Inst { dec, wire, frame_ends, plain_ends, exempt, expected_addr, expected_stream, expected_dgrams, request_wire } = inst;
    let keep = Inst0 { wire, frame_ends, plain_ends, exempt, expected_addr, expected_stream, expected_dgrams, request_wire };
    let r = panicmon::catch(|| {
        rt.block_on(async move {
            let (a, b) = tokio::io::duplex(1 << 22);
            let client = tokio::spawn(async move {
                let uri: http::Uri = "ws://localhost/ws".parse().unwrap();
                let (mut ws, _) = tokio_websockets::ClientBuilder::from_uri(uri).connect_on(a).await.map_err(|e| e.to_string())?;
                for p in pieces {
                    ws.send(tokio_websockets::Message::binary(bytes::Bytes::from(p))).await.map_err(|e| e.to_string())?;
                }
                // keep the connection open without sending anything further
                tokio::time::sleep(Duration::from_secs(3600)).await;
                drop(ws);
                Ok::<(), String>(())
            });
            let (_req, ws) = match tokio_websockets::ServerBuilder::new().accept(b).await {
                Ok(x) => x,
                Err(e) => return Outcome::Error(Got::default(), format!("harness websocket accept failed: {e}")),
            };
            let mut fr: octo_squirrel::codec::WebSocketFramed<_, _, Vec<u8>, Vec<crate::real::Ev>> = octo_squirrel::codec::WebSocketFramed::new(ws, dec);
            let mut got = Got::default();
            let out = loop {
                match tokio::time::timeout(Duration::from_secs(1), fr.next()).await {
                    Err(_) => break Outcome::Done(got),
                    Ok(None) => break Outcome::Done(got),
                    Ok(Some(Ok(evs))) => got.push(evs),
                    Ok(Some(Err(e))) => break Outcome::Error(got, format!("{e:#}")),
                }
            };
            client.abort();
            out
        })
    });
    match r {
        Ok(o) => (o, keep),
        Err(p) => (Outcome::Panic(p), keep),
    }
}

/// `Inst` without the decoder (which was consumed by the run).
pub struct Inst0 {
    pub wire: Vec<u8>,
    pub frame_ends: Vec<usize>,
    pub plain_ends: Vec<usize>,
    pub exempt: usize,
    pub expected_addr: Option<refimpl::addr::Addr>,
    pub expected_stream: Vec<u8>,
    pub expected_dgrams: Vec<Vec<u8>>,
    pub request_wire: Vec<u8>,
}

impl Inst0 {
    pub fn as_inst_for_compare(&self) -> Inst {
        Inst {
            dec: crate::real::AnyDec(Box::new(|_| Ok(None))),
            wire: vec![],
            frame_ends: vec![],
            plain_ends: vec![],
            exempt: self.exempt,
            expected_addr: self.expected_addr.clone(),
            expected_stream: self.expected_stream.clone(),
            expected_dgrams: self.expected_dgrams.clone(),
            request_wire: vec![],
        }
    }
}

pub fn make_spec(rng: &mut Rng, i: u64, small: bool) -> Spec {
    let protos = all_protos();
    let proto = protos[(i % protos.len() as u64) as usize];
    let n_users = *rng.pick(&[0usize, 0, 2]);
    let cfg = Cfg::random(rng, proto, n_users);
    let dgram_capable = !matches!(proto, Proto::Ss(_));
    let role = match (i / protos.len() as u64) % 6 {
        0 | 1 => Role::ServerStream,
        2 | 3 => Role::ClientStream,
        4 => {
            if dgram_capable {
                Role::ServerDgram
            } else {
                Role::ServerStream
            }
        }
        _ => {
            if dgram_capable {
                Role::ClientDgram
            } else {
                Role::ClientStream
            }
        }
    };
    let source = if (i / (6 * protos.len() as u64)) % 2 == 0 { Source::Ref } else { Source::Real };
    let nw = rng.range(1, if small { 3 } else { 6 });
    let dgram = matches!(role, Role::ServerDgram | Role::ClientDgram);
    let writes: Vec<Vec<u8>> = (0..nw)
        .map(|_| {
            let n = if small {
                *rng.pick(&[1usize, 2, 5, 17, 40])
            } else if dgram {
                *rng.pick(&[1usize, 2, 100, 1200, 1472, 1800])
            } else {
                *rng.pick(&[1usize, 2, 17, 100, 1000, 2031, 2048, 4096, 8192])
            };
            rng.bytes(n)
        })
        .collect();
    // ascii LDH names keep the wire short for the exhaustive cut families
    let target = match rng.below(3) {
        0 => refimpl::addr::Addr::V4(rng.arr(), 80),
        1 => refimpl::addr::Addr::V6(rng.arr(), 443),
        _ => {
            let l = *rng.pick(&[1usize, 11, 60]);
            refimpl::addr::Addr::Domain(gen::ldh_name(rng, l), 8080)
        }
    };
    let rf = *rng.pick(&[1usize, 30, 500]);
    Spec {
        cfg,
        role,
        source,
        target,
        writes,
        request_first: rng.bytes(rf),
        vmess_option: *rng.pick(&refimpl::vmess::VALID_OPTION_MASKS),
        max_chunk: *rng.pick(&[0x3FFFusize, 1000, 50]),
        now: 1_650_000_000 + rng.below(100_000_000),
    }
}

fn cut_pieces(wire: &[u8], cuts: &[usize]) -> Vec<Vec<u8>> {
    gen::pieces(wire.len(), cuts).into_iter().map(|(s, e)| wire[s..e].to_vec()).collect()
}

struct CaseCx<'a> {
    rep: &'a mut Report,
    spec: &'a Spec,
    seed: u64,
    index: u64,
}

impl CaseCx<'_> {
    fn judge(&mut self, transport: &str, family: &str, cuts: &[usize], outcome: Outcome, inst: &Inst0) {
        let role = self.spec.role;
        let base = format!("C04|{}|{:?}|{}|wire-from-{:?}", transport, role, self.spec.cfg.proto.name(), self.spec.source);
        let witness = |extra: serde_json::Value| json!({"seed": self.seed, "index": self.index, "spec": self.spec.describe(), "family": family, "cuts": cuts, "wire_len": inst.wire.len(), "frame_ends": inst.frame_ends, "exempt_prefix": inst.exempt, "detail": extra});
        let (got, sym): (Option<Got>, Option<String>) = match outcome {
            Outcome::Panic(p) => (None, Some(p.signature())),
            Outcome::Error(g, e) => (Some(g), Some(format!("error:{}", normalise(&e)))),
            Outcome::Done(g) => {
                let s = g.compare(&inst.as_inst_for_compare(), role);
                (Some(g), s)
            }
        };
        let nontrivial = got.as_ref().map_or(false, |g| !g.stream.is_empty() || !g.dgrams.is_empty() || !g.addrs.is_empty());
        self.rep.case(&(self.index, transport, family, cuts), nontrivial);
        self.rep.mon("segmentations_delivered", 1);
        if let Some(g) = &got {
            self.rep.mon("plaintext_bytes_compared", (g.stream.len() + g.dgrams.iter().map(|d| d.len()).sum::<usize>()) as u64);
        }
        if let Some(sym) = sym {
            let w = witness(json!({"delivered_stream_bytes": got.as_ref().map(|g| g.stream.len()), "delivered_datagrams": got.as_ref().map(|g| g.dgrams.len()), "expected_stream_bytes": inst.expected_stream.len(), "expected_datagrams": inst.expected_dgrams.len()}));
            self.rep.violation(format!("{}|{}", base, sym), format!("{} decoder of {} ({}) under segmentation family {}: {}", format!("{:?}", role), self.spec.cfg.proto.name(), transport, family, sym), w);
        }
    }
}

fn one_case(seed: u64, i: u64, thorough: bool, rep: &mut Report, rt: &mut tokio::runtime::Runtime) {
    let mut rng = Rng::derive(seed, 0xC04, i);
    let small = i % 3 != 2;
    let spec = make_spec(&mut rng, i, small);
    if i < 4 {
        rep.sample(json!({"seed": seed, "index": i, "spec": spec.describe(), "families": ["whole", "single-cut (all)", "double-cut (all, short streams)", "bytewise", "frame-boundary+-1", "random multi-cut", "coalesced", "websocket messages"]}));
    }
    let mut cx = CaseCx { rep, spec: &spec, seed, index: i };
    // a probe instantiation gives the wire length and boundaries (lengths vary by a few random padding bytes)
    let probe = match spec.instantiate(&mut rng) {
        Ok(p) => p,
        Err(e) => {
            cx.rep.inconclusive(format!("scenario could not be set up: {}", normalise(&e)));
            return;
        }
    };
    let len = probe.wire.len();
    let exempt = probe.exempt;
    let probe_ends = probe.frame_ends.clone();
    drop(probe);
    let run = |cx: &mut CaseCx, rng: &mut Rng, rt: &mut tokio::runtime::Runtime, family: &str, cutf: &dyn Fn(&Inst) -> Option<Vec<usize>>, ws: bool| {
        let inst = match spec.instantiate(rng) {
            Ok(p) => p,
            Err(_) => return,
        };
        let cuts = match cutf(&inst) {
            Some(c) => c,
            None => return,
        };
        // the SIP022 exemption: the first read must contain salt + fixed header
        if inst.exempt > 0 && cuts.first().map_or(false, |c| *c < inst.exempt) {
            return;
        }
        let pieces = cut_pieces(&inst.wire, &cuts);
        let (o, inst0) = if ws { through_websocket(rt, inst, pieces) } else { through_framed_read(rt, inst, pieces, false) };
        if matches!(o, Outcome::Panic(_)) {
            *rt = new_rt();
        }
        cx.judge(if ws { "websocket" } else { "framed-read" }, family, &cuts, o, &inst0);
    };
    run(&mut cx, &mut rng, rt, "whole", &|_| Some(vec![]), false);
    // all single cuts
    if len <= 700 {
        for c in 1..len + 20 {
            run(&mut cx, &mut rng, rt, "single-cut", &|inst| if c < inst.wire.len() { Some(vec![c]) } else { None }, false);
        }
    } else {
        for _ in 0..60 {
            let c = rng.range(1, len - 1);
            run(&mut cx, &mut rng, rt, "single-cut-sampled", &|inst| if c < inst.wire.len() { Some(vec![c]) } else { None }, false);
        }
    }
    // all pairs of cuts for short streams
    if len <= if thorough { 160 } else { 110 } {
        for c1 in 1..len {
            for c2 in c1 + 1..len {
                run(&mut cx, &mut rng, rt, "double-cut", &|inst| if c2 < inst.wire.len() { Some(vec![c1, c2]) } else { None }, false);
            }
        }
    }
    // byte by byte after the exempt prefix
    if len <= 3000 {
        run(&mut cx, &mut rng, rt, "bytewise", &|inst| Some((inst.exempt.max(1)..inst.wire.len()).collect()), false);
    }
    // frame boundaries +-1
    for k in 0..probe_ends.len() {
        for d in [-1i64, 0, 1] {
            run(&mut cx, &mut rng, rt, "frame-boundary", &|inst| inst.frame_ends.get(k).map(|e| (*e as i64 + d).max(1) as usize).filter(|c| *c < inst.wire.len()).map(|c| vec![c]), false);
        }
    }
    // all frame boundaries at once (one read per sender write), and coalesced whole
    run(&mut cx, &mut rng, rt, "one-read-per-write", &|inst| Some(inst.frame_ends.iter().copied().filter(|c| *c < inst.wire.len()).collect()), false);
    let n_rand = if thorough { 40 } else { 12 };
    for _ in 0..n_rand {
        let k = rng.range(1, 12);
        let r = rng.next_u64();
        run(&mut cx, &mut rng, rt, "random-multi-cut", &|inst| Some(gen::random_cuts(&mut Rng::new(r), inst.wire.len(), k)), false);
    }
    // WebSocket: message boundaries
    run(&mut cx, &mut rng, rt, "whole", &|_| Some(vec![]), true);
    run(&mut cx, &mut rng, rt, "one-message-per-write", &|inst| Some(inst.frame_ends.iter().copied().filter(|c| *c < inst.wire.len()).collect()), true);
    for _ in 0..if thorough { 24 } else { 8 } {
        let k = rng.range(1, 6);
        let r = rng.next_u64();
        run(&mut cx, &mut rng, rt, "random-multi-cut", &|inst| Some(gen::random_cuts(&mut Rng::new(r), inst.wire.len(), k)), true);
    }
    for _ in 0..if thorough { 12 } else { 4 } {
        let r = rng.next_u64();
        run(&mut cx, &mut rng, rt, "single-cut-sampled", &|inst| if inst.wire.len() > 2 { Some(vec![Rng::new(r).range(1, inst.wire.len() - 1)]) } else { None }, true);
    }
}

pub fn run(a: &Args) -> Report {
    let n = a.n(1500, 6000);
    let seed = a.seed;
    let thorough = a.thorough;
    let only: Option<u64> = a.sub.as_ref().and_then(|s| s.strip_prefix("only=").and_then(|x| x.parse().ok()));
    parallel(n, a.threads, |i, rep| {
        if let Some(o) = only {
            if o != i as u64 {
                return;
            }
        }
        thread_local! { static RT: std::cell::RefCell<Option<tokio::runtime::Runtime>> = const { std::cell::RefCell::new(None) }; }
        RT.with(|cell| {
            let mut g = cell.borrow_mut();
            if g.is_none() {
                *g = Some(new_rt());
            }
            one_case(seed, i as u64, thorough, rep, g.as_mut().unwrap());
        });
    })
}
