//! C03 - wire format interoperates with the published specifications (differential against refimpl).

use bytes::BytesMut;
use refimpl::addr::Addr;
use refimpl::ss;
use serde_json::json;

use super::{pin_clock, Args};
use crate::drive::{drain_client, drain_client_dgram, drain_server, guarded, Fail};
use crate::gen;
use crate::panicmon::normalise;
use crate::peer::{ClientOpts, RefClient, RefServer, ServerOpts};
use crate::prng::Rng;
use crate::real::{self, all_protos, to_address, Cfg, Proto, SrvItem};
use crate::report::{hex_short, parallel, Report};

pub fn run(a: &Args) -> Report {
    let st = refimpl::selftest::run();
    if !st.is_empty() {
        let mut r = Report::new();
        r.inconclusive(format!("refimpl self-test failed: {}", st.join("; ")));
        return r;
    }
    let n = a.n(12000, 60000);
    let seed = a.seed;
    let mut rep = parallel(n, a.threads, |i, rep| one_case(seed, i as u64, rep));
    // streams long enough to take every counter through its carries (VMess: the 16-bit chunk counter wraps to 0
    // after 65536 chunks, as v2ray-core does; Shadowsocks: the nonce carries into its third byte)
    let longs: Vec<Proto> = vec![Proto::Vmess(3), Proto::Vmess(4), Proto::Ss(refimpl::ss::Method::Aes128Gcm), Proto::Ss(refimpl::ss::Method::B3ChaCha20Poly1305)];
    let lr = parallel(longs.len(), a.threads, |i, rep| long_stream(seed, longs[i], rep));
    rep.merge(lr);
    let cr = parallel(a.n(400, 4000), a.threads, |i, rep| relay_chain_case(seed, i as u64, rep));
    rep.merge(cr);
    // sender obligations that depend on a random draw of the sender: thousands of draws per cipher
    let pr = parallel(32, a.threads, |i, rep| payloadless_requests(seed, i as u64, a.n(600, 6000), rep));
    rep.merge(pr);
    rep.extra.insert("trusted_base".into(), json!(["RustCrypto primitive crates (aes, aes-gcm, chacha20poly1305, blake3, md-5, sha1, sha2, sha3, hkdf, crc32fast)", "refimpl written from SIP004/SIP022/VMess/Trojan specifications; self-tested against embedded vectors"]));
    rep
}

/// Shadowsocks 2022 requests WITHOUT initial payload, as the client's relay always sends them (its first item names the
/// target and is empty): SIP022 obliges the sender to pad such a request and the receiver to reject one that has neither
/// payload nor padding. The padding length is a random draw of the sender, so one request proves nothing: `n` requests per
/// shard, each through a fresh real client codec, each read by the strict reference server.
fn payloadless_requests(seed: u64, shard: u64, n: usize, rep: &mut Report) {
    let mut rng = Rng::derive(seed, 0xC03D, shard);
    let methods: Vec<_> = refimpl::ss::ALL_METHODS.iter().filter(|m| m.is_2022()).collect();
    let m = **rng.pick(&methods);
    let users = if m.supports_eih() { *rng.pick(&[0usize, 1]) } else { 0 };
    let cfg = Cfg::random(&mut rng, Proto::Ss(m), users);
    let now = 1_700_000_000 + rng.below(1000);
    pin_clock(now);
    let Ok(shared) = real::client_shared(&cfg) else { return };
    let mut smallest = usize::MAX;
    let mut largest = 0usize;
    for k in 0..n {
        let target = gen::random_addr(&mut rng);
        let Ok(mut client) = real::client_codec(&cfg, &shared, &to_address(&target)) else { return };
        let mut dst = BytesMut::new();
        if guarded(|| client.encode(b"", &mut dst)).is_err() {
            continue; // judged by the differential cases
        }
        let mut server = RefServer::new(&cfg, now, ServerOpts::default());
        rep.mon("payloadless_requests_read_by_the_reference", 1);
        match server.read(&dst) {
            Ok(_) => {
                smallest = smallest.min(dst.len());
                largest = largest.max(dst.len());
            }
            Err(e) => {
                let sig = format!("C03|real-client->ref-server|{}|payloadless-request:ref-rejects:{}", cfg.proto.name(), normalise(&e.to_string()));
                rep.violation(sig, format!("{}: a request without initial payload is refused by the reference server: {e}", cfg.proto.name()), json!({"seed": seed, "shard": shard, "draw": k, "cfg": cfg.describe(), "wire": hex_short(&dst), "wire_len": dst.len()}));
            }
        }
    }
    rep.case(&(seed, "payloadless", shard), true);
    if smallest != usize::MAX {
        rep.extra.insert(format!("payloadless_request_sizes:{}:{}", cfg.proto.name(), shard), json!([smallest, largest]));
    }
}

fn fail_sym(f: &Fail) -> String {
    match f {
        Fail::Panic(p) => p.signature(),
        Fail::Err(e) => format!("rejects:{}", normalise(e)),
    }
}

struct Ctx<'a> {
    rep: &'a mut Report,
    cfg: &'a Cfg,
    case: serde_json::Value,
    nontrivial: bool,
}

impl Ctx<'_> {
    fn viol(&mut self, dir: &str, sym: &str, detail: serde_json::Value) {
        let sig = format!("C03|{}|{}|{}", dir, self.cfg.proto.name(), sym);
        let what = format!("{} {}: {}", self.cfg.proto.name(), dir, sym);
        self.rep.violation(sig, what, json!({"case": self.case, "detail": detail}));
    }
}

fn one_case(seed: u64, i: u64, rep: &mut Report) {
    let mut rng = Rng::derive(seed, 0xC03, i);
    let protos = all_protos();
    let proto = protos[(i % protos.len() as u64) as usize];
    let n_users = *rng.pick(&[0usize, 0, 1, 3]);
    let cfg = Cfg::random(&mut rng, proto, n_users);
    let target = gen::random_addr(&mut rng);
    let now = 1_600_000_000 + rng.below(400_000_000);
    pin_clock(now);
    let c2s: Vec<Vec<u8>> = gen::write_script(&mut rng, 10, 8192).into_iter().map(|n| rng.bytes(n)).collect();
    let s2c: Vec<Vec<u8>> = gen::write_script(&mut rng, 10, 8192).into_iter().map(|n| rng.bytes(n)).collect();
    let vopt = *rng.pick(&refimpl::vmess::VALID_OPTION_MASKS);
    let max_chunk = *rng.pick(&[0x3FFFusize, 0x3FFF, 4096, 1, 100, 2000]);
    let case = json!({"seed": seed, "index": i, "cfg": cfg.describe(), "target": target.describe(), "now": now, "c2s_sizes": c2s.iter().map(|w| w.len()).collect::<Vec<_>>(), "s2c_sizes": s2c.iter().map(|w| w.len()).collect::<Vec<_>>(), "ref_vmess_option": vopt, "ref_max_chunk": max_chunk});
    if i < 3 {
        rep.sample(case.clone());
    }
    let mut cx = Ctx { rep, cfg: &cfg, case, nontrivial: false };
    stream_real_client_ref_server(&mut cx, &mut rng, &target, now, &c2s, &s2c, max_chunk);
    stream_ref_client_real_server(&mut cx, &mut rng, &target, now, &c2s, &s2c, vopt, max_chunk);
    match proto {
        Proto::Ss(_) => ss_udp(&mut cx, &mut rng, now),
        _ => dgram_in_stream(&mut cx, &mut rng, &target, now, vopt),
    }
    let nt = cx.nontrivial;
    let desc = (seed, i);
    rep.case(&desc, nt);
}

/// real client encoder -> strict reference server; reference server -> real client decoder
fn stream_real_client_ref_server(cx: &mut Ctx, rng: &mut Rng, target: &Addr, now: u64, c2s: &[Vec<u8>], s2c: &[Vec<u8>], max_chunk: usize) {
    let cfg = cx.cfg;
    let shared = match real::client_shared(cfg) {
        Ok(s) => s,
        Err(e) => return cx.viol("real-client", &format!("context:{}", normalise(&e.to_string())), json!({})),
    };
    let mut client = match real::client_codec(cfg, &shared, &to_address(target)) {
        Ok(c) => c,
        Err(e) => return cx.viol("real-client", &format!("codec:{}", normalise(&e.to_string())), json!({})),
    };
    let mut server = RefServer::new(cfg, now, ServerOpts { max_chunk, ..Default::default() });
    let mut got = Vec::new();
    let mut want = Vec::new();
    for w in c2s {
        let mut dst = BytesMut::new();
        if let Err(f) = guarded(|| client.encode(w, &mut dst)) {
            return cx.viol("real-client->ref-server", &format!("encode:{}", fail_sym(&f)), json!({"write_len": w.len()}));
        }
        want.extend_from_slice(w);
        cx.rep.mon("wire_bytes_real_to_ref", dst.len() as u64);
        match server.read(&dst) {
            Ok(p) => got.extend_from_slice(&p),
            Err(e) => return cx.viol("real-client->ref-server", &format!("ref-rejects:{}", normalise(&e.to_string())), json!({"wire": hex_short(&dst)})),
        }
    }
    cx.nontrivial = true;
    if server.addr.as_ref() != Some(target) {
        return cx.viol("real-client->ref-server", "addr-mismatch", json!({"got": server.addr.as_ref().map(|a| a.describe())}));
    }
    if got != want {
        return cx.viol("real-client->ref-server", "payload-mismatch", json!({"got_len": got.len(), "want_len": want.len()}));
    }
    cx.rep.mon("streams_real_client_to_ref_server_ok", 1);
    cx.rep.mon("payload_bytes_compared", want.len() as u64);
    // response direction
    let mut buf = BytesMut::new();
    let mut got = Vec::new();
    let mut want = Vec::new();
    for w in s2c {
        if w.is_empty() {
            continue;
        }
        let wire = server.write(w, rng);
        want.extend_from_slice(w);
        buf.extend_from_slice(&wire);
        let d = drain_client(client.as_mut(), &mut buf, true);
        for it in d.items {
            got.extend_from_slice(&it);
        }
        if let Some(f) = d.stop {
            return cx.viol("ref-server->real-client", &fail_sym(&f), json!({"wire": hex_short(&wire), "decoded_so_far": got.len()}));
        }
    }
    if got != want {
        return cx.viol("ref-server->real-client", "payload-mismatch", json!({"got_len": got.len(), "want_len": want.len()}));
    }
    cx.rep.mon("streams_ref_server_to_real_client_ok", 1);
    cx.rep.mon("payload_bytes_compared", want.len() as u64);
}

/// reference client -> real server decoder; real server encoder -> strict reference client
fn stream_ref_client_real_server(cx: &mut Ctx, rng: &mut Rng, target: &Addr, now: u64, c2s: &[Vec<u8>], s2c: &[Vec<u8>], vopt: u8, max_chunk: usize) {
    let cfg = cx.cfg;
    let shared = match real::server_shared(cfg) {
        Ok(s) => s,
        Err(e) => return cx.viol("real-server", &format!("context:{}", normalise(&e.to_string())), json!({})),
    };
    let mut server = match real::server_codec(cfg, &shared) {
        Ok(c) => c,
        Err(e) => return cx.viol("real-server", &format!("codec:{}", normalise(&e.to_string())), json!({})),
    };
    let initial_payload = rng.chance(3, 4);
    let mut client = RefClient::new(cfg, target, rng, now, ClientOpts { vmess_option: vopt, max_chunk, initial_payload, ..Default::default() });
    let mut buf = BytesMut::new();
    let mut got = Vec::new();
    let mut want = Vec::new();
    let mut addr: Option<Addr> = None;
    let mut first_kind_ok = true;
    let mut n_items = 0;
    // a peer may put a message on the wire in several writes: half of the cases deliver every message in pieces
    // (for Shadowsocks 2022 never inside salt + identity headers + fixed header, which the protocol itself wants in one read)
    let in_pieces = rng.chance(1, 2);
    let exempt = match cfg.proto {
        Proto::Ss(m) if m.is_2022() => m.key_len() + if cfg.client_user.is_some() { 16 } else { 0 } + 11 + 16,
        _ => 0,
    };
    for (wi, w) in c2s.iter().enumerate() {
        let wire = client.write(w, rng);
        want.extend_from_slice(w);
        let mut cuts: Vec<usize> = Vec::new();
        if in_pieces && wire.len() > 1 {
            let lo = if wi == 0 { exempt.min(wire.len()) } else { 1 };
            for _ in 0..rng.range(1, 3) {
                if lo < wire.len() {
                    cuts.push(rng.range(lo.max(1), wire.len() - 1));
                }
            }
            if wi == 0 && exempt > 0 && exempt < wire.len() && rng.chance(1, 2) {
                cuts.push(exempt); // exactly behind the fixed header
            }
            cuts.sort();
            cuts.dedup();
        }
        cuts.push(wire.len());
        let mut start = 0;
        for c in cuts {
            buf.extend_from_slice(&wire[start..c]);
            start = c;
            let d = drain_server(server.as_mut(), &mut buf, true);
            for it in d.items {
                match &it {
                    SrvItem::Connect(_, a) => {
                        if n_items != 0 {
                            first_kind_ok = false;
                        }
                        addr = Some(a.clone());
                    }
                    SrvItem::Tcp(_) => {
                        if n_items == 0 {
                            first_kind_ok = false;
                        }
                    }
                    SrvItem::Udp(..) => first_kind_ok = false,
                }
                n_items += 1;
                got.extend_from_slice(it.data());
            }
            if let Some(f) = d.stop {
                return cx.viol(if in_pieces { "ref-client->real-server/in-pieces" } else { "ref-client->real-server" }, &fail_sym(&f), json!({"wire": hex_short(&wire), "decoded_so_far": got.len(), "delivered_up_to": c}));
            }
        }
        if in_pieces {
            cx.rep.mon("messages_delivered_in_pieces", 1);
        }
    }
    cx.nontrivial = true;
    let total: usize = want.len();
    if n_items == 0 && total > 0 {
        return cx.viol("ref-client->real-server", "no-item-yielded", json!({"request_payload_len": total, "left_in_buffer": buf.len()}));
    }
    if !first_kind_ok {
        return cx.viol("ref-client->real-server", "first-item-not-connect", json!({"items": n_items}));
    }
    if n_items > 0 && addr.as_ref() != Some(target) {
        return cx.viol("ref-client->real-server", "addr-mismatch", json!({"got": addr.as_ref().map(|a| a.describe())}));
    }
    if got != want {
        return cx.viol("ref-client->real-server", "payload-mismatch", json!({"got_len": got.len(), "want_len": want.len()}));
    }
    cx.rep.mon("streams_ref_client_to_real_server_ok", 1);
    cx.rep.mon("payload_bytes_compared", want.len() as u64);
    if n_items == 0 {
        return; // nothing was decoded (all writes empty): the server codec has no session to answer on
    }
    let mut got = Vec::new();
    let mut want = Vec::new();
    for w in s2c {
        if w.is_empty() {
            continue;
        }
        let mut dst = BytesMut::new();
        if let Err(f) = guarded(|| server.encode_tcp(w, &mut dst)) {
            return cx.viol("real-server->ref-client", &format!("encode:{}", fail_sym(&f)), json!({"write_len": w.len()}));
        }
        want.extend_from_slice(w);
        match client.read(&dst) {
            Ok(p) => got.extend_from_slice(&p),
            Err(e) => return cx.viol("real-server->ref-client", &format!("ref-rejects:{}", normalise(&e.to_string())), json!({"wire": hex_short(&dst)})),
        }
    }
    if got != want {
        return cx.viol("real-server->ref-client", "payload-mismatch", json!({"got_len": got.len(), "want_len": want.len()}));
    }
    cx.rep.mon("streams_real_server_to_ref_client_ok", 1);
    cx.rep.mon("payload_bytes_compared", want.len() as u64);
}

const DGRAM_SIZES: [usize; 12] = [0, 1, 2, 64, 512, 1200, 1400, 1472, 1900, 2047, 4000, 16000];

fn ss_udp(cx: &mut Ctx, rng: &mut Rng, now: u64) {
    let cfg = cx.cfg;
    let m = cfg.method().unwrap();
    let mut client = real::ss_udp_client(cfg);
    let server = match real::ss_udp_server(cfg) {
        Ok(s) => s,
        Err(e) => return cx.viol("real-udp-server", &format!("context:{}", normalise(&e.to_string())), json!({})),
    };
    let keys = cfg.ref_client_keys();
    let psk = cfg.ref_server_psk();
    let users = cfg.ref_users();
    let mut last_pid = None;
    for k in 0..6 {
        let target = gen::random_addr(rng);
        let n = *rng.pick(&DGRAM_SIZES);
        let payload = rng.bytes(n);
        // real client -> reference server
        let mut dst = BytesMut::new();
        if let Err(f) = guarded(|| client.encode(&payload, &to_address(&target), &mut dst)) {
            return cx.viol("real-client->ref-server/udp", &format!("encode:{}", fail_sym(&f)), json!({"len": n}));
        }
        cx.nontrivial = true;
        if m.is_2022() {
            match ss::s22_udp_server_decode(m, &psk, &users, &dst) {
                Ok((p, user)) => {
                    let mut bad = Vec::new();
                    if p.addr != target {
                        bad.push("addr-mismatch");
                    }
                    if p.payload != payload {
                        bad.push("payload-mismatch");
                    }
                    if p.type_byte != 0 {
                        bad.push("type-byte");
                    }
                    if !ss::time_ok(now, p.timestamp) {
                        bad.push("timestamp");
                    }
                    if user != cfg.client_user {
                        bad.push("wrong-user");
                    }
                    if p.padding.len() > ss::MAX_PADDING {
                        bad.push("padding>900");
                    }
                    if let Some(l) = last_pid {
                        if p.packet_id <= l {
                            bad.push("packet-id-not-increasing");
                        }
                    }
                    last_pid = Some(p.packet_id);
                    if !bad.is_empty() {
                        return cx.viol("real-client->ref-server/udp", &bad.join("+"), json!({"k": k, "len": n, "wire": hex_short(&dst)}));
                    }
                }
                Err(e) => return cx.viol("real-client->ref-server/udp", &format!("ref-rejects:{}", normalise(&e.to_string())), json!({"k": k, "len": n, "wire": hex_short(&dst)})),
            }
        } else {
            match ss::sip004_udp_decode(m, &psk, &dst) {
                Ok((a, p)) => {
                    if a != target || p != payload {
                        return cx.viol("real-client->ref-server/udp", "addr-or-payload-mismatch", json!({"k": k, "len": n}));
                    }
                }
                Err(e) => return cx.viol("real-client->ref-server/udp", &format!("ref-rejects:{}", normalise(&e.to_string())), json!({"k": k, "len": n})),
            }
        }
        cx.rep.mon("datagrams_real_client_to_ref_server_ok", 1);
        // reference client -> real server
        let sid = rng.next_u64();
        let pid = rng.below(1 << 40);
        let wire = if m.is_2022() {
            let pad = if n == 0 { rng.range(1, 900) } else { *rng.pick(&[0usize, 0, 7, 900]) };
            let p = ss::S22UdpPacket { session_id: sid, packet_id: pid, type_byte: 0, timestamp: now, client_session_id: None, padding: rng.bytes(pad), addr: target.clone(), payload: payload.clone() };
            ss::s22_udp_client_encode(m, &keys, &p, &rng.arr())
        } else {
            ss::sip004_udp_encode(m, &keys.psk, &rng.bytes(m.key_len()), &target, &payload)
        };
        let mut src = BytesMut::from(&wire[..]);
        match guarded(|| server.decode(&mut src)) {
            Ok(Some(d)) => {
                let mut bad = Vec::new();
                if d.addr != target {
                    bad.push("addr-mismatch");
                }
                if d.payload != payload {
                    bad.push("payload-mismatch");
                }
                if m.is_2022() && (d.client_session_id != sid || d.packet_id != pid) {
                    bad.push("session-or-packet-id");
                }
                let want_user = cfg.client_user.map(|i| cfg.users[i].0.clone());
                if d.user != want_user {
                    bad.push("wrong-user");
                }
                if !bad.is_empty() {
                    return cx.viol("ref-client->real-server/udp", &bad.join("+"), json!({"k": k, "len": n, "wire": hex_short(&wire)}));
                }
            }
            Ok(None) => return cx.viol("ref-client->real-server/udp", "no-item", json!({"k": k, "len": n})),
            Err(f) => return cx.viol("ref-client->real-server/udp", &fail_sym(&f), json!({"k": k, "len": n, "wire": hex_short(&wire)})),
        }
        cx.rep.mon("datagrams_ref_client_to_real_server_ok", 1);
        // real server -> reference client ; reference server -> real client
        let from = gen::random_addr(rng);
        let from = if let Addr::Domain(..) = from { Addr::V4(rng.arr(), 53) } else { from };
        let rn = *rng.pick(&DGRAM_SIZES);
        let reply = rng.bytes(rn);
        let ssid = rng.next_u64();
        let (csid, _, _) = client.session_ids();
        let user_name = cfg.client_user.map(|i| cfg.users[i].0.clone());
        let mut dst = BytesMut::new();
        if let Err(f) = guarded(|| server.encode(&reply, &to_address(&from), sid, ssid, k + 1, user_name.as_deref(), &mut dst)) {
            return cx.viol("real-server->ref-client/udp", &format!("encode:{}", fail_sym(&f)), json!({"len": rn}));
        }
        if m.is_2022() {
            match ss::s22_udp_client_decode(m, &keys.psk, &dst) {
                Ok(p) => {
                    let mut bad = Vec::new();
                    if p.addr != from {
                        bad.push("addr-mismatch");
                    }
                    if p.payload != reply {
                        bad.push("payload-mismatch");
                    }
                    if p.type_byte != 1 {
                        bad.push("type-byte");
                    }
                    if p.client_session_id != Some(sid) || p.session_id != ssid || p.packet_id != k + 1 {
                        bad.push("ids");
                    }
                    if !ss::time_ok(now, p.timestamp) {
                        bad.push("timestamp");
                    }
                    if p.padding.len() > ss::MAX_PADDING {
                        bad.push("padding>900");
                    }
                    if !bad.is_empty() {
                        return cx.viol("real-server->ref-client/udp", &bad.join("+"), json!({"k": k, "len": rn}));
                    }
                }
                Err(e) => return cx.viol("real-server->ref-client/udp", &format!("ref-rejects:{}", normalise(&e.to_string())), json!({"k": k, "len": rn, "wire": hex_short(&dst)})),
            }
        } else {
            match ss::sip004_udp_decode(m, &psk, &dst) {
                Ok((a, p)) => {
                    if a != from || p != reply {
                        return cx.viol("real-server->ref-client/udp", "addr-or-payload-mismatch", json!({"k": k, "len": rn}));
                    }
                }
                Err(e) => return cx.viol("real-server->ref-client/udp", &format!("ref-rejects:{}", normalise(&e.to_string())), json!({"k": k, "len": rn})),
            }
        }
        cx.rep.mon("datagrams_real_server_to_ref_client_ok", 1);
        let wire = if m.is_2022() {
            let pad = if rn == 0 { rng.range(1, 900) } else { 0 };
            let p = ss::S22UdpPacket { session_id: ssid, packet_id: 1000 + k, type_byte: 1, timestamp: now, client_session_id: Some(csid), padding: rng.bytes(pad), addr: from.clone(), payload: reply.clone() };
            ss::s22_udp_server_encode(m, &keys.psk, &p, &rng.arr())
        } else {
            ss::sip004_udp_encode(m, &psk, &rng.bytes(m.key_len()), &from, &reply)
        };
        let mut src = BytesMut::from(&wire[..]);
        match guarded(|| client.decode(&mut src)) {
            Ok(Some((p, a))) => {
                if a != from || p != reply {
                    return cx.viol("ref-server->real-client/udp", "addr-or-payload-mismatch", json!({"k": k, "len": rn}));
                }
            }
            Ok(None) => return cx.viol("ref-server->real-client/udp", "no-item", json!({"k": k, "len": rn})),
            Err(f) => return cx.viol("ref-server->real-client/udp", &fail_sym(&f), json!({"k": k, "len": rn, "wire": hex_short(&wire)})),
        }
        cx.rep.mon("datagrams_ref_server_to_real_client_ok", 1);
    }
}

/// VMess command UDP and Trojan UDP-associate carried in the stream.
fn dgram_in_stream(cx: &mut Ctx, rng: &mut Rng, target: &Addr, now: u64, vopt: u8) {
    let cfg = cx.cfg;
    let sizes: Vec<usize> = (0..5).map(|_| *rng.pick(&DGRAM_SIZES)).collect();
    // real client -> ref server, ref server -> real client
    let mut client = match real::client_dgram_codec(cfg, &to_address(target)) {
        Ok(c) => c,
        Err(e) => return cx.viol("real-client/dgram", &format!("codec:{}", normalise(&e.to_string())), json!({})),
    };
    let mut server = RefServer::new(cfg, now, ServerOpts::default());
    for (k, n) in sizes.iter().enumerate() {
        let payload = rng.bytes(*n);
        let mut dst = BytesMut::new();
        if let Err(f) = guarded(|| client.encode(&payload, &to_address(target), &mut dst)) {
            return cx.viol("real-client->ref-server/dgram", &format!("encode:{}", fail_sym(&f)), json!({"len": n}));
        }
        cx.nontrivial = true;
        match server.read_units(&dst) {
            Ok(units) => {
                if units.len() != 1 || units[0] != payload {
                    let sym = if units.len() == 1 && units[0].len() < payload.len() && payload.starts_with(&units[0]) { "datagram-truncated".to_string() } else { format!("datagram-mismatch:units={}", units.len()) };
                    return cx.viol("real-client->ref-server/dgram", &sym, json!({"k": k, "len": n, "got_lens": units.iter().map(|u| u.len()).collect::<Vec<_>>()}));
                }
            }
            Err(e) => return cx.viol("real-client->ref-server/dgram", &format!("ref-rejects:{}", normalise(&e.to_string())), json!({"k": k, "len": n})),
        }
        if server.addr.as_ref() != Some(target) || !server.dgram {
            return cx.viol("real-client->ref-server/dgram", "addr-or-command-mismatch", json!({"k": k}));
        }
        cx.rep.mon("dgram_real_client_to_ref_server_ok", 1);
        let rn = *rng.pick(&DGRAM_SIZES);
        let reply = rng.bytes(rn);
        let wire = server.write(&reply, rng);
        let mut buf = BytesMut::from(&wire[..]);
        let d = drain_client_dgram(client.as_mut(), &mut buf, false);
        if let Some(f) = d.stop {
            return cx.viol("ref-server->real-client/dgram", &fail_sym(&f), json!({"k": k, "len": rn}));
        }
        if d.items.len() != 1 || d.items[0].0 != reply {
            return cx.viol("ref-server->real-client/dgram", &format!("datagram-mismatch:items={}", d.items.len()), json!({"k": k, "len": rn, "got_lens": d.items.iter().map(|u| u.0.len()).collect::<Vec<_>>()}));
        }
        cx.rep.mon("dgram_ref_server_to_real_client_ok", 1);
    }
    // ref client -> real server, real server -> ref client
    let shared = match real::server_shared(cfg) {
        Ok(s) => s,
        Err(_) => return,
    };
    let mut server = match real::server_codec(cfg, &shared) {
        Ok(c) => c,
        Err(_) => return,
    };
    let mut client = RefClient::new(cfg, target, rng, now, ClientOpts { vmess_option: vopt, dgram: true, ..Default::default() });
    for (k, n) in sizes.iter().enumerate() {
        let payload = rng.bytes(*n);
        let wire = client.write(&payload, rng);
        let mut buf = BytesMut::from(&wire[..]);
        let d = drain_server(server.as_mut(), &mut buf, false);
        if let Some(f) = d.stop {
            return cx.viol("ref-client->real-server/dgram", &fail_sym(&f), json!({"k": k, "len": n}));
        }
        let ok = d.items.len() == 1 && matches!(&d.items[0], SrvItem::Udp(p, a) if *p == payload && a == target);
        if !ok {
            return cx.viol("ref-client->real-server/dgram", &format!("datagram-mismatch:items={}", d.items.len()), json!({"k": k, "len": n, "items": d.items.iter().map(|i| format!("{:?}", i).chars().take(60).collect::<String>()).collect::<Vec<_>>()}));
        }
        cx.rep.mon("dgram_ref_client_to_real_server_ok", 1);
        let rn = *rng.pick(&DGRAM_SIZES);
        let reply = rng.bytes(rn);
        let from: std::net::SocketAddr = std::net::SocketAddr::from((rng.arr::<4>(), 4000 + k as u16));
        let mut dst = BytesMut::new();
        if let Err(f) = guarded(|| server.encode_udp(&reply, from, &mut dst)) {
            return cx.viol("real-server->ref-client/dgram", &format!("encode:{}", fail_sym(&f)), json!({"len": rn}));
        }
        match client.read_units(&dst) {
            Ok(units) => {
                if units.len() != 1 || units[0] != reply {
                    let sym = if units.len() == 1 && units[0].len() < reply.len() && reply.starts_with(&units[0]) { "datagram-truncated".to_string() } else { format!("datagram-mismatch:units={}", units.len()) };
                    return cx.viol("real-server->ref-client/dgram", &sym, json!({"k": k, "len": rn, "got_lens": units.iter().map(|u| u.len()).collect::<Vec<_>>()}));
                }
            }
            Err(e) => return cx.viol("real-server->ref-client/dgram", &format!("ref-rejects:{}", normalise(&e.to_string())), json!({"k": k, "len": rn})),
        }
        cx.rep.mon("dgram_real_server_to_ref_client_ok", 1);
    }
}


/// SIP023 identity-header chains: the client's password names one or two relays in front of the server
/// (iPSK_0 : [iPSK_1 :] server key : user key). What the REAL client encoder emits is walked hop by hop the way the
/// relays would: each hop opens the first identity header under ITS OWN identity subkey and must find the hash of the
/// next key; what the last relay forwards must be accepted by the reference server and by the real server decoder as an
/// ordinary single-identity-header request of that user. Streams and datagrams.
fn relay_chain_case(seed: u64, i: u64, rep: &mut Report) {
    let mut rng = Rng::derive(seed, 0xC03C, i);
    let m = [ss::Method::B3Aes128Gcm, ss::Method::B3Aes256Gcm][(i % 2) as usize];
    let mut cfg = Cfg::random(&mut rng, Proto::Ss(m), 2);
    let hops = 1 + (i / 2 % 2) as usize;
    cfg.chain = (0..hops).map(|_| rng.bytes(m.key_len())).collect();
    let mut last = cfg.clone();
    last.chain.clear();
    let target = gen::random_addr(&mut rng);
    let now = 1_600_000_000 + rng.below(400_000_000);
    pin_clock(now);
    let case = json!({"seed": seed, "index": i, "relay_chain": hops, "cfg": cfg.describe(), "target": target.describe()});
    if i < 2 {
        rep.sample(case.clone());
    }
    let mut cx = Ctx { rep, cfg: &cfg, case, nontrivial: false };
    let hash_of = |k: &[u8]| refimpl::crypto::blake3_hash16(k);
    let next_key = |h: usize| if h + 1 < cfg.chain.len() { cfg.chain[h + 1].clone() } else { cfg.server_psk.clone() };
    // stream
    'stream: {
        let shared = match real::client_shared(&cfg) {
            Ok(s) => s,
            Err(e) => {
                cx.viol("real-client/relay-chain", &format!("context:{}", normalise(&e.to_string())), json!({}));
                break 'stream;
            }
        };
        let mut client = match real::client_codec(&cfg, &shared, &to_address(&target)) {
            Ok(c) => c,
            Err(e) => {
                cx.viol("real-client/relay-chain", &format!("codec:{}", normalise(&e.to_string())), json!({}));
                break 'stream;
            }
        };
        let n = *rng.pick(&[1usize, 100, 3000]);
        let payload = rng.bytes(n);
        let mut wire = BytesMut::new();
        if let Err(f) = guarded(|| client.encode(&payload, &mut wire)) {
            cx.viol("real-client/relay-chain", &format!("encode:{}", fail_sym(&f)), json!({}));
            break 'stream;
        }
        let mut w = wire.to_vec();
        for h in 0..cfg.chain.len() {
            match ss::s22_relay_hop_tcp(m, &cfg.chain[h], &w) {
                Ok((found, fwd)) => {
                    cx.rep.mon("identity_headers_opened_hop_by_hop", 1);
                    if found != hash_of(&next_key(h)) {
                        cx.viol("real-client->relays/stream", &format!("identity-header-{h}-does-not-open-under-the-key-of-hop-{h}"), json!({"hop": h, "hops": cfg.chain.len(), "wire": hex_short(&w)}));
                        break 'stream;
                    }
                    w = fwd;
                }
                Err(e) => {
                    cx.viol("real-client->relays/stream", &format!("relay-rejects:{}", normalise(&e.to_string())), json!({"hop": h}));
                    break 'stream;
                }
            }
        }
        cx.nontrivial = true;
        let mut server = RefServer::new(&last, now, ServerOpts::default());
        match server.read(&w) {
            Ok(p) if p == payload && server.addr.as_ref() == Some(&target) && server.user == last.client_user => cx.rep.mon("relay_chain_streams_accepted_by_the_reference_server", 1),
            Ok(_) => cx.viol("real-client->relays->ref-server", "addr-payload-or-user-mismatch", json!({"user": server.user})),
            Err(e) => cx.viol("real-client->relays->ref-server", &format!("ref-rejects:{}", normalise(&e.to_string())), json!({"wire": hex_short(&w)})),
        }
        if let Ok(sh) = real::server_shared(&last) {
            if let Ok(mut srv) = real::server_codec(&last, &sh) {
                let mut buf = BytesMut::from(&w[..]);
                let d = drain_server(srv.as_mut(), &mut buf, true);
                let got: Vec<u8> = d.items.iter().flat_map(|it| it.data().to_vec()).collect();
                if d.stop.is_some() || got != payload {
                    cx.viol("real-client->relays->real-server", "not-accepted-after-the-relays", json!({"items": d.items.len(), "stop": d.stop.as_ref().map(fail_sym)}));
                } else {
                    cx.rep.mon("relay_chain_streams_accepted_by_the_real_server", 1);
                }
            }
        }
    }
    // datagrams
    'udp: {
        let mut client = real::ss_udp_client(&cfg);
        for k in 0..3 {
            let n = *rng.pick(&[0usize, 64, 1200]);
            let payload = rng.bytes(n);
            let mut dst = BytesMut::new();
            if let Err(f) = guarded(|| client.encode(&payload, &to_address(&target), &mut dst)) {
                cx.viol("real-client/relay-chain/udp", &format!("encode:{}", fail_sym(&f)), json!({}));
                break 'udp;
            }
            let mut w = dst.to_vec();
            for h in 0..cfg.chain.len() {
                match ss::s22_relay_hop_udp(m, &cfg.chain[h], &next_key(h), &w) {
                    Ok((found, fwd)) => {
                        cx.rep.mon("identity_headers_opened_hop_by_hop", 1);
                        if found != hash_of(&next_key(h)) {
                            cx.viol("real-client->relays/udp", &format!("identity-header-{h}-does-not-open-under-the-key-of-hop-{h}"), json!({"hop": h, "hops": cfg.chain.len(), "k": k}));
                            break 'udp;
                        }
                        w = fwd;
                    }
                    Err(e) => {
                        cx.viol("real-client->relays/udp", &format!("relay-rejects:{}", normalise(&e.to_string())), json!({"hop": h}));
                        break 'udp;
                    }
                }
            }
            cx.nontrivial = true;
            match ss::s22_udp_server_decode(m, &last.server_psk, &last.ref_users(), &w) {
                Ok((p, user)) if p.payload == payload && p.addr == target && user == last.client_user => cx.rep.mon("relay_chain_datagrams_accepted_by_the_reference_server", 1),
                Ok(_) => cx.viol("real-client->relays->ref-server/udp", "addr-payload-or-user-mismatch", json!({"k": k})),
                Err(e) => cx.viol("real-client->relays->ref-server/udp", &format!("ref-rejects:{}", normalise(&e.to_string())), json!({"k": k})),
            }
        }
    }
    let nt = cx.nontrivial;
    rep.case(&("relay-chain", seed, i), nt);
}

/// 66000 one-byte writes in each direction against the reference: counters must carry/wrap exactly as specified.
fn long_stream(seed: u64, proto: Proto, rep: &mut Report) {
    let mut rng = Rng::derive(seed, 0xC03A, 0);
    let cfg = Cfg::random(&mut rng, proto, 0);
    let target = Addr::V4([10, 0, 0, 1], 80);
    let now = 1_700_000_000;
    pin_clock(now);
    let n = 66_000usize;
    let c2s: Vec<Vec<u8>> = (0..n).map(|i| vec![(i % 251) as u8]).collect();
    let case = json!({"seed": seed, "long_stream": proto.name(), "writes": n});
    let mut cx = Ctx { rep, cfg: &cfg, case, nontrivial: false };
    stream_real_client_ref_server(&mut cx, &mut rng, &target, now, &c2s, &c2s, 1);
    stream_ref_client_real_server(&mut cx, &mut rng, &target, now, &c2s, &c2s, 0x1D, 1);
    let nt = cx.nontrivial;
    rep.case(&("long", proto.name()), nt);
    rep.mon("long_streams", 1);
}
