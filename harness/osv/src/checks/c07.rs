//! C07 - no input from the network can crash a task or the process.
//! Every network-facing decoder, in every state, is fed exhaustive short inputs, random inputs and
//! well-authenticated-but-malformed frames (made with refimpl and correctly encrypted), whole, byte by
//! byte and in random cuts, then end-of-stream. Monitors: panic hook (+ in-repo frame), UTF-8 validity of
//! every yielded host name; the same workload runs under ASan and Miri for the memory classes.

use bytes::BytesMut;
use octo_squirrel::protocol::socks5::codec as s5;
use refimpl::addr::Addr;
use refimpl::ss;
use refimpl::vmess;
use serde_json::json;
use tokio_util::codec::Decoder;

use super::{pin_clock, Args};
pub use crate::hostile::{address_variants, boundary_u16s, server_malformed_wires, ss_udp_hostile_datagrams, with_tail_variants};
use crate::gen;
use crate::panicmon;
use crate::prng::Rng;
use crate::real::{self, all_protos, from_address, to_address, AnyDec, Cfg, Ev, Proto};
use crate::report::{hex_short, parallel, Report};
use crate::scn::{Role, Source, Spec};

/// Feed `input` in `pieces` to `dec` the way FramedRead would (decode until None after each read, then decode_eof).
/// Returns the panic, if any, and checks yielded names.
fn feed(dec: &mut dyn FnMut(&mut BytesMut) -> anyhow::Result<Option<Vec<Ev>>>, prefix: &[u8], input: &[u8], cuts: &[usize], rep: &mut Report) -> Option<(panicmon::PanicInfo, usize)> {
    let mut buf = BytesMut::new();
    let mut all = prefix.to_vec();
    all.extend_from_slice(input);
    let mut cutv: Vec<usize> = vec![];
    if !prefix.is_empty() {
        cutv.push(prefix.len());
    }
    cutv.extend(cuts.iter().map(|c| c + prefix.len()));
    let mut calls = 0u64;
    let mut bad_name = false;
    for (s, e) in gen::pieces(all.len(), &cutv) {
        buf.extend_from_slice(&all[s..e]);
        loop {
            calls += 1;
            match panicmon::catch(|| dec(&mut buf)) {
                Err(p) => {
                    rep.mon("decode_calls", calls);
                    return Some((p, s));
                }
                Ok(Err(_)) => {
                    rep.mon("decode_calls", calls);
                    rep.mon("decode_errors_reported", 1);
                    return None;
                }
                Ok(Ok(Some(evs))) => {
                    for ev in evs {
                        let a = match ev {
                            Ev::Addr(a) => Some(a),
                            Ev::Dgram(_, a) => a,
                            _ => None,
                        };
                        if let Some(Addr::Domain(n, _)) = a {
                            rep.mon("yielded_names_checked", 1);
                            if std::str::from_utf8(&n).is_err() {
                                bad_name = true;
                            }
                        }
                    }
                    if buf.is_empty() {
                        break;
                    }
                }
                Ok(Ok(None)) => break,
            }
        }
    }
    // end of stream: tokio's default decode_eof calls decode once more
    calls += 1;
    let r = panicmon::catch(|| dec(&mut buf));
    rep.mon("decode_calls", calls);
    if let Err(p) = r {
        return Some((p, all.len()));
    }
    if bad_name {
        return Some((panicmon::PanicInfo { location: String::new(), message: "yielded Address::Domain whose String is not valid UTF-8".into(), repo_frame: "octo-squirrel/src/protocol/socks5/address.rs::decode".into() }, 0));
    }
    None
}

fn report_panic(rep: &mut Report, decoder: &str, state: &str, class: &str, p: &panicmon::PanicInfo, seed: u64, index: u64, cfg: Option<&Cfg>, prefix_len: usize, input: &[u8], cuts: &[usize]) {
    rep.violation(
        format!("C07|{}|{}|{}", decoder, state, p.signature()),
        format!("{} decoder in state '{}' panicked on a {} input: {} (at {})", decoder, state, class, p.message, p.location),
        json!({"seed": seed, "index": index, "decoder": decoder, "state": state, "class": class, "cfg": cfg.map(|c| c.describe()), "valid_prefix_len": prefix_len, "input": hex_short(input), "cuts": cuts, "location": p.location}),
    );
}




fn stream_decoder_case(seed: u64, i: u64, rep: &mut Report) {
    let mut rng = Rng::derive(seed, 0xC07, i);
    let protos = all_protos();
    let proto = protos[(i % protos.len() as u64) as usize];
    let n_users = *rng.pick(&[0usize, 2]);
    let cfg = Cfg::random(&mut rng, proto, n_users);
    let dgram_capable = !matches!(proto, Proto::Ss(_));
    let role = match (i / protos.len() as u64) % 4 {
        0 => Role::ServerStream,
        1 => Role::ClientStream,
        2 => {
            if dgram_capable {
                Role::ServerDgram
            } else {
                Role::ServerStream
            }
        }
        _ => {
            if dgram_capable {
                Role::ClientDgram
            } else {
                Role::ClientStream
            }
        }
    };
    let now = 1_700_000_000 + rng.below(1000);
    pin_clock(now);
    let target = gen::random_addr(&mut rng);
    // option masks without AuthenticatedLength make chunk lengths attacker-controlled
    let vopt = *rng.pick(&[0x01u8, 0x05, 0x0D, 0x11, 0x1D]);
    let spec = Spec { cfg: cfg.clone(), role, source: Source::Ref, target: target.clone(), writes: vec![rng.bytes(40), rng.bytes(300), rng.bytes(20)], request_first: rng.bytes(30), vmess_option: vopt, max_chunk: 0x3FFF, now };
    let decoder = format!("{:?}/{}", role, proto.name());
    panicmon::set_context(&decoder);
    if i < 4 {
        rep.sample(json!({"seed": seed, "index": i, "decoder": decoder, "states": ["initial", "header-done", "mid-chunk"], "classes": ["random", "valid+bitflip", "authenticated-malformed", "valid-truncated-at-every-prefix"]}));
    }
    rep.distinct.insert(crate::report::hash_of(&(seed, i)));
    let probe = match spec.instantiate(&mut rng) {
        Ok(p) => p,
        Err(e) => {
            rep.inconclusive(format!("scenario could not be set up: {}", panicmon::normalise(&e)));
            return;
        }
    };
    let f0 = probe.frame_ends[0];
    let f1 = probe.frame_ends[1];
    drop(probe);
    let states: [(&str, Box<dyn Fn(&crate::scn::Inst) -> usize>); 3] = [("initial", Box::new(|_| 0)), ("header-done", Box::new(|inst| inst.frame_ends[0])), ("mid-chunk", Box::new(|inst| inst.frame_ends[0] + (inst.frame_ends[1] - inst.frame_ends[0]) / 2))];
    let _ = (f0, f1);
    for (state, pfx) in states.iter() {
        // class: random bytes of many lengths, whole / bytewise / random cuts
        let mut inputs: Vec<(&str, Vec<u8>)> = Vec::new();
        for len in (0..=80).chain([100, 200, 300, 600, 2100, 70000]) {
            inputs.push(("random", rng.bytes(len)));
        }
        for b in 0..=255u8 {
            inputs.push(("single-byte", vec![b]));
            inputs.push(("two-bytes", vec![b, rng.next_u32() as u8]));
        }
        for (class, input) in inputs {
            let mut inst = match spec.instantiate(&mut rng) {
                Ok(x) => x,
                Err(_) => continue,
            };
            let p = pfx(&inst);
            let prefix = inst.wire[..p].to_vec();
            let cuts = match rng.below(3) {
                0 => vec![],
                1 => (1..input.len().min(64)).collect(),
                _ => gen::random_cuts(&mut rng, input.len(), 5),
            };
            rep.evaluations += 1;
            if let Some((pi, _)) = feed(&mut inst.dec.0, &prefix, &input, &cuts, rep) {
                report_panic(rep, &decoder, state, class, &pi, seed, i, Some(&cfg), p, &input, &cuts);
            }
        }
        // class: the valid continuation with one bit flipped / truncated at every prefix then EOF
        {
            let inst0 = match spec.instantiate(&mut rng) {
                Ok(x) => x,
                Err(_) => continue,
            };
            let wl = inst0.wire.len();
            drop(inst0);
            for k in 0..120usize {
                let mut inst = match spec.instantiate(&mut rng) {
                    Ok(x) => x,
                    Err(_) => continue,
                };
                let p = pfx(&inst);
                if p >= inst.wire.len() {
                    continue;
                }
                let prefix = inst.wire[..p].to_vec();
                let mut rest = inst.wire[p..].to_vec();
                let class;
                if k % 2 == 0 {
                    let pos = rng.below(rest.len().min(120) as u64) as usize;
                    rest[pos] ^= 1 << rng.below(8);
                    class = "valid+bitflip";
                } else {
                    let cut = (k * 7) % rest.len().max(1);
                    rest.truncate(cut);
                    class = "valid-truncated+eof";
                }
                let cuts = if k % 3 == 0 { gen::random_cuts(&mut rng, rest.len(), 3) } else { vec![] };
                rep.evaluations += 1;
                if let Some((pi, _)) = feed(&mut inst.dec.0, &prefix, &rest, &cuts, rep) {
                    report_panic(rep, &decoder, state, class, &pi, seed, i, Some(&cfg), p, &rest, &cuts);
                }
            }
            let _ = wl;
        }
    }
    // class: well-authenticated but malformed (only meaningful from the initial state, where the harness can seal)
    authenticated_malformed(seed, i, &cfg, role, &target, now, &mut rng, rep, &decoder);
}


fn fresh_server(cfg: &Cfg) -> Option<AnyDec> {
    let sh = real::server_shared(cfg).ok()?;
    Some(real::any_server_answering(real::server_codec(cfg, &sh).ok()?))
}

fn authenticated_malformed(seed: u64, i: u64, cfg: &Cfg, role: Role, target: &Addr, now: u64, rng: &mut Rng, rep: &mut Report, decoder: &str) {
    authenticated_malformed_sampled(seed, i, cfg, role, target, now, rng, rep, decoder, 1, usize::MAX)
}

/// `one_in` / `limit`: present only every `one_in`-th generated frame and at most `limit` of them (the Miri workload
/// runs the same generators, but can afford only a handful of frames per decoder).
#[allow(clippy::too_many_arguments)]
pub(super) fn authenticated_malformed_sampled(seed: u64, i: u64, cfg: &Cfg, role: Role, target: &Addr, now: u64, rng: &mut Rng, rep: &mut Report, decoder: &str, one_in: u64, limit: usize) {
    let addrs = address_variants(rng);
    let mut presented = 0usize;
    let mut rng2 = Rng::derive(seed, 0xC07A, i);
    let mut run = |rep: &mut Report, rng: &mut Rng, mut dec: AnyDec, wire: Vec<u8>, what: &str| {
        if presented >= limit || (one_in > 1 && !rng.chance(1, one_in)) {
            return;
        }
        presented += 1;
        let cuts = if rng.chance(1, 3) { gen::random_cuts(rng, wire.len(), 3) } else { vec![] };
        rep.evaluations += 1;
        rep.mon("authenticated_malformed_frames", 1);
        if let Some((pi, _)) = feed(&mut dec.0, &[], &wire, &cuts, rep) {
            report_panic(rep, decoder, "initial", &format!("authenticated-malformed:{what}"), &pi, seed, i, Some(cfg), 0, &wire, &cuts);
        }
    };
    match (cfg.proto, role) {
        (_, Role::ServerStream | Role::ServerDgram) => {
            server_malformed_wires(cfg, role == Role::ServerDgram, target, now, rng, &mut |what, w| {
                if let Some(d) = fresh_server(cfg) {
                    run(rep, &mut rng2, d, w, what);
                }
            });
        }
        (Proto::Vmess(_), Role::ClientStream | Role::ClientDgram) => {
            // replies: response header contents of every small shape, sealed with the keys of the client's request
            for content in [vec![], vec![0u8], vec![1, 2], vec![9; 3], vec![9; 4], vec![9; 40]] {
                for right_v in [true, false] {
                    let taddr = to_address(target);
                    let (mut dec, req): (AnyDec, BytesMut) = if role == Role::ClientDgram {
                        let mut c = match real::client_dgram_codec(cfg, &taddr) {
                            Ok(c) => c,
                            Err(_) => continue,
                        };
                        let mut req = BytesMut::new();
                        if c.encode(b"q", &taddr, &mut req).is_err() {
                            continue;
                        }
                        (real::any_client_dgram(c), req)
                    } else {
                        let sh = real::client_shared(cfg).unwrap();
                        let mut c = real::client_codec(cfg, &sh, &taddr).unwrap();
                        let mut req = BytesMut::new();
                        if c.encode(b"q", &mut req).is_err() {
                            continue;
                        }
                        (real::any_client(c), req)
                    };
                    let o = match vmess::open_request_header(&cfg.ref_cmd_keys(), now as i64, &req) {
                        Ok(o) => o,
                        Err(_) => continue,
                    };
                    let (rk, ri) = vmess::response_keys(&o.header.body_key, &o.header.body_iv);
                    let mut content = content.clone();
                    if right_v && !content.is_empty() {
                        content[0] = o.header.resp_v;
                    }
                    let mut w = vmess::seal_response_header(&rk, &ri, &content);
                    w.extend_from_slice(&rng.bytes(60));
                    let cuts = vec![];
                    rep.evaluations += 1;
                    rep.mon("authenticated_malformed_frames", 1);
                    if let Some((pi, _)) = feed(&mut dec.0, &[], &w, &cuts, rep) {
                        report_panic(rep, decoder, "initial", "authenticated-malformed:vmess-response-header", &pi, seed, i, Some(cfg), 0, &w, &cuts);
                    }
                }
            }
        }
        (Proto::Trojan, Role::ClientDgram) => {
            for a in &addrs {
                for body in with_tail_variants(a, rng).into_iter().take(10) {
                    let taddr = to_address(target);
                    let c = match real::client_dgram_codec(cfg, &taddr) {
                        Ok(c) => c,
                        Err(_) => continue,
                    };
                    run(rep, rng, real::any_client_dgram(c), body, "trojan-udp-reply");
                }
            }
        }
        _ => {}
    }
}


/// Shadowsocks UDP decoders (both roles): random, exhaustive-short and authenticated-malformed datagrams.
fn ss_udp_case(seed: u64, i: u64, rep: &mut Report) {
    let mut rng = Rng::derive(seed, 0xC07D, i);
    let m = ss::ALL_METHODS[(i % 7) as usize];
    let n_users = if m.supports_eih() && (i / 7) % 2 == 1 { 2 } else { 0 };
    let cfg = Cfg::random(&mut rng, Proto::Ss(m), n_users);
    let now = 1_700_000_000;
    pin_clock(now);
    let server = real::ss_udp_server(&cfg).unwrap();
    let mut client = real::ss_udp_client(&cfg);
    let keys = cfg.ref_client_keys();
    let (csid, _, _) = client.session_ids();
    rep.distinct.insert(0xF000_0000 + i);
    panicmon::set_context(&format!("ss-udp/{}", m.name()));
    let datagrams = ss_udp_hostile_datagrams(&cfg, m, now, csid, &mut rng, (i % 3) as usize);
    for (class, to_server, d) in datagrams {
        let mut src = BytesMut::from(&d[..]);
        rep.evaluations += 1;
        rep.mon("datagrams_presented", 1);
        let r = if to_server { panicmon::catch(|| server.decode(&mut src).map(|o| o.map(|x| x.addr))) } else { panicmon::catch(|| client.decode(&mut src).map(|o| o.map(|x| x.1))) };
        let who = if to_server { "SsUdpServer" } else { "SsUdpClient" };
        match r {
            Err(p) => report_panic(rep, &format!("{}/{}", who, m.name()), "datagram", class, &p, seed, i, Some(&cfg), 0, &d, &[]),
            Ok(Ok(Some(Addr::Domain(n, _)))) => {
                if std::str::from_utf8(&n).is_err() {
                    let p = panicmon::PanicInfo { location: String::new(), message: "yielded Address::Domain whose String is not valid UTF-8".into(), repo_frame: "octo-squirrel/src/protocol/socks5/address.rs::decode".into() };
                    report_panic(rep, &format!("{}/{}", who, m.name()), "datagram", class, &p, seed, i, Some(&cfg), 0, &d, &[]);
                }
            }
            _ => {}
        }
    }
}

/// The local-side decoders: SOCKS5 handshake messages, SOCKS5 UDP header, HTTP request-target extraction.
fn local_decoders(seed: u64, rep: &mut Report, thorough: bool) {
    let mut rng = Rng::derive(seed, 0xC075, 0);
    let alpha: [u8; 9] = [0, 1, 2, 3, 4, 5, 6, 0x7f, 0xff];
    let mut inputs: Vec<Vec<u8>> = vec![vec![]];
    for a in 0..=255u8 {
        inputs.push(vec![a]);
        for b in 0..=255u8 {
            inputs.push(vec![a, b]);
        }
    }
    for a in alpha {
        for b in alpha {
            for c in alpha {
                inputs.push(vec![a, b, c]);
                for d in alpha {
                    inputs.push(vec![a, b, c, d]);
                    inputs.push(vec![5, a, b, c, d]);
                    inputs.push(vec![0, 0, a, b, c, d]);
                }
            }
        }
    }
    // every ATYP / domain-length shape behind valid prefixes
    for a in address_variants(&mut rng) {
        for pre in [&[5u8, 1, 0][..], &[5, 0, 0][..], &[0, 0, 0][..], &[5, 3, 0][..]] {
            let mut v = pre.to_vec();
            v.extend_from_slice(&a);
            inputs.push(v.clone());
            v.extend_from_slice(&rng.bytes(4));
            inputs.push(v);
        }
    }
    for n in 0..=40u8 {
        let mut v = vec![5, n];
        v.extend_from_slice(&rng.bytes(n as usize / 2));
        inputs.push(v);
    }
    for _ in 0..if thorough { 200000 } else { 20000 } {
        let n = rng.range(0, 40);
        inputs.push(rng.bytes(n));
    }
    rep.sample(json!({"local_decoders": ["Socks5InitialRequestDecoder", "Socks5CommandRequestDecoder", "Socks5InitialResponseDecoder", "Socks5CommandResponseDecoder", "Socks5UdpCodec", "recognize_http"], "exhaustive": "all inputs of length <= 2; lengths 3-6 over a 9-value boundary alphabet", "inputs": inputs.len()}));
    let decs: Vec<(&str, Box<dyn Fn() -> Box<dyn FnMut(&mut BytesMut) -> anyhow::Result<Option<Vec<Ev>>>>>)> = vec![
        ("Socks5InitialRequestDecoder", Box::new(|| {
            let mut d = s5::Socks5InitialRequestDecoder;
            Box::new(move |b| Ok(d.decode(b)?.map(|_| vec![])))
        })),
        ("Socks5CommandRequestDecoder", Box::new(|| {
            let mut d = s5::Socks5CommandRequestDecoder;
            Box::new(move |b| Ok(d.decode(b)?.map(|r| vec![Ev::Addr(from_address(&r.dst_addr))])))
        })),
        ("Socks5InitialResponseDecoder", Box::new(|| {
            let mut d = s5::Socks5InitialResponseDecoder;
            Box::new(move |b| Ok(d.decode(b)?.map(|_| vec![])))
        })),
        ("Socks5CommandResponseDecoder", Box::new(|| {
            let mut d = s5::Socks5CommandResponseDecoder;
            Box::new(move |b| Ok(d.decode(b)?.map(|r| vec![Ev::Addr(from_address(&r.bnd_addr))])))
        })),
        ("Socks5UdpCodec", Box::new(|| {
            let mut d = s5::Socks5UdpCodec;
            Box::new(move |b| Ok(d.decode(b)?.map(|(p, a)| vec![Ev::Dgram(p.to_vec(), Some(from_address(&a)))])))
        })),
    ];
    for (name, mk) in decs.iter() {
        panicmon::set_context(name);
        for (k, input) in inputs.iter().enumerate() {
            let mut d = mk();
            let cuts: Vec<usize> = if k % 2 == 0 { vec![] } else { (1..input.len()).collect() };
            rep.evaluations += 1;
            if let Some((p, _)) = feed(&mut *d, &[], input, &cuts, rep) {
                report_panic(rep, name, "initial", "short/boundary/random", &p, seed, k as u64, None, 0, input, &cuts);
            }
        }
        rep.distinct.insert(crate::report::hash_of(name));
    }
    // HTTP request-target extraction on hostile strings
    let pieces = ["http://", "://", ":", "/", "?", "[", "]", "::1", "a", "é", "世", "%", "@", "80", "65536", "-1", " ", "#", "\u{0}", ""];
    let methods = ["GET", "CONNECT", "POST", "", "connect"];
    let mut n = 0u64;
    for _ in 0..if thorough { 400000 } else { 60000 } {
        let k = rng.range(0, 7);
        let path: String = (0..k).map(|_| *rng.pick(&pieces)).collect();
        let method = *rng.pick(&methods);
        n += 1;
        if let Err(p) = panicmon::catch(|| octo_squirrel_client::client::verif::recognize_http(method, &path).map(|_| ())) {
            report_panic(rep, "recognize_http", "initial", "hostile request-target", &p, seed, n, None, 0, path.as_bytes(), &[]);
        }
    }
    rep.evaluations += n;
    rep.mon("http_targets_parsed", n);
    rep.distinct.insert(crate::report::hash_of(&"recognize_http"));
}

pub fn run(a: &Args) -> Report {
    real::ANSWER_AFTER_DECODE.store(true, std::sync::atomic::Ordering::Relaxed);
    let seed = a.seed;
    let sub = a.sub.clone().unwrap_or_default();
    let mut rep = Report::new();
    if sub.is_empty() || sub == "streams" {
        let n = a.n(80, 1200);
        rep.merge(parallel(n, a.threads, |i, rep| stream_decoder_case(seed, i as u64, rep)));
    }
    if sub.is_empty() || sub == "udp" {
        let n = a.n(28, 280);
        rep.merge(parallel(n, a.threads, |i, rep| ss_udp_case(seed, i as u64, rep)));
    }
    if sub.is_empty() || sub == "local" {
        let mut r = Report::new();
        local_decoders(seed, &mut r, a.thorough && a.scale >= 1.0);
        rep.merge(r);
    }
    rep
}
