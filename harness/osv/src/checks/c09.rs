//! C09 - concurrent flows are independent of one another (codec level).
//! T OS threads, released by a barrier, drive the real codecs over exactly the state real flows share:
//! one `tcp::Context` (salt replay cache) per server, the process-wide UDP cipher cache, one server UDP
//! codec and user table. Every operation has an outcome known a priori (round-trip equality through the
//! reference implementation), so shared corruption cannot hide. The same binary runs under
//! ThreadSanitizer and (a tiny instance) under Miri; their reports are the primary monitors.

use std::collections::HashSet;
use std::sync::atomic::{AtomicU64, Ordering};
use std::sync::{Arc, Barrier, Mutex};

use bytes::BytesMut;
use refimpl::addr::Addr;
use refimpl::ss;
use serde_json::json;

use super::{pin_clock, Args};
use crate::drive::{drain_client, drain_server, guarded, Fail};
use crate::peer::{ClientOpts, RefClient, RefServer, ServerOpts};
use crate::prng::Rng;
use crate::real::{self, to_address, Cfg, Proto, SrvItem};
use crate::report::Report;

const NOW: u64 = 1_700_000_000;

struct Shared {
    cfg: Cfg,
    tcp: real::ServerShared,
    udp: Option<Box<dyn real::RealSsUdpServer>>,
    client_tcp: real::ClientShared,
}

// ServerShared / ClientShared hold Arc<Context> (Send + Sync in /repo: it is shared between tokio tasks there too)
unsafe impl Sync for Shared {}
unsafe impl Send for Shared {}

static CLOCK: AtomicU64 = AtomicU64::new(0);

fn tick() -> u64 {
    CLOCK.fetch_add(1, Ordering::SeqCst)
}

#[derive(Clone, Copy)]
struct OpLog {
    thread: u8,
    op: u8,
    start: u64,
    end: u64,
}

fn fail_sig(f: &Fail) -> String {
    match f {
        Fail::Panic(p) => p.signature(),
        Fail::Err(e) => format!("error:{}", crate::panicmon::normalise(e)),
    }
}

fn worker(sh: &Shared, seed: u64, round: u64, t: usize, ops: usize, shared_sid: u64, rep: &mut Report, log: &mut Vec<OpLog>) {
    pin_clock(NOW);
    let mut rng = Rng::derive(seed, 0xC09_0000 + round, t as u64);
    let cfg = &sh.cfg;
    let m = cfg.method();
    let mut udp_client = m.map(|_| real::ss_udp_client(cfg));
    let keys = m.map(|_| cfg.ref_client_keys());
    let proto = cfg.proto.name();
    for k in 0..ops {
        let op = rng.below(6) as u8;
        let start = tick();
        let target = Addr::V4(rng.arr(), 1 + rng.below(60000) as u16);
        let pl = [1usize, 40, 700, 1400][rng.below(4) as usize];
        let payload = rng.bytes(pl);
        let mut viol = |rep: &mut Report, what: &str, sym: String| {
            rep.violation(format!("C09|{}|{}|{}", what, proto, sym), format!("concurrent {} on {}: {}", what, proto, sym), json!({"seed": seed, "round": round, "thread": t, "op_index": k, "cfg": cfg.describe()}));
        };
        match op {
            // a fresh TCP request through a server codec that shares the salt cache with all other threads
            0 | 1 => {
                let mut c = RefClient::new(cfg, &target, &mut rng, NOW, ClientOpts::default());
                let w = c.write(&payload, &mut rng);
                let mut s = real::server_codec(cfg, &sh.tcp).unwrap();
                let mut b = BytesMut::from(&w[..]);
                let d = drain_server(s.as_mut(), &mut b, true);
                let ok = d.stop.is_none() && d.items.len() == 1 && matches!(&d.items[0], SrvItem::Connect(p, a) if *p == payload && *a == target);
                rep.mon("tcp_requests_decoded_concurrently", 1);
                if !ok {
                    viol(rep, "tcp-request", d.stop.as_ref().map(fail_sig).unwrap_or_else(|| "result-differs-from-solo-run".into()));
                }
                // and the answer through the same codec, read by the reference
                let mut dst = BytesMut::new();
                if guarded(|| s.encode_tcp(&payload, &mut dst)).is_ok() {
                    if !matches!(c.read(&dst), Ok(p) if p == payload) {
                        viol(rep, "tcp-response", "result-differs-from-solo-run".into());
                    }
                }
            }
            // a whole TCP flow through a real client codec from the shared client context
            2 => {
                let taddr = to_address(&target);
                let mut c = real::client_codec(cfg, &sh.client_tcp, &taddr).unwrap();
                let mut req = BytesMut::new();
                let mut s = RefServer::new(cfg, NOW, ServerOpts::default());
                let ok = guarded(|| c.encode(&payload, &mut req)).is_ok() && matches!(s.read(&req), Ok(p) if p == payload) && s.addr.as_ref() == Some(&target);
                rep.mon("client_flows_concurrently", 1);
                if !ok {
                    viol(rep, "client-request", "result-differs-from-solo-run".into());
                } else {
                    let w = s.write(&payload, &mut rng);
                    let mut b = BytesMut::from(&w[..]);
                    let d = drain_client(c.as_mut(), &mut b, true);
                    if d.stop.is_some() || d.items.concat() != payload {
                        viol(rep, "client-response", d.stop.as_ref().map(fail_sig).unwrap_or_else(|| "result-differs-from-solo-run".into()));
                    }
                }
            }
            // UDP through the process-wide cipher cache
            _ => {
                let (Some(m), Some(cl), Some(keys), Some(srv)) = (m, udp_client.as_mut(), keys.as_ref(), sh.udp.as_ref()) else { continue };
                rep.mon("udp_operations_concurrently", 1);
                match op {
                    3 => {
                        // real client encode -> reference decode, and the reference's reply -> real client decode
                        let mut dst = BytesMut::new();
                        if let Err(f) = guarded(|| cl.encode(&payload, &to_address(&target), &mut dst)) {
                            viol(rep, "udp-client-encode", fail_sig(&f));
                            continue;
                        }
                        let ok = if m.is_2022() { matches!(ss::s22_udp_server_decode(m, &cfg.ref_server_psk(), &cfg.ref_users(), &dst), Ok((p, _)) if p.payload == payload && p.addr == target) } else { matches!(ss::sip004_udp_decode(m, &cfg.ref_server_psk(), &dst), Ok((a, p)) if p == payload && a == target) };
                        if !ok {
                            viol(rep, "udp-client-encode", "reference-cannot-read-what-was-encoded".into());
                        }
                        let (csid, _, _) = cl.session_ids();
                        let w = if m.is_2022() {
                            let p = ss::S22UdpPacket { session_id: shared_sid ^ t as u64, packet_id: 1 + k as u64, type_byte: 1, timestamp: NOW, client_session_id: Some(csid), padding: vec![], addr: target.clone(), payload: payload.clone() };
                            ss::s22_udp_server_encode(m, &keys.psk, &p, &rng.arr())
                        } else {
                            ss::sip004_udp_encode(m, &cfg.ref_server_psk(), &rng.bytes(m.key_len()), &target, &payload)
                        };
                        let mut b = BytesMut::from(&w[..]);
                        match guarded(|| cl.decode(&mut b)) {
                            Ok(Some((p, a))) if p == payload && a == target => {}
                            Ok(_) => viol(rep, "udp-client-decode", "result-differs-from-solo-run".into()),
                            Err(f) => viol(rep, "udp-client-decode", fail_sig(&f)),
                        }
                    }
                    _ => {
                        // reference client datagram (session ids collide across threads on purpose) -> shared server codec
                        let sid = if rng.chance(1, 2) { shared_sid } else { rng.next_u64() };
                        // with a user table every thread speaks as a different user: sessions with EQUAL ids under DIFFERENT keys
                        let (user_keys, want_user) = if m.is_2022() && !cfg.users.is_empty() {
                            let u = (t + k) % cfg.users.len();
                            (Some(refimpl::ss::Keys { psk: cfg.users[u].1.clone(), ipsks: vec![cfg.server_psk.clone()] }), Some(cfg.users[u].0.clone()))
                        } else {
                            (None, cfg.client_user.map(|u| cfg.users[u].0.clone()))
                        };
                        let keys = user_keys.as_ref().unwrap_or(keys);
                        let w = if m.is_2022() {
                            let p = ss::S22UdpPacket { session_id: sid, packet_id: rng.next_u64() >> 8, type_byte: 0, timestamp: NOW, client_session_id: None, padding: vec![], addr: target.clone(), payload: payload.clone() };
                            ss::s22_udp_client_encode(m, keys, &p, &rng.arr())
                        } else {
                            ss::sip004_udp_encode(m, &keys.psk, &rng.bytes(m.key_len()), &target, &payload)
                        };
                        let mut b = BytesMut::from(&w[..]);
                        match guarded(|| srv.decode(&mut b)) {
                            Ok(Some(d)) if d.payload == payload && d.addr == target && d.user == want_user => {
                                // reply through the shared codec
                                let mut dst = BytesMut::new();
                                let ssid = shared_sid.rotate_left(7) ^ (t as u64 % 2);
                                match guarded(|| srv.encode(&payload, &to_address(&target), sid, ssid, 1 + k as u64, d.user.as_deref(), &mut dst)) {
                                    Ok(()) => {
                                        let ok = if m.is_2022() { matches!(ss::s22_udp_client_decode(m, &keys.psk, &dst), Ok(p) if p.payload == payload) } else { matches!(ss::sip004_udp_decode(m, &cfg.ref_server_psk(), &dst), Ok((_, p)) if p == payload) };
                                        if !ok {
                                            viol(rep, "udp-server-encode", "reference-cannot-read-what-was-encoded".into());
                                        }
                                    }
                                    Err(f) => viol(rep, "udp-server-encode", fail_sig(&f)),
                                }
                            }
                            Ok(_) => viol(rep, "udp-server-decode", "result-differs-from-solo-run".into()),
                            Err(f) => viol(rep, "udp-server-decode", fail_sig(&f)),
                        }
                    }
                }
            }
        }
        rep.evaluations += 1;
        log.push(OpLog { thread: t as u8, op, start, end: tick() });
    }
}

pub fn run(a: &Args) -> Report {
    let mut rep = Report::new();
    let rounds = a.n(2000, 20000);
    let ops = if a.scale < 0.05 { 4 } else { 24 };
    let thread_counts: Vec<usize> = if a.scale < 0.05 { vec![3] } else { vec![2, 4, 8, 16] };
    let mut overlap_sets: HashSet<Vec<(u8, u8)>> = HashSet::new();
    let mut max_conc = 0usize;
    let protos: Vec<Proto> = vec![Proto::Ss(ss::Method::B3Aes128Gcm), Proto::Ss(ss::Method::B3Aes256Gcm), Proto::Ss(ss::Method::B3ChaCha20Poly1305), Proto::Ss(ss::Method::B3ChaCha8Poly1305), Proto::Ss(ss::Method::Aes128Gcm), Proto::Ss(ss::Method::ChaCha20IetfPoly1305), Proto::Vmess(3), Proto::Trojan];
    for round in 0..rounds as u64 {
        let mut rng = Rng::derive(a.seed, 0xC09, round);
        let proto = protos[(round % protos.len() as u64) as usize];
        let n_users = if round % 3 == 0 { 3 } else { 0 };
        let cfg = Cfg::random(&mut rng, proto, n_users);
        pin_clock(NOW);
        let sh = Arc::new(Shared { tcp: real::server_shared(&cfg).unwrap(), udp: cfg.method().map(|_| real::ss_udp_server(&cfg).unwrap()), client_tcp: real::client_shared(&cfg).unwrap(), cfg });
        let t = thread_counts[(round as usize / protos.len()) % thread_counts.len()];
        let barrier = Arc::new(Barrier::new(t));
        let results: Arc<Mutex<Vec<(Report, Vec<OpLog>)>>> = Arc::new(Mutex::new(Vec::new()));
        let shared_sid = rng.next_u64();
        let seed = a.seed;
        std::thread::scope(|s| {
            for ti in 0..t {
                let (sh, barrier, results) = (sh.clone(), barrier.clone(), results.clone());
                s.spawn(move || {
                    let mut r = Report::new();
                    let mut log = Vec::new();
                    barrier.wait();
                    worker(&sh, seed, round, ti, ops, shared_sid, &mut r, &mut log);
                    results.lock().unwrap().push((r, log));
                });
            }
        });
        let mut all: Vec<OpLog> = Vec::new();
        for (r, l) in Arc::try_unwrap(results).ok().unwrap().into_inner().unwrap() {
            rep.merge(r);
            all.extend(l);
        }
        // schedule diversity actually observed: which (thread, op kind) sets overlapped each operation
        for o in &all {
            let mut set: Vec<(u8, u8)> = all.iter().filter(|p| p.thread != o.thread && p.start < o.end && o.start < p.end).map(|p| (p.thread, p.op)).collect();
            set.sort_unstable();
            set.dedup();
            max_conc = max_conc.max(set.iter().map(|x| x.0).collect::<HashSet<_>>().len() + 1);
            if overlap_sets.len() < 200_000 {
                overlap_sets.insert(set);
            }
        }
        rep.distinct.insert(crate::report::hash_of(&("round", round)));
        if round < 2 {
            rep.sample(json!({"seed": a.seed, "round": round, "proto": proto.name(), "users": n_users, "threads": t, "ops_per_thread": ops, "operations": ["tcp request+response through shared salt cache", "client flow from shared client context", "udp client encode/decode (global cipher cache)", "udp server decode/encode on one shared codec, colliding session ids"]}));
        }
    }
    // two inbounds of one process that share a KEY but not a cipher (the configuration file is a list; nothing stops an
    // operator from reusing a key): the process-wide datagram cipher cache sees equal key bytes and - if the sender wants -
    // equal 8-byte ids from both. Each inbound's result must be what it would be alone.
    for (ma, mb) in [(ss::Method::B3Aes256Gcm, ss::Method::B3ChaCha20Poly1305), (ss::Method::B3Aes256Gcm, ss::Method::B3ChaCha8Poly1305), (ss::Method::B3ChaCha20Poly1305, ss::Method::B3ChaCha8Poly1305)] {
        let mut rng = Rng::derive(a.seed, 0xC09D, ma as u64 * 16 + mb as u64);
        pin_clock(NOW);
        let cfg_a = Cfg::random(&mut rng, Proto::Ss(ma), 0);
        let mut cfg_b = cfg_a.clone();
        cfg_b.proto = Proto::Ss(mb);
        let (Ok(srv_a), Ok(srv_b)) = (real::ss_udp_server(&cfg_a), real::ss_udp_server(&cfg_b)) else { continue };
        let (keys_a, keys_b) = (cfg_a.ref_client_keys(), cfg_b.ref_client_keys());
        let name = format!("{}+{}", ma.name(), mb.name());
        for k in 0..a.n(60, 600) as u64 {
            let target = Addr::V4(rng.arr(), 1 + rng.below(60000) as u16);
            let payload = rng.bytes([1usize, 40, 700][k as usize % 3]);
            let sid = rng.next_u64();
            let mk = |m: ss::Method, keys: &ss::Keys, sid: u64, pid: u64, rng: &mut Rng| {
                let p = ss::S22UdpPacket { session_id: sid, packet_id: pid, type_byte: 0, timestamp: NOW, client_session_id: None, padding: vec![], addr: target.clone(), payload: payload.clone() };
                ss::s22_udp_client_encode(m, keys, &p, &rng.arr())
            };
            // the second inbound's datagram is made first: a sender who wants a collision reads 8 bytes off it
            let d_b = mk(mb, &keys_b, sid, 1 + k, &mut rng);
            let mut ids = vec![sid];
            if d_b.len() >= 32 {
                ids.push(u64::from_be_bytes(d_b[24..32].try_into().unwrap()));
                ids.push(u64::from_le_bytes(d_b[24..32].try_into().unwrap()));
                ids.push(u64::from_be_bytes(d_b[..8].try_into().unwrap()));
            }
            let mut seq: Vec<(&str, &Box<dyn real::RealSsUdpServer>, Vec<u8>)> = Vec::new();
            for id in ids {
                seq.push(("first-inbound", &srv_a, mk(ma, &keys_a, id, 1 + k, &mut rng)));
            }
            seq.push(("second-inbound", &srv_b, d_b));
            seq.push(("first-inbound", &srv_a, mk(ma, &keys_a, sid, 1000 + k, &mut rng)));
            if k % 2 == 1 {
                seq.reverse();
            }
            for (who, srv, w) in seq {
                let mut b = BytesMut::from(&w[..]);
                rep.evaluations += 1;
                rep.mon("datagrams_through_two_inbounds_sharing_a_key", 1);
                match guarded(|| srv.decode(&mut b)) {
                    Ok(Some(d)) if d.payload == payload && d.addr == target => {
                        let mut dst = BytesMut::new();
                        if let Err(f) = guarded(|| srv.encode(&payload, &to_address(&target), d.client_session_id, sid.rotate_left(9), 1 + k, None, &mut dst)) {
                            rep.violation(format!("C09|two-inbounds-one-key|{}|{}|udp-server-encode:{}", name, who, fail_sig(&f)), format!("two inbounds sharing a key ({name}): the {who} cannot answer: {}", fail_sig(&f)), json!({"seed": a.seed, "k": k}));
                        }
                    }
                    Ok(_) => rep.violation(format!("C09|two-inbounds-one-key|{}|{}|udp-server-decode:result-differs-from-solo-run", name, who), format!("two inbounds sharing a key ({name}): a valid datagram for the {who} is not decoded as it would be alone"), json!({"seed": a.seed, "k": k})),
                    Err(f) => rep.violation(format!("C09|two-inbounds-one-key|{}|{}|udp-server-decode:{}", name, who, fail_sig(&f)), format!("two inbounds sharing a key ({name}): a valid datagram for the {who}: {}", fail_sig(&f)), json!({"seed": a.seed, "k": k})),
                }
            }
        }
        rep.distinct.insert(crate::report::hash_of(&("two-inbounds", name)));
    }
    // the security check that concurrent flows share: copies of one handshake presented at the same instant
    {
        let mut rng = Rng::derive(a.seed, 0xC09C, 0);
        let mut cx = super::c10::Cx { rep: &mut rep, seed: a.seed, prop: "C09" };
        super::c10::tcp_server_concurrent(&mut cx, &mut rng, a.n(1200, 10000));
    }
    rep.extra.insert("interleavings".into(), json!({"distinct_overlap_patterns": overlap_sets.len(), "peak_threads_overlapping": max_conc, "rounds": rounds}));
    rep.mon("distinct_overlap_patterns", overlap_sets.len() as u64);
    rep
}
