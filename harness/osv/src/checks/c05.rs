//! C05 - tampered or reflected ciphertext is never delivered as plaintext.
//! Valid encrypted streams/datagrams are mutated; the real decoders (inside the real FramedRead /
//! WebSocketFramed, polled past errors the way the server relay does) must release only a prefix of the
//! sender's plaintext and nothing that lies after the first tampered frame.

use std::time::Duration;

use bytes::BytesMut;
use futures::{SinkExt, StreamExt};
use refimpl::ss;
use serde_json::json;
use tokio_util::codec::FramedRead;

use super::c04::new_rt;
use super::{pin_clock, Args};
use crate::drive::guarded;
use crate::gen;
use crate::memio::Segments;
use crate::panicmon::{self, normalise};
use crate::prng::Rng;
use crate::real::{self, all_protos, to_address, Cfg, Proto};
use crate::report::{parallel, Report};
use crate::scn::{Got, Inst, Role, Source, Spec};

#[derive(Debug, Clone)]
enum Mutation {
    BitFlip(usize, u8),
    Truncate(usize),
    DeleteFrame(usize),
    DuplicateFrame(usize),
    SwapFrames(usize),
    /// swap the first two adjacent frames at or after this index that have the same wire length (VMess: equal padding,
    /// so that only the chunk counters stand between the swap and its acceptance)
    SwapEqualLenFrames(usize),
    ReplayFrame(usize, usize),
    InsertAtBoundary(usize, Vec<u8>),
    RandomEdit(Vec<(usize, u8)>),
    /// feed the peer's own request bytes instead of (prefix frames of) the response
    Reflect(usize),
    /// VMess without AuthenticatedLength (what a stock v2ray client may negotiate): the length field of a chunk is only
    /// XOR-masked. Whoever knows the size of one application write reads mask and padding length off the wire and replaces
    /// that chunk by one that ANNOUNCES NO PAYLOAD (tag and padding only, `extra` more bytes announced), filled with
    /// bytes of his own - a "chunk" a lazy decoder might pass over without opening it. (frame index, plaintext length of
    /// that frame, extra)
    ForgeEmptyVmessChunk(usize, usize, usize),
    /// splice across CONNECTIONS: after this many frames of this connection the wire goes on with the whole wire of ANOTHER
    /// connection made under the same keys (same direction, sealed for another request / under another salt); delivered whole
    /// and with every single cut in the 140 bytes behind the splice point. (frames kept, cut offset behind the splice or 0)
    ForeignConnection(usize, usize),
}

impl Mutation {
    fn family(&self) -> &'static str {
        match self {
            Mutation::BitFlip(..) => "bit-flip",
            Mutation::Truncate(..) => "truncate",
            Mutation::DeleteFrame(..) => "delete-frame",
            Mutation::DuplicateFrame(..) => "duplicate-frame",
            Mutation::SwapFrames(..) => "swap-frames",
            Mutation::SwapEqualLenFrames(..) => "swap-frames",
            Mutation::ReplayFrame(..) => "replay-frame",
            Mutation::InsertAtBoundary(..) => "insert-bytes",
            Mutation::RandomEdit(..) => "random-edit",
            Mutation::Reflect(..) => "reflect-own-request",
            Mutation::ForgeEmptyVmessChunk(..) => "forged-chunk-announcing-no-payload",
            Mutation::ForeignConnection(..) => "spliced-from-another-connection",
        }
    }
}

fn frame_range(inst: &Inst, k: usize) -> (usize, usize) {
    let s = if k == 0 { 0 } else { inst.frame_ends[k - 1] };
    (s, inst.frame_ends[k])
}

/// Returns (mutated wire, offset of the first byte that differs from / is missing in the original, eof after delivery)
fn apply(inst: &Inst, m: &Mutation) -> Option<(Vec<u8>, usize, bool)> {
    let w = &inst.wire;
    let nf = inst.frame_ends.len();
    Some(match m {
        Mutation::BitFlip(p, b) => {
            if *p >= w.len() {
                return None;
            }
            let mut v = w.clone();
            v[*p] ^= 1 << (b % 8);
            (v, *p, false)
        }
        Mutation::Truncate(n) => {
            if *n >= w.len() {
                return None;
            }
            (w[..*n].to_vec(), *n, true)
        }
        Mutation::DeleteFrame(k) => {
            if *k >= nf || nf < 2 {
                return None;
            }
            let (s, e) = frame_range(inst, *k);
            if *k + 1 == nf {
                return None; // deleting the last frame is a truncation at a frame boundary: nothing tampered is delivered
            }
            let mut v = w[..s].to_vec();
            v.extend_from_slice(&w[e..]);
            (v, s, false)
        }
        Mutation::DuplicateFrame(k) => {
            if *k >= nf {
                return None;
            }
            let (s, e) = frame_range(inst, *k);
            let mut v = w[..e].to_vec();
            v.extend_from_slice(&w[s..e]);
            v.extend_from_slice(&w[e..]);
            (v, e, false)
        }
        Mutation::SwapFrames(k) => {
            if *k + 1 >= nf {
                return None;
            }
            let (s1, e1) = frame_range(inst, *k);
            let (s2, e2) = frame_range(inst, *k + 1);
            if w[s1..e1] == w[s2..e2] {
                return None;
            }
            let mut v = w[..s1].to_vec();
            v.extend_from_slice(&w[s2..e2]);
            v.extend_from_slice(&w[s1..e1]);
            v.extend_from_slice(&w[e2..]);
            (v, s1, false)
        }
        Mutation::SwapEqualLenFrames(from) => {
            let k = (*from..nf.saturating_sub(1)).find(|k| {
                let (s1, e1) = frame_range(inst, *k);
                let (s2, e2) = frame_range(inst, *k + 1);
                e1 - s1 == e2 - s2 && w[s1..e1] != w[s2..e2]
            })?;
            return apply(inst, &Mutation::SwapFrames(k));
        }
        Mutation::ReplayFrame(k, at) => {
            if *k >= nf || *at >= nf || at <= k {
                return None;
            }
            let (s, e) = frame_range(inst, *k);
            let pos = inst.frame_ends[*at];
            let mut v = w[..pos].to_vec();
            v.extend_from_slice(&w[s..e]);
            v.extend_from_slice(&w[pos..]);
            (v, pos, false)
        }
        Mutation::InsertAtBoundary(k, bytes) => {
            if *k >= nf || bytes.is_empty() {
                return None;
            }
            let pos = inst.frame_ends[*k];
            let mut v = w[..pos].to_vec();
            v.extend_from_slice(bytes);
            v.extend_from_slice(&w[pos..]);
            (v, pos, false)
        }
        Mutation::RandomEdit(edits) => {
            let mut v = w.clone();
            for (p, x) in edits {
                if *p < v.len() {
                    v[*p] ^= x;
                }
            }
            // the point of tampering is where the result really differs (two edits of one byte may cancel out)
            let first = (0..v.len()).find(|i| v[*i] != w[*i])?;
            (v, first, false)
        }
        Mutation::ForgeEmptyVmessChunk(k, plain, extra) => {
            if *k == 0 || *k >= nf {
                return None; // frame 0 carries the header
            }
            let (s, e) = frame_range(inst, *k);
            // field = mask ^ (payload + tag + padding); the frame is field(2) + payload + tag(16) + padding
            let total = e - s;
            if total < 2 + plain + 16 || total - 2 - plain - 16 >= 64 {
                return None;
            }
            let announced = total - 2;
            let field = u16::from_be_bytes([w[s], w[s + 1]]);
            let mask = field ^ announced as u16;
            let new_len = announced - plain + extra;
            let mut v = w[..s].to_vec();
            v.extend_from_slice(&(mask ^ new_len as u16).to_be_bytes());
            v.extend((0..new_len).map(|i| (i as u8).wrapping_mul(37) ^ w[s]));
            v.extend_from_slice(&w[e..]);
            (v, s, false)
        }
        Mutation::ForeignConnection(..) => return None, // needs a second connection: built in one_case
        Mutation::Reflect(keep) => {
            if inst.request_wire.is_empty() || *keep > nf {
                return None;
            }
            let pos = if *keep == 0 { 0 } else { inst.frame_ends[*keep - 1] };
            let mut v = w[..pos].to_vec();
            v.extend_from_slice(&inst.request_wire);
            (v, pos, false)
        }
    })
}

struct Released {
    got: Got,
    errors: Vec<String>,
    panic: Option<panicmon::PanicInfo>,
    released_after_error: bool,
}

/// Poll the framed reader like the server relay does: errors are skipped, polling goes on until the stream ends or goes Pending.
fn collect(rt: &tokio::runtime::Runtime, dec: real::AnyDec, pieces: Vec<Vec<u8>>, eof: bool, ws: bool) -> Released {
    let r = panicmon::catch(|| {
        rt.block_on(async move {
            let mut got = Got::default();
            let mut errors = Vec::new();
            let mut after = false;
            if !ws {
                let mut fr = FramedRead::new(Segments::new(pieces, eof), dec);
                loop {
                    match tokio::time::timeout(Duration::from_secs(1), fr.next()).await {
                        Err(_) | Ok(None) => break,
                        Ok(Some(Ok(evs))) => {
                            if !errors.is_empty() {
                                after = true;
                            }
                            got.push(evs)
                        }
                        Ok(Some(Err(e))) => {
                            errors.push(format!("{e:#}"));
                            if errors.len() > 64 {
                                break;
                            }
                        }
                    }
                }
            } else {
                let (a, b) = tokio::io::duplex(1 << 22);
                let client = tokio::spawn(async move {
                    let uri: http::Uri = "ws://localhost/ws".parse().unwrap();
                    if let Ok((mut ws, _)) = tokio_websockets::ClientBuilder::from_uri(uri).connect_on(a).await {
                        for p in pieces {
                            if ws.send(tokio_websockets::Message::binary(bytes::Bytes::from(p))).await.is_err() {
                                break;
                            }
                        }
                        if eof {
                            let _ = ws.close().await;
                        } else {
                            tokio::time::sleep(Duration::from_secs(3600)).await;
                        }
                    }
                });
                if let Ok((_req, wss)) = tokio_websockets::ServerBuilder::new().accept(b).await {
                    let mut fr: octo_squirrel::codec::WebSocketFramed<_, _, Vec<u8>, Vec<real::Ev>> = octo_squirrel::codec::WebSocketFramed::new(wss, dec);
                    loop {
                        match tokio::time::timeout(Duration::from_secs(1), fr.next()).await {
                            Err(_) | Ok(None) => break,
                            Ok(Some(Ok(evs))) => {
                                if !errors.is_empty() {
                                    after = true;
                                }
                                got.push(evs)
                            }
                            Ok(Some(Err(e))) => {
                                errors.push(format!("{e:#}"));
                                if errors.len() > 64 {
                                    break;
                                }
                            }
                        }
                    }
                }
                client.abort();
            }
            (got, errors, after)
        })
    });
    match r {
        Ok((got, errors, after)) => Released { got, errors, panic: None, released_after_error: after },
        Err(p) => Released { got: Got::default(), errors: vec![], panic: Some(p), released_after_error: false },
    }
}

fn make_spec(rng: &mut Rng, i: u64) -> Spec {
    let protos: Vec<Proto> = all_protos().into_iter().filter(|p| p.encrypted()).collect();
    let proto = protos[(i % protos.len() as u64) as usize];
    let n_users = *rng.pick(&[0usize, 0, 2]);
    let cfg = Cfg::random(rng, proto, n_users);
    let dgram_capable = matches!(proto, Proto::Vmess(_));
    let role = match (i / protos.len() as u64) % 6 {
        0 | 1 => Role::ServerStream,
        2 | 3 => Role::ClientStream,
        4 => {
            if dgram_capable {
                Role::ServerDgram
            } else {
                Role::ServerStream
            }
        }
        _ => {
            if dgram_capable {
                Role::ClientDgram
            } else {
                Role::ClientStream
            }
        }
    };
    let source = if (i / (6 * protos.len() as u64)) % 2 == 0 { Source::Ref } else { Source::Real };
    let nw = rng.range(2, 6);
    // every write is at most one chunk in every encoder, so frame boundaries are AEAD unit-group boundaries
    let writes: Vec<Vec<u8>> = (0..nw)
        .map(|_| {
            let n = *rng.pick(&[1usize, 2, 16, 17, 40, 300, 1900]);
            rng.bytes(n)
        })
        .collect();
    let target = gen::random_addr(rng);
    let rf = *rng.pick(&[1usize, 30, 500]);
    // cut-off checking needs unauthenticated padding out of the picture: reference wires avoid GlobalPadding half of the time
    let vopt = *rng.pick(&[0x01u8, 0x05, 0x11, 0x15, 0x0D, 0x1D]);
    Spec { cfg, role, source, target, writes, request_first: rng.bytes(rf), vmess_option: vopt, max_chunk: 0x3FFF, now: 1_650_000_000 + rng.below(100_000_000) }
}

fn has_unauthenticated_padding(spec: &Spec) -> bool {
    match spec.cfg.proto {
        Proto::Vmess(_) => match spec.source {
            Source::Real => true, // the real encoders always negotiate GlobalPadding
            Source::Ref => matches!(spec.role, Role::ServerStream | Role::ServerDgram) && spec.vmess_option & 0x08 != 0 || matches!(spec.role, Role::ClientStream | Role::ClientDgram),
        },
        _ => false,
    }
}

fn judge(rep: &mut Report, spec: &Spec, seed: u64, index: u64, transport: &str, m: &Mutation, first_diff: usize, inst_frames: &[usize], inst_plain: &[usize], expected_stream: &[u8], expected_dgrams: &[Vec<u8>], rel: Released) {
    let proto = spec.cfg.proto.name();
    let base = format!("C05|{}|{:?}|{}|wire-from-{:?}|{}", transport, spec.role, proto, spec.source, m.family());
    let witness = |extra: serde_json::Value| json!({"seed": seed, "index": index, "spec": spec.describe(), "mutation": format!("{:?}", m).chars().take(200).collect::<String>(), "first_tampered_offset": first_diff, "frame_ends": &inst_frames[..inst_frames.len().min(24)], "frames": inst_frames.len(), "detail": extra});
    rep.mon("mutated_streams_delivered", 1);
    if let Some(p) = rel.panic {
        rep.violation(format!("{}|{}", base, p.signature()), format!("decoder panicked on a tampered stream: {}", p.message), witness(json!({"location": p.location})));
        return;
    }
    let frames_before = inst_frames.iter().filter(|e| **e <= first_diff).count();
    let dgram = spec.is_dgram();
    let strict_cutoff = !has_unauthenticated_padding(spec);
    if dgram {
        let n = rel.got.dgrams.len();
        rep.mon("released_datagrams_checked", n as u64);
        if n > expected_dgrams.len() || rel.got.dgrams[..] != expected_dgrams[..n] {
            rep.violation(format!("{}|released-datagrams-not-a-prefix", base), "datagrams released from a tampered stream are not a prefix of what the sender wrote", witness(json!({"released": n, "errors": rel.errors.iter().take(3).collect::<Vec<_>>()})));
        } else if strict_cutoff && n > frames_before {
            rep.violation(format!("{}|released-beyond-tamper-point", base), "a datagram at or after the first tampered frame was released", witness(json!({"released": n, "frames_before_tamper": frames_before})));
        }
    } else {
        let n = rel.got.stream.len();
        rep.mon("released_bytes_checked", n as u64);
        let cutoff = if frames_before == 0 { 0 } else { inst_plain[frames_before - 1] };
        if n > expected_stream.len() || rel.got.stream[..] != expected_stream[..n] {
            rep.violation(format!("{}|released-bytes-not-a-prefix", base), "bytes released from a tampered stream are not a prefix of what the sender wrote", witness(json!({"released": n, "cutoff": cutoff, "errors": rel.errors.iter().take(3).collect::<Vec<_>>()})));
        } else if strict_cutoff && n > cutoff {
            rep.violation(format!("{}|released-beyond-tamper-point", base), "plaintext at or after the first tampered frame was released", witness(json!({"released": n, "cutoff": cutoff, "errors": rel.errors.iter().take(3).collect::<Vec<_>>()})));
        }
    }
    if rel.released_after_error {
        rep.violation(format!("{}|released-after-a-decode-error", base), "the reader yielded further plaintext after it had reported a decode error", witness(json!({"errors": rel.errors.iter().take(3).map(|e| normalise(e)).collect::<Vec<_>>()})));
    }
}

fn one_case(seed: u64, i: u64, thorough: bool, rep: &mut Report, rt: &mut tokio::runtime::Runtime) {
    let mut rng = Rng::derive(seed, 0xC05, i);
    let spec = make_spec(&mut rng, i);
    if i < 3 {
        rep.sample(json!({"seed": seed, "index": i, "spec": spec.describe(), "mutation_families": ["bit-flip (every bit position of short streams; sampled otherwise)", "truncate (every point of short streams)", "delete/duplicate/swap/replay frame", "insert-bytes", "random-edit", "reflect-own-request"]}));
    }
    let probe = match spec.instantiate(&mut rng) {
        Ok(p) => p,
        Err(e) => {
            rep.inconclusive(format!("scenario could not be set up: {}", normalise(&e)));
            return;
        }
    };
    let len = probe.wire.len();
    let nf = probe.frame_ends.len();
    drop(probe);
    let mut muts: Vec<Mutation> = Vec::new();
    if len <= 400 {
        for p in 0..len + 16 {
            muts.push(Mutation::BitFlip(p, (p % 8) as u8));
            if thorough {
                muts.push(Mutation::BitFlip(p, ((p + 3) % 8) as u8));
            }
        }
        for n in 0..len {
            muts.push(Mutation::Truncate(n));
        }
    } else {
        for _ in 0..if thorough { 120 } else { 40 } {
            muts.push(Mutation::BitFlip(rng.range(0, len - 1), rng.below(8) as u8));
            muts.push(Mutation::Truncate(rng.range(0, len - 1)));
        }
    }
    for k in 0..nf {
        muts.push(Mutation::DeleteFrame(k));
        muts.push(Mutation::DuplicateFrame(k));
        muts.push(Mutation::SwapFrames(k));
        for at in k + 1..nf {
            muts.push(Mutation::ReplayFrame(k, at));
        }
        let n = rng.range(1, 40);
        muts.push(Mutation::InsertAtBoundary(k, rng.bytes(n)));
        // SIP004 has no direction marker (reflection decrypts by design); the property names SS2022 and VMess
        if !matches!(spec.cfg.proto, Proto::Ss(m) if !m.is_2022()) {
            muts.push(Mutation::Reflect(k));
        }
    }
    // VMess, length fields not authenticated (reference client with an option mask without AuthenticatedLength talking to
    // the real server): every chunk but the first replaced by a forged one that announces no payload
    if matches!(spec.cfg.proto, Proto::Vmess(_)) && matches!(spec.source, Source::Ref) && matches!(spec.role, Role::ServerStream) && spec.vmess_option & 0x10 == 0 {
        for k in 1..nf {
            let plain = spec.writes.get(k).map(|w| w.len()).unwrap_or(0);
            muts.push(Mutation::ForgeEmptyVmessChunk(k, plain, 0));
            muts.push(Mutation::ForgeEmptyVmessChunk(k, plain, 1));
        }
    }
    for _ in 0..if thorough { 60 } else { 20 } {
        let n = rng.range(1, 6);
        muts.push(Mutation::RandomEdit((0..n).map(|_| (rng.range(0, len - 1), rng.next_u32() as u8)).collect()));
    }
    // the answer (or request continuation) of ANOTHER connection under the same keys; SIP004 binds nothing to a connection
    // (the property names Shadowsocks 2022 and VMess). A server that is handed a whole foreign REQUEST from its first byte
    // simply sees another client (replays are C10's business): on the server side the splice starts behind the first frame.
    if !matches!(spec.cfg.proto, Proto::Ss(m) if !m.is_2022()) && !spec.is_dgram() {
        let first_keep = if matches!(spec.role, Role::ClientStream) { 0 } else { 1 };
        for keep in first_keep..nf.min(first_keep + 2) {
            muts.push(Mutation::ForeignConnection(keep, 0));
            for cut in 1..=140usize {
                if i % 4 == 0 || thorough || cut % 4 == (i % 4) as usize {
                    muts.push(Mutation::ForeignConnection(keep, cut));
                }
            }
        }
    }
    for (mi, m) in muts.iter().enumerate() {
        let inst = match spec.instantiate(&mut rng) {
            Ok(p) => p,
            Err(_) => continue,
        };
        let mut forced_cuts: Option<Vec<usize>> = None;
        let (wire, first_diff, eof) = if let Mutation::ForeignConnection(keep, cut) = m {
            let Ok(other) = spec.instantiate(&mut rng) else { continue };
            if *keep > inst.frame_ends.len() {
                continue;
            }
            let pos = if *keep == 0 { 0 } else { inst.frame_ends[*keep - 1] };
            let mut v = inst.wire[..pos].to_vec();
            v.extend_from_slice(&other.wire);
            forced_cuts = Some(if *cut == 0 || pos + cut >= v.len() { vec![] } else { vec![pos + cut] });
            rep.mon("foreign_connection_splices_delivered", 1);
            (v, pos, false)
        } else {
            match apply(&inst, m) {
                Some(x) => x,
                None => continue,
            }
        };
        let ws = mi % 7 == 3;
        let cuts = if let Some(c) = forced_cuts { c } else if mi % 2 == 0 { vec![] } else { gen::random_cuts(&mut rng, wire.len(), 4) };
        // the SIP022 first read must carry salt + fixed header: keep that prefix in one piece
        let cuts: Vec<usize> = cuts.into_iter().filter(|c| *c >= inst.exempt).collect();
        let pieces: Vec<Vec<u8>> = gen::pieces(wire.len(), &cuts).into_iter().map(|(s, e)| wire[s..e].to_vec()).collect();
        let Inst { dec, frame_ends, plain_ends, expected_stream, expected_dgrams, .. } = inst;
        let rel = collect(rt, dec, pieces, eof, ws);
        if rel.panic.is_some() {
            *rt = new_rt();
        }
        rep.case(&(i, mi), true);
        judge(rep, &spec, seed, i, if ws { "websocket" } else { "framed-read" }, m, first_diff, &frame_ends, &plain_ends, &expected_stream, &expected_dgrams, rel);
    }
}

/// Shadowsocks UDP datagrams: any change to a datagram must make it vanish entirely.
fn udp_case(seed: u64, i: u64, rep: &mut Report) {
    let mut rng = Rng::derive(seed, 0xC05D, i);
    let m = refimpl::ss::ALL_METHODS[(i % 7) as usize];
    let n_users = if m.supports_eih() && i % 2 == 0 { 2 } else { 0 };
    let cfg = Cfg::random(&mut rng, Proto::Ss(m), n_users);
    let now = 1_700_000_000;
    pin_clock(now);
    let keys = cfg.ref_client_keys();
    let server = match real::ss_udp_server(&cfg) {
        Ok(s) => s,
        Err(e) => {
            rep.inconclusive(format!("udp server context: {e}"));
            return;
        }
    };
    let mut client = real::ss_udp_client(&cfg);
    let target = gen::random_addr(&mut rng);
    let n = *rng.pick(&[0usize, 1, 20, 200]);
    let payload = rng.bytes(n);
    // client -> server datagram made by the reference
    let c2s = if m.is_2022() {
        let pad = if n == 0 { 5 } else { 0 };
        let p = ss::S22UdpPacket { session_id: rng.next_u64(), packet_id: 1, type_byte: 0, timestamp: now, client_session_id: None, padding: rng.bytes(pad), addr: target.clone(), payload: payload.clone() };
        ss::s22_udp_client_encode(m, &keys, &p, &rng.arr())
    } else {
        ss::sip004_udp_encode(m, &keys.psk, &rng.bytes(m.key_len()), &target, &payload)
    };
    // server -> client datagram made by the reference, addressed to this client's session
    let (csid, _, _) = client.session_ids();
    let from = refimpl::addr::Addr::V4(rng.arr(), 53);
    let s2c = if m.is_2022() {
        let pad = if n == 0 { 5 } else { 0 };
        let p = ss::S22UdpPacket { session_id: rng.next_u64(), packet_id: 7, type_byte: 1, timestamp: now, client_session_id: Some(csid), padding: rng.bytes(pad), addr: from.clone(), payload: payload.clone() };
        ss::s22_udp_server_encode(m, &keys.psk, &p, &rng.arr())
    } else {
        ss::sip004_udp_encode(m, &cfg.ref_server_psk(), &rng.bytes(m.key_len()), &from, &payload)
    };
    // a real client datagram too (reflection: the client must not accept its own request)
    let mut own = BytesMut::new();
    let _ = guarded(|| client.encode(&payload, &to_address(&target), &mut own));
    for (dir, wire) in [("client->server", &c2s), ("server->client", &s2c)] {
        let mut variants: Vec<(String, Vec<u8>)> = Vec::new();
        for p in 0..wire.len() {
            let mut v = wire.clone();
            v[p] ^= 1 << (p % 8);
            variants.push((format!("bit-flip@{p}"), v));
        }
        for cut in 0..wire.len() {
            variants.push((format!("truncate@{cut}"), wire[..cut].to_vec()));
        }
        let mut ext = wire.clone();
        ext.push(0);
        variants.push(("append-byte".into(), ext));
        for (name, v) in variants {
            let mut src = BytesMut::from(&v[..]);
            let r = if dir == "client->server" { guarded(|| server.decode(&mut src).map(|o| o.map(|d| d.payload))) } else { guarded(|| client.decode(&mut src).map(|o| o.map(|d| d.0))) };
            rep.evaluations += 1;
            rep.mon("mutated_datagrams_delivered", 1);
            match r {
                Ok(Some(p)) => {
                    let fam = name.split('@').next().unwrap_or("").to_string();
                    rep.violation(format!("C05|udp|{}|{}|{}|tampered-datagram-yields-an-item", dir, m.name(), fam), "a tampered datagram was not dropped", json!({"seed": seed, "index": i, "mutation": name, "released_len": p.len(), "cfg": cfg.describe()}));
                }
                Ok(None) => {}
                Err(crate::drive::Fail::Panic(p)) => {
                    rep.violation(format!("C05|udp|{}|{}|{}", dir, m.name(), p.signature()), format!("decoder panicked on a tampered datagram: {}", p.message), json!({"seed": seed, "index": i, "mutation": name, "cfg": cfg.describe()}));
                }
                Err(_) => {}
            }
        }
        rep.distinct.insert(0xD000_0000 + i * 2 + (dir == "client->server") as u64);
    }
    // crafted reflection: a datagram whose fields, read with the layout of the OPPOSITE direction, are still well-formed
    // (target 1.2.3.4:256 and a payload that starts like "padding length 0, IPv4 address, port"), so that only the
    // direction marker stands between the reflected datagram and its acceptance
    if m.is_2022() {
        let target = refimpl::addr::Addr::V4([1, 2, 3, 4], 0x0100);
        let mut payload = vec![0x00, 0x01, 10, 0, 0, 1, 0x1f, 0x90];
        payload.extend_from_slice(b"INJECTED");
        let mut crafted = BytesMut::new();
        let mut c2 = real::ss_udp_client(&cfg);
        if guarded(|| c2.encode(&payload, &to_address(&target), &mut crafted)).is_ok() && !crafted.is_empty() {
            let mut src = BytesMut::from(&crafted[..]);
            rep.evaluations += 1;
            rep.mon("crafted_reflections_delivered", 1);
            if let Ok(Some((data, from))) = guarded(|| c2.decode(&mut src)) {
                rep.violation(format!("C05|udp|reflect-crafted|{}|client-accepts-its-own-request", m.name()), "a client accepted its own reflected request datagram as a reply", json!({"seed": seed, "index": i, "cfg": cfg.describe(), "released": crate::report::hex_short(&data), "labelled_from": from.describe()}));
            }
        }
        // the mirror image: a reply to a client whose session id reads as "padding length 0, IPv4 address ...": reflected to the server
        let from = refimpl::addr::Addr::V4([9, 9, 9, 9], 53);
        let csid = 0x0000_017f_0000_0001u64;
        let users: Vec<Option<String>> = if cfg.users.is_empty() { vec![None] } else { cfg.users.iter().map(|u| Some(u.0.clone())).collect() };
        for u in users {
            let mut reply = BytesMut::new();
            if guarded(|| server.encode(b"hello from the target", &to_address(&from), csid, rng.next_u64(), 3, u.as_deref(), &mut reply)).is_ok() && !reply.is_empty() {
                let mut src = BytesMut::from(&reply[..]);
                rep.evaluations += 1;
                rep.mon("crafted_reflections_delivered", 1);
                if let Ok(Some(d)) = guarded(|| server.decode(&mut src)) {
                    rep.violation(format!("C05|udp|reflect-crafted|{}|server-accepts-its-own-reply", m.name()), "a server accepted its own reply datagram, reflected, as a client request", json!({"seed": seed, "index": i, "cfg": cfg.describe(), "decoded_target": d.addr.describe()}));
                }
            }
        }
    }
    // reflection / opposite-direction splicing
    if !own.is_empty() {
        let mut src = BytesMut::from(&own[..]);
        rep.evaluations += 1;
        rep.mon("reflected_datagrams_delivered", 1);
        if let Ok(Some(_)) = guarded(|| client.decode(&mut src)) {
            if m.is_2022() {
                rep.violation(format!("C05|udp|reflect|{}|client-accepts-its-own-request", m.name()), "a client accepted its own reflected request datagram as a reply", json!({"seed": seed, "index": i, "cfg": cfg.describe()}));
            } else {
                rep.note("legacy (SIP004) UDP has no direction marker: a reflected datagram decrypts (protocol-inherent, the property names SS2022 and VMess for reflection)");
            }
        }
        let mut src = BytesMut::from(&s2c[..]);
        rep.evaluations += 1;
        if let Ok(Some(_)) = guarded(|| server.decode(&mut src)) {
            if m.is_2022() {
                rep.violation(format!("C05|udp|reflect|{}|server-accepts-a-server-packet", m.name()), "a server accepted a server->client datagram as a request", json!({"seed": seed, "index": i, "cfg": cfg.describe()}));
            }
        }
    }
}

/// Streams long enough to take the chunk counters through their carries (and, for VMess, past the 16-bit counter the
/// protocol defines): reordering, duplication and deletion of frames around those positions must still be refused.
fn long_case(seed: u64, k: usize, proto: Proto, role: Role, rep: &mut Report, rt: &mut tokio::runtime::Runtime) {
    let mut rng = Rng::derive(seed, 0xC05F, k as u64);
    let cfg = Cfg::random(&mut rng, proto, 0);
    let n = 66_200usize;
    let writes: Vec<Vec<u8>> = (0..n).map(|j| vec![(j % 251) as u8 ^ (j / 251) as u8]).collect();
    let spec = Spec { cfg, role, source: Source::Real, target: gen::random_addr(&mut rng), writes, request_first: vec![7], vmess_option: 0x05, max_chunk: 0x3FFF, now: 1_700_000_000 };
    let vmess = matches!(proto, Proto::Vmess(_));
    let mut muts: Vec<Mutation> = Vec::new();
    for p in [126usize, 127, 128, 254, 255, 256, 32766, 32767, 32768, 65534, 65535, 65536, 65537, 65590] {
        muts.push(Mutation::SwapFrames(p));
    }
    for p in [0usize, 200, 65500, 65536, 65537, 65700] {
        muts.push(Mutation::SwapEqualLenFrames(p));
    }
    for p in [255usize, 65535, 65536, 65540] {
        muts.push(Mutation::DuplicateFrame(p));
        muts.push(Mutation::DeleteFrame(p));
    }
    // replaying frame k at position k + 65536 is accepted by VMess BY PROTOCOL (16-bit counter): not presented there
    if !vmess {
        muts.push(Mutation::ReplayFrame(0, 65535));
        muts.push(Mutation::ReplayFrame(3, 65538));
    }
    muts.push(Mutation::ReplayFrame(65530, 65541));
    for (mi, m) in muts.iter().enumerate() {
        let inst = match spec.instantiate(&mut rng) {
            Ok(p) => p,
            Err(e) => {
                rep.inconclusive(format!("long scenario could not be set up: {}", normalise(&e)));
                return;
            }
        };
        let Some((wire, first_diff, eof)) = apply(&inst, m) else { continue };
        let Inst { dec, frame_ends, plain_ends, expected_stream, expected_dgrams, .. } = inst;
        let rel = collect(rt, dec, vec![wire], eof, false);
        if rel.panic.is_some() {
            *rt = new_rt();
        }
        rep.case(&("long", k, mi), true);
        rep.mon("long_stream_mutations", 1);
        let mut short = spec.clone();
        short.writes.truncate(4);
        judge(rep, &short, seed, 0xF000_0000 + k as u64, "framed-read-long-stream", m, first_diff, &frame_ends, &plain_ends, &expected_stream, &expected_dgrams, rel);
    }
}

pub fn run(a: &Args) -> Report {
    let n = a.n(220, 3000);
    let seed = a.seed;
    let thorough = a.thorough;
    let only: Option<u64> = a.sub.as_ref().and_then(|s| s.strip_prefix("only=").and_then(|x| x.parse().ok()));
    let mut rep = parallel(n, a.threads, |i, rep| {
        if let Some(o) = only {
            if o != i as u64 {
                return;
            }
        }
        thread_local! { static RT: std::cell::RefCell<Option<tokio::runtime::Runtime>> = const { std::cell::RefCell::new(None) }; }
        RT.with(|cell| {
            let mut g = cell.borrow_mut();
            if g.is_none() {
                *g = Some(new_rt());
            }
            one_case(seed, i as u64, thorough, rep, g.as_mut().unwrap());
        });
    });
    let nu = a.n(70, 700);
    let r2 = parallel(nu, a.threads, |i, rep| udp_case(seed, i as u64, rep));
    rep.merge(r2);
    let mut longs: Vec<(Proto, Role)> = vec![(Proto::Vmess(3), Role::ServerStream), (Proto::Vmess(4), Role::ClientStream), (Proto::Ss(refimpl::ss::Method::B3Aes256Gcm), Role::ServerStream)];
    if a.thorough {
        longs.extend([(Proto::Vmess(3), Role::ClientStream), (Proto::Vmess(4), Role::ServerStream), (Proto::Ss(refimpl::ss::Method::Aes128Gcm), Role::ClientStream), (Proto::Ss(refimpl::ss::Method::ChaCha20IetfPoly1305), Role::ServerStream), (Proto::Ss(refimpl::ss::Method::B3ChaCha20Poly1305), Role::ClientStream)]);
    }
    if a.scale >= 0.5 && only.is_none() {
        let r3 = parallel(longs.len(), a.threads, |k, rep| {
            let mut rt = new_rt();
            long_case(seed, k, longs[k].0, longs[k].1, rep, &mut rt);
        });
        rep.merge(r3);
    }
    rep
}
