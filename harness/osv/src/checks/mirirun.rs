//! Workload for the undefined-behaviour interpreter (Miri): a small, deterministic tour of every real encoder and
//! decoder (all ciphers, both roles, streams and datagrams, valid and damaged input), sized for an interpreter that
//! is about four orders of magnitude slower than native code. The monitor is Miri itself (uninitialised reads,
//! out-of-bounds and misaligned accesses, invalid values, data races between the two threads of the last scenario);
//! round-trip equality is asserted as well so that a silent corruption is not missed.
//!
//!   osv-codec miri --sub <shard>/<shards>      (scenario i runs in shard i % shards)

use bytes::BytesMut;
use serde_json::json;

use super::{pin_clock, Args};
use crate::drive::{drain_client, drain_client_dgram, drain_server, guarded};
use crate::gen;
use crate::prng::Rng;
use crate::real::{self, all_protos, to_address, Cfg, Proto, SrvItem};
use crate::report::Report;

const NOW: u64 = 1_700_000_000;

fn fail(rep: &mut Report, scenario: &str, what: impl Into<String>) {
    let what = what.into();
    rep.violation(format!("miri-workload|{}|{}", scenario, crate::panicmon::normalise(&what)), format!("{scenario}: {what}"), json!({"scenario": scenario}));
}

/// One TCP flow through the real codecs of both sides, the request delivered in three pieces.
fn stream_scenario(rep: &mut Report, proto: Proto, users: usize, k: u64) {
    let name = format!("stream/{}/users={}", proto.name(), users);
    let mut rng = Rng::derive(7, 0x3141, k);
    let cfg = Cfg::random(&mut rng, proto, users);
    pin_clock(NOW);
    let target = gen::random_addr(&mut rng);
    let (Ok(csh), Ok(ssh)) = (real::client_shared(&cfg), real::server_shared(&cfg)) else {
        rep.inconclusive(format!("{name}: contexts"));
        return;
    };
    let (Ok(mut client), Ok(mut server)) = (real::client_codec(&cfg, &csh, &to_address(&target)), real::server_codec(&cfg, &ssh)) else {
        rep.inconclusive(format!("{name}: codecs"));
        return;
    };
    let writes: Vec<Vec<u8>> = vec![vec![], rng.bytes(1), rng.bytes(700), rng.bytes(17)];
    let mut wire = BytesMut::new();
    for w in &writes {
        if let Err(e) = guarded(|| client.encode(w, &mut wire)) {
            fail(rep, &name, format!("client encode: {}", e.describe()));
            return;
        }
        rep.evaluations += 1;
    }
    let expect: Vec<u8> = writes.concat();
    let all = wire.to_vec();
    let cuts = [all.len() / 3, 2 * all.len() / 3, all.len()];
    let mut buf = BytesMut::new();
    let mut got = Vec::new();
    let mut start = 0;
    for c in cuts {
        buf.extend_from_slice(&all[start..c]);
        start = c;
        let d = drain_server(server.as_mut(), &mut buf, true);
        rep.evaluations += 1;
        for it in d.items {
            match it {
                SrvItem::Connect(b, _) | SrvItem::Tcp(b) => got.extend_from_slice(&b),
                SrvItem::Udp(..) => {}
            }
        }
        if let Some(f) = d.stop {
            fail(rep, &name, format!("server decode: {}", f.describe()));
            return;
        }
    }
    if got != expect {
        fail(rep, &name, format!("request round trip differs ({} of {} bytes)", got.len(), expect.len()));
    }
    // the answer
    let answers: Vec<Vec<u8>> = vec![rng.bytes(2), rng.bytes(900)];
    let mut wire = BytesMut::new();
    for w in &answers {
        if let Err(e) = guarded(|| server.encode_tcp(w, &mut wire)) {
            fail(rep, &name, format!("server encode: {}", e.describe()));
            return;
        }
        rep.evaluations += 1;
    }
    let all = wire.to_vec();
    let mut buf = BytesMut::new();
    let mut got = Vec::new();
    for piece in [&all[..all.len() / 2], &all[all.len() / 2..]] {
        buf.extend_from_slice(piece);
        let d = drain_client(client.as_mut(), &mut buf, true);
        rep.evaluations += 1;
        for it in d.items {
            got.extend_from_slice(&it);
        }
        if let Some(f) = d.stop {
            fail(rep, &name, format!("client decode: {}", f.describe()));
            return;
        }
    }
    if got != answers.concat() {
        fail(rep, &name, format!("answer round trip differs ({} of {} bytes)", got.len(), answers.concat().len()));
    }
    // damaged request into a fresh server codec: any verdict but a crash
    if let Ok(mut s2) = real::server_codec(&cfg, &ssh) {
        let mut bad = all.clone();
        if bad.len() > 40 {
            bad[37] ^= 0x10;
        }
        let mut b = BytesMut::from(&bad[..]);
        let _ = drain_server(s2.as_mut(), &mut b, true);
        let mut b = BytesMut::from(&all[..all.len().min(20)]);
        let _ = drain_server(s2.as_mut(), &mut b, true);
        rep.evaluations += 2;
    }
    rep.mon("stream_scenarios", 1);
    rep.distinct.insert(crate::report::hash_of(&name));
}

/// Shadowsocks UDP both ways through the real codecs, plus damaged datagrams.
fn udp_scenario(rep: &mut Report, m: refimpl::ss::Method, users: usize, k: u64) {
    let name = format!("ss-udp/{}/users={}", m.name(), users);
    let mut rng = Rng::derive(7, 0x2718, k);
    let cfg = Cfg::random(&mut rng, Proto::Ss(m), users);
    pin_clock(NOW);
    let Ok(server) = real::ss_udp_server(&cfg) else {
        rep.inconclusive(format!("{name}: server context"));
        return;
    };
    let mut client = real::ss_udp_client(&cfg);
    for (j, n) in [0usize, 1, 300].iter().enumerate() {
        let payload = rng.bytes(*n);
        let target = gen::random_addr(&mut rng);
        let mut d = BytesMut::new();
        if let Err(e) = guarded(|| client.encode(&payload, &to_address(&target), &mut d)) {
            fail(rep, &name, format!("client encode: {}", e.describe()));
            return;
        }
        let wire = d.to_vec();
        let dec = guarded(|| server.decode(&mut d));
        rep.evaluations += 2;
        let Ok(Some(x)) = dec else {
            fail(rep, &name, format!("server cannot decode the client's datagram #{j}"));
            return;
        };
        if x.payload != payload || x.addr != target {
            fail(rep, &name, "client->server datagram differs after the round trip");
        }
        let from = refimpl::addr::Addr::V4(rng.arr(), 53);
        let mut r = BytesMut::new();
        if let Err(e) = guarded(|| server.encode(&payload, &to_address(&from), x.client_session_id, 77, j as u64 + 1, x.user.as_deref(), &mut r)) {
            fail(rep, &name, format!("server encode: {}", e.describe()));
            return;
        }
        let back = guarded(|| client.decode(&mut r));
        rep.evaluations += 2;
        match back {
            Ok(Some((p, a))) if p == payload && a == from => {}
            Ok(other) => fail(rep, &name, format!("server->client datagram differs after the round trip: {:?}", other.map(|x| x.0.len()))),
            Err(e) => fail(rep, &name, format!("client decode: {}", e.describe())),
        }
        if j == 2 {
            // damaged copies: flipped, truncated, runt - to both decoders
            for v in [
                {
                    let mut v = wire.clone();
                    let i = v.len() / 2;
                    v[i] ^= 1;
                    v
                },
                wire[..wire.len() - 3].to_vec(),
                wire[..wire.len().min(20)].to_vec(),
                vec![],
            ] {
                let mut b = BytesMut::from(&v[..]);
                let _ = guarded(|| server.decode(&mut b));
                let mut b = BytesMut::from(&v[..]);
                let _ = guarded(|| client.decode(&mut b));
                rep.evaluations += 2;
            }
        }
    }
    rep.mon("udp_scenarios", 1);
    rep.distinct.insert(crate::report::hash_of(&name));
}

/// VMess / Trojan datagram-in-stream.
fn dgram_scenario(rep: &mut Report, proto: Proto, k: u64) {
    let name = format!("dgram-in-stream/{}", proto.name());
    let mut rng = Rng::derive(7, 0x1618, k);
    let cfg = Cfg::random(&mut rng, proto, 1);
    pin_clock(NOW);
    let target = gen::random_addr(&mut rng);
    let Ok(ssh) = real::server_shared(&cfg) else { return };
    let (Ok(mut client), Ok(mut server)) = (real::client_dgram_codec(&cfg, &to_address(&target)), real::server_codec(&cfg, &ssh)) else {
        rep.inconclusive(format!("{name}: codecs"));
        return;
    };
    let grams: Vec<Vec<u8>> = vec![rng.bytes(1), rng.bytes(1200), rng.bytes(40)];
    let mut wire = BytesMut::new();
    for g in &grams {
        if let Err(e) = guarded(|| client.encode(g, &to_address(&target), &mut wire)) {
            fail(rep, &name, format!("client encode: {}", e.describe()));
            return;
        }
        rep.evaluations += 1;
    }
    let d = drain_server(server.as_mut(), &mut wire, true);
    rep.evaluations += 1;
    let got: Vec<Vec<u8>> = d.items.iter().filter_map(|i| if let SrvItem::Udp(b, _) = i { Some(b.clone()) } else { None }).collect();
    if got != grams {
        fail(rep, &name, format!("datagrams differ after the round trip ({} of {})", got.len(), grams.len()));
    }
    let mut back = BytesMut::new();
    for g in &grams {
        if let Err(e) = guarded(|| server.encode_udp(g, "127.0.0.1:53".parse().unwrap(), &mut back)) {
            fail(rep, &name, format!("server encode: {}", e.describe()));
            return;
        }
        rep.evaluations += 1;
    }
    let d = drain_client_dgram(client.as_mut(), &mut back, true);
    rep.evaluations += 1;
    let got: Vec<Vec<u8>> = d.items.iter().map(|i| i.0.clone()).collect();
    if got != grams {
        fail(rep, &name, format!("reply datagrams differ after the round trip ({} of {})", got.len(), grams.len()));
    }
    rep.mon("dgram_scenarios", 1);
    rep.distinct.insert(crate::report::hash_of(&name));
}

/// Well-authenticated but malformed frames (the generators of the crash monitor, C07), a handful per decoder.
fn malformed_scenario(rep: &mut Report, proto: Proto, role: crate::scn::Role, k: u64, limit: usize) {
    let name = format!("authenticated-malformed/{}/{:?}", proto.name(), role);
    let mut rng = Rng::derive(7, 0x4d41, k);
    let users = if matches!(proto, Proto::Vmess(_)) { 1 } else { 0 };
    let cfg = Cfg::random(&mut rng, proto, users);
    pin_clock(NOW);
    let target = gen::random_addr(&mut rng);
    let before = rep.evaluations;
    super::c07::authenticated_malformed_sampled(7, k, &cfg, role, &target, NOW, &mut rng, rep, &name, 9, limit);
    rep.mon("malformed_frames_under_miri", rep.evaluations - before);
    rep.distinct.insert(crate::report::hash_of(&name));
}

/// The local decoders and small helpers with unsafe code behind them.
fn local_scenario(rep: &mut Report) {
    use octo_squirrel::protocol::socks5::codec::*;
    use tokio_util::codec::Decoder;
    let mut rng = Rng::derive(7, 0x5050, 0);
    let mut inputs: Vec<Vec<u8>> = vec![vec![], vec![5], vec![5, 1, 0], vec![5, 1, 0, 3, 3, b'a', b'b', b'c', 0, 80], vec![5, 1, 0, 1, 127, 0, 0, 1, 0, 80], vec![5, 1, 0, 4], vec![5, 1, 0, 3, 0, 0, 80], vec![0, 0, 0, 1, 1, 2, 3, 4, 0, 53, 9, 9], vec![0, 0, 1, 1], vec![0, 0, 0, 3, 200, 1]];
    for _ in 0..10 {
        let n = rng.range(0, 24);
        inputs.push(rng.bytes(n));
    }
    for i in &inputs {
        let _ = crate::panicmon::catch(|| Socks5InitialRequestDecoder.decode(&mut BytesMut::from(&i[..])).map(|_| ()));
        let _ = crate::panicmon::catch(|| Socks5CommandRequestDecoder.decode(&mut BytesMut::from(&i[..])).map(|_| ()));
        let _ = crate::panicmon::catch(|| Socks5InitialResponseDecoder.decode(&mut BytesMut::from(&i[..])).map(|_| ()));
        let _ = crate::panicmon::catch(|| Socks5CommandResponseDecoder.decode(&mut BytesMut::from(&i[..])).map(|_| ()));
        let _ = crate::panicmon::catch(|| Socks5UdpCodec.decode(&mut BytesMut::from(&i[..])).map(|_| ()));
        rep.evaluations += 5;
    }
    for t in ["http://a/", "http://[::1]:8080/x?y", "a:443", "", "http://", "[", "http://é:1/", "*"] {
        for m in ["GET", "CONNECT"] {
            let _ = crate::panicmon::catch(|| octo_squirrel_client::client::verif::recognize_http(m, t).map(|_| ()));
            rep.evaluations += 1;
        }
    }
    // replay window
    let mut f = octo_squirrel::manager::packet_window::PacketWindowFilter::new();
    let mut accepted = std::collections::BTreeSet::new();
    for _ in 0..300 {
        let id = match rng.below(4) {
            0 => rng.below(70),
            1 => 8000 + rng.below(400),
            2 => u64::MAX - rng.below(9000),
            _ => rng.below(20000),
        };
        let a = f.validate_packet_id(id, u64::MAX);
        if a && !accepted.insert(id) {
            fail(rep, "local", format!("packet id {id} accepted twice"));
        }
        rep.evaluations += 1;
    }
    rep.mon("local_scenarios", 1);
    rep.distinct.insert(crate::report::hash_of(&"local"));
}

/// Two threads on the state real flows share (one server UDP codec and user table, the process-wide cipher cache).
fn race_scenario(rep: &mut Report) {
    let mut rng = Rng::derive(7, 0x7ace, 0);
    let m = refimpl::ss::Method::B3Aes128Gcm;
    let cfg = Cfg::random(&mut rng, Proto::Ss(m), 2);
    pin_clock(NOW);
    let Ok(server) = real::ss_udp_server(&cfg) else { return };
    let server = std::sync::Arc::new(server);
    let mut hs = Vec::new();
    for t in 0..2u64 {
        let server = server.clone();
        let cfg = cfg.clone();
        hs.push(std::thread::spawn(move || {
            pin_clock(NOW);
            let mut ok = 0;
            let mut client = real::ss_udp_client(&cfg);
            for j in 0..3u8 {
                let mut d = BytesMut::new();
                let target = refimpl::addr::Addr::V4([10, 0, t as u8, j], 53);
                if client.encode(&[j; 50], &to_address(&target), &mut d).is_ok() {
                    if let Ok(Some(x)) = server.decode(&mut d) {
                        if x.payload == [j; 50] {
                            ok += 1;
                        }
                    }
                }
            }
            ok
        }));
    }
    let mut total = 0;
    for h in hs {
        total += h.join().unwrap_or(0);
    }
    rep.evaluations += 12;
    if total != 6 {
        fail(rep, "race", format!("only {total} of 6 concurrent datagrams round-tripped"));
    }
    // the shared TCP replay context from two threads
    if let Ok(ssh) = real::server_shared(&Cfg::random(&mut rng, Proto::Ss(refimpl::ss::Method::B3ChaCha20Poly1305), 0)) {
        let _ = ssh;
    }
    rep.mon("race_scenarios", 1);
    rep.distinct.insert(crate::report::hash_of(&"race"));
}

pub fn run(a: &Args) -> Report {
    let (shard, shards) = a.sub.as_deref().and_then(|s| s.split_once('/')).and_then(|(x, y)| Some((x.parse::<usize>().ok()?, y.parse::<usize>().ok()?))).unwrap_or((0, 1));
    let mut rep = Report::new();
    if shards == 0 {
        return rep; // build warm-up
    }
    let mut scenarios: Vec<Box<dyn Fn(&mut Report)>> = Vec::new();
    let mut k = 0u64;
    for p in all_protos() {
        for users in [0usize, 2] {
            let multi = match p {
                Proto::Ss(m) => m.supports_eih(),
                Proto::Vmess(_) => true,
                Proto::Trojan => false,
            };
            if users == 2 && !multi {
                continue;
            }
            k += 1;
            let kk = k;
            scenarios.push(Box::new(move |r| stream_scenario(r, p, users, kk)));
        }
    }
    for m in refimpl::ss::ALL_METHODS {
        for users in [0usize, 2] {
            if users == 2 && !m.supports_eih() {
                continue;
            }
            k += 1;
            let kk = k;
            scenarios.push(Box::new(move |r| udp_scenario(r, m, users, kk)));
        }
    }
    for p in [Proto::Vmess(3), Proto::Vmess(4), Proto::Trojan] {
        k += 1;
        let kk = k;
        scenarios.push(Box::new(move |r| dgram_scenario(r, p, kk)));
    }
    // the thorough tier (scale >= 1) adds the authenticated-malformed generators for every decoder role
    if a.scale >= 1.0 {
        use crate::scn::Role;
        for p in all_protos() {
            for role in [Role::ServerStream, Role::ClientStream, Role::ServerDgram, Role::ClientDgram] {
                if matches!(p, Proto::Ss(_)) && matches!(role, Role::ServerDgram | Role::ClientDgram) {
                    continue;
                }
                k += 1;
                let kk = k;
                scenarios.push(Box::new(move |r| malformed_scenario(r, p, role, kk, 10)));
            }
        }
    }
    scenarios.push(Box::new(local_scenario));
    scenarios.push(Box::new(race_scenario));
    for (i, s) in scenarios.iter().enumerate() {
        if i % shards == shard {
            s(&mut rep);
        }
    }
    if shard == 0 {
        rep.sample(json!({"scenarios": scenarios.len(), "kinds": ["stream/<protocol>/<users>: 4 writes encoded by the real client codec, decoded in 3 pieces by the real server codec, 2 answers back in 2 pieces, damaged copies", "ss-udp/<cipher>/<users>: 3 datagrams each way through the real UDP codecs (empty payload = padding path), flipped / truncated / runt copies to both decoders", "dgram-in-stream/<protocol>", "local decoders, request-target extraction, replay window", "two threads on the shared UDP codec and cipher cache"], "monitor": "Miri (verdict classes: uninitialised read, out-of-bounds, misaligned, invalid value, data race); aliasing model off"}));
    }
    rep
}
