//! C13 - local SOCKS5 and HTTP handshakes yield exactly the requested target.
//! The real `get_request_addr` runs on a loopback socket pair. A scripted application sends the request
//! (whole, cut at every byte position, byte by byte), follows the protocol phases, verifies the replies and
//! then sends payload; the harness compares the address returned with an independent parse of the request
//! (refimpl::http / RFC 1928) and reads what is left on the socket: exactly the payload for SOCKS5 and
//! CONNECT, the untouched request for plain HTTP. Malformed or unsupported requests must be refused.

use std::time::Duration;

use octo_squirrel::protocol::address::Address;
use serde_json::json;
use tokio::io::{AsyncReadExt, AsyncWriteExt};

use super::Args;
use crate::panicmon;
use crate::prng::Rng;
use crate::real::from_address;
use crate::report::{hex_short, parallel, Report};

#[derive(Clone, Debug)]
enum Kind {
    Socks5,
    Connect,
    Plain,
}

#[derive(Clone, Debug)]
struct Case {
    kind: Kind,
    /// protocol phases: the application waits for the reply to a phase before sending the next one
    phases: Vec<Vec<u8>>,
    /// cut positions inside the phase given by `cut_phase` (delivered as separate segments, 25 ms apart)
    cut_phase: usize,
    cuts: Vec<usize>,
    payload: Vec<u8>,
    /// None = must be refused
    expect: Option<(String, u16)>,
    label: String,
    /// 0 = the application waits for every reply; 1 = its first tunnel bytes travel in the same segment as the last
    /// phase of the handshake (a client that does not wait for the final reply); 2 = all phases and the first tunnel
    /// bytes in one segment
    early: u8,
}

struct Outcome {
    result: Result<Address, String>,
    /// what the harness could still read from the accepted socket after the handshake returned
    leftover: Vec<u8>,
    replies: Vec<Vec<u8>>,
}

async fn run_case(c: &Case) -> Result<Outcome, String> {
    let l = tokio::net::TcpListener::bind("127.0.0.1:0").await.map_err(|e| e.to_string())?;
    let addr = l.local_addr().map_err(|e| e.to_string())?;
    let cc = c.clone();
    let app = tokio::spawn(async move {
        let mut replies: Vec<Vec<u8>> = Vec::new();
        let Ok(mut s) = tokio::net::TcpStream::connect(addr).await else { return replies };
        let _ = s.set_nodelay(true);
        let mut buf = vec![0u8; 2048];
        if cc.early == 2 {
            let all = [cc.phases.concat(), cc.payload.clone()].concat();
            if s.write_all(&all).await.is_err() {
                return replies;
            }
            // collect whatever comes back (the replies of all phases may arrive in one or several reads)
            let mut got = Vec::new();
            while let Ok(Ok(n)) = tokio::time::timeout(Duration::from_millis(400), s.read(&mut buf)).await {
                if n == 0 {
                    break;
                }
                got.extend_from_slice(&buf[..n]);
            }
            if matches!(cc.kind, Kind::Socks5) && got.len() >= 2 {
                replies.push(got[..2].to_vec());
                replies.push(got[2..].to_vec());
            } else if !got.is_empty() {
                replies.push(got);
            }
            return replies;
        }
        for (k, phase) in cc.phases.iter().enumerate() {
            let last = k + 1 == cc.phases.len();
            if cc.early == 1 && last {
                let both = [phase.clone(), cc.payload.clone()].concat();
                if s.write_all(&both).await.is_err() {
                    return replies;
                }
                if let Ok(Ok(n)) = tokio::time::timeout(Duration::from_millis(1500), s.read(&mut buf)).await {
                    if n > 0 {
                        replies.push(buf[..n].to_vec());
                    }
                }
                tokio::time::sleep(Duration::from_millis(400)).await;
                return replies;
            }
            if k == cc.cut_phase && !cc.cuts.is_empty() {
                let mut start = 0;
                for cut in cc.cuts.iter().chain(std::iter::once(&phase.len())) {
                    if *cut > start && *cut <= phase.len() {
                        if s.write_all(&phase[start..*cut]).await.is_err() {
                            return replies;
                        }
                        start = *cut;
                        tokio::time::sleep(Duration::from_millis(25)).await;
                    }
                }
            } else if s.write_all(phase).await.is_err() {
                return replies;
            }
            if cc.early == 3 && last {
                // the sender has said all it has to say: it closes its writing side right behind the request and reads on
                let _ = s.shutdown().await;
            }
            // wait for this phase's reply (plain HTTP has none)
            if !matches!(cc.kind, Kind::Plain) {
                match tokio::time::timeout(Duration::from_millis(1500), s.read(&mut buf)).await {
                    Ok(Ok(n)) if n > 0 => replies.push(buf[..n].to_vec()),
                    _ => return replies,
                }
            }
        }
        if cc.early != 3 {
            let _ = s.write_all(&cc.payload).await;
        }
        tokio::time::sleep(Duration::from_millis(400)).await;
        replies
    });
    let (mut inbound, _) = l.accept().await.map_err(|e| e.to_string())?;
    let r = tokio::time::timeout(Duration::from_secs(10), octo_squirrel_client::client::verif::get_request_addr(&mut inbound)).await;
    let result = match r {
        Err(_) => Err("no result within 10 s".to_string()),
        Ok(Ok(a)) => Ok(a),
        Ok(Err(e)) => Err(format!("{e:#}")),
    };
    let mut leftover = Vec::new();
    if result.is_ok() {
        let mut buf = vec![0u8; 8192];
        loop {
            match tokio::time::timeout(Duration::from_millis(250), inbound.read(&mut buf)).await {
                Ok(Ok(n)) if n > 0 => leftover.extend_from_slice(&buf[..n]),
                _ => break,
            }
        }
    }
    drop(inbound);
    let replies = app.await.unwrap_or_default();
    Ok(Outcome { result, leftover, replies })
}

fn judge(rep: &mut Report, c: &Case, o: Outcome, seed: u64, idx: u64) {
    let kind = format!("{:?}", c.kind);
    let seg = if c.early == 1 { "early-data" } else if c.early == 2 { "all-in-one-segment" } else if c.early == 3 { "sender-half-closes-behind-the-request" } else if c.cuts.is_empty() { "whole" } else if c.cuts.len() == 1 { "one-cut" } else { "many-cuts" };
    let w = |extra: serde_json::Value| json!({"seed": seed, "index": idx, "label": c.label, "request": c.phases.iter().map(|p| String::from_utf8_lossy(p).chars().take(160).collect::<String>()).collect::<Vec<_>>(), "request_hex": c.phases.iter().map(|p| hex_short(p)).collect::<Vec<_>>(), "cuts": c.cuts, "detail": extra});
    rep.mon("handshakes_run", 1);
    match (&c.expect, &o.result) {
        (None, Ok(a)) => {
            rep.violation(format!("C13|{}|{}|{}|unsupported-or-malformed-request-accepted", kind, c.label, seg), format!("a request that must be refused yields a tunnel to {}", from_address(a).describe()), w(json!({"got": from_address(a).describe()})));
        }
        (None, Err(_)) => rep.mon("refusals_observed", 1),
        (Some((h, p)), Err(e)) => {
            rep.violation(format!("C13|{}|{}|{}|well-formed-request-refused", kind, c.label, seg), format!("well-formed request for {h}:{p} refused: {e}"), w(json!({"error": e})));
        }
        (Some((h, p)), Ok(a)) => {
            let got = from_address(a);
            let (gh, gp) = match &got {
                refimpl::addr::Addr::Domain(n, p) => (String::from_utf8_lossy(n).to_string(), *p),
                refimpl::addr::Addr::V4(ip, p) => (format!("{}.{}.{}.{}", ip[0], ip[1], ip[2], ip[3]), *p),
                refimpl::addr::Addr::V6(ip, p) => (std::net::Ipv6Addr::from(*ip).to_string(), *p),
            };
            let host_eq = gh == *h || (h.starts_with('[') && gh == h[1..h.len() - 1]) || (gh.starts_with('[') && *h == gh[1..gh.len() - 1]) || std::net::IpAddr::from(std::net::Ipv6Addr::LOCALHOST).to_string() == gh && h == "[::1]";
            rep.mon("targets_compared", 1);
            if !host_eq || gp != *p {
                rep.violation(format!("C13|{}|{}|{}|tunnel-to-a-different-target", kind, c.label, seg), format!("request names {h}:{p} but the client would tunnel to {gh}:{gp}"), w(json!({"want": format!("{h}:{p}"), "got": format!("{gh}:{gp}")})));
                return;
            }
            // exact consumption
            let want_left: Vec<u8> = match c.kind {
                Kind::Plain => [c.phases.concat(), c.payload.clone()].concat(),
                _ => c.payload.clone(),
            };
            if o.leftover != want_left {
                let sym = if o.leftover.len() > want_left.len() { "handshake-bytes-leak-into-the-tunnel" } else if matches!(c.kind, Kind::Plain) { "plain-http-request-not-forwarded-untouched" } else { "payload-bytes-swallowed-by-the-handshake" };
                rep.violation(format!("C13|{}|{}|{}|{}", kind, c.label, seg, sym), format!("after the handshake {} bytes are left for the tunnel, expected {}", o.leftover.len(), want_left.len()), w(json!({"leftover": hex_short(&o.leftover), "expected": hex_short(&want_left)})));
                return;
            }
            // protocol replies
            let ok = match c.kind {
                Kind::Socks5 => o.replies.len() == 2 && o.replies[0] == [5, 0] && o.replies[1].len() >= 10 && o.replies[1][..3] == [5, 0, 0],
                Kind::Connect => o.replies.len() == 1 && o.replies[0].starts_with(b"HTTP/1.1 200") && o.replies[0].ends_with(b"\r\n\r\n"),
                Kind::Plain => true,
            };
            if !ok {
                rep.violation(format!("C13|{}|{}|{}|wrong-protocol-reply", kind, c.label, seg), "the replies to the application are not what the protocol requires".to_string(), w(json!({"replies": o.replies.iter().map(|r| hex_short(r)).collect::<Vec<_>>()})));
            }
        }
    }
}

fn socks5_case(atyp: u8, host: &[u8], port: u16, label: &str, expect: Option<(String, u16)>) -> Case {
    let mut req = vec![5, 1, 0, atyp];
    if atyp == 3 {
        req.push(host.len() as u8);
    }
    req.extend_from_slice(host);
    req.extend_from_slice(&port.to_be_bytes());
    Case { kind: Kind::Socks5, phases: vec![vec![5, 1, 0], req], cut_phase: 1, cuts: vec![], payload: b"PAYLOAD-after-socks".to_vec(), expect, label: label.into(), early: 0 }
}

fn http_case(method: &str, target: &str, headers_len: usize, label: &str) -> Case {
    let expect = refimpl::http::expected_target(method, target);
    let mut head = format!("{method} {target} HTTP/1.1\r\nHost: ignored.example\r\nUser-Agent: osv\r\n");
    if headers_len > 0 {
        head.push_str(&format!("X-Filler: {}\r\n", "f".repeat(headers_len)));
    }
    head.push_str("\r\n");
    let kind = if method == "CONNECT" { Kind::Connect } else { Kind::Plain };
    Case { kind, phases: vec![head.into_bytes()], cut_phase: 0, cuts: vec![], payload: b"PAYLOAD-after-http".to_vec(), expect, label: label.into(), early: 0 }
}

fn grammar() -> Vec<Case> {
    let mut v = Vec::new();
    let hosts = ["a", "a.b", "example.org", &"x".repeat(63), "127.0.0.1", "10.1.2.3", "[::1]", "[2001:db8::1]", "[::ffff:1.2.3.4]"];
    let ports = ["", ":1", ":80", ":8080", ":65535"];
    let paths = ["", "/", "/a/b", "/a:b", "/x://y", "/p/", "/@scope/pkg", "/u:p@h:9/c"];
    let queries = ["", "?a=b", "?u=http://h:1/", "?a?b", "?x=/", "?mail=bob@files.example.net", "?r=@h:81/"];
    for method in ["GET", "POST", "PUT", "OPTIONS", "HEAD"] {
        for h in hosts {
            for p in ports {
                for path in paths {
                    for q in queries {
                        let t = format!("http://{h}{p}{path}{q}");
                        v.push(http_case(method, &t, 0, "absolute-uri"));
                    }
                }
            }
        }
    }
    for h in hosts {
        for p in ports {
            v.push(http_case("CONNECT", &format!("{h}{p}"), 0, if p.is_empty() { "connect-without-port" } else { "connect" }));
        }
    }
    // malformed / unsupported HTTP
    for (m, t, l) in [
        ("GET", "/index.html", "origin-form"),
        ("GET", "*", "asterisk-form"),
        ("OPTIONS", "*", "asterisk-form"),
        ("GET", "http://:80/", "empty-host"),
        ("GET", "http:///path", "empty-authority"),
        ("GET", "http://h:99999/", "port-out-of-range"),
        ("GET", "http://h:http/", "non-numeric-port"),
        ("GET", "http://[::1/", "unbalanced-bracket"),
        ("GET", "example.org/path", "missing-scheme"),
        ("CONNECT", "h:99999", "port-out-of-range"),
        ("CONNECT", "h:", "empty-port"),
        ("CONNECT", ":443", "empty-host"),
        ("CONNECT", "[::1:443", "unbalanced-bracket"),
        ("GET", "http://h:+80/", "signed-port"),
        ("GET", "http://h:-80/", "signed-port"),
        ("CONNECT", "h:+443", "signed-port"),
        ("GET", "http://h: 80/", "blank-in-port"),
        ("GET", "http://[zz]/", "bracketed-non-address"),
        ("CONNECT", "[zz]:443", "bracketed-non-address"),
        ("CONNECT", "[not an address]:443", "bracketed-non-address"),
    ] {
        v.push(http_case(m, t, 0, l));
    }
    v
}

fn socks_cases(rng: &mut Rng) -> Vec<Case> {
    let mut v = Vec::new();
    v.push(socks5_case(1, &[127, 0, 0, 1], 8080, "socks5-ipv4", Some(("127.0.0.1".into(), 8080))));
    v.push(socks5_case(1, &[255, 255, 255, 255], 65535, "socks5-ipv4", Some(("255.255.255.255".into(), 65535))));
    let mut ip6 = [0u8; 16];
    ip6[15] = 1;
    v.push(socks5_case(4, &ip6, 443, "socks5-ipv6", Some(("::1".into(), 443))));
    let r6: [u8; 16] = rng.arr();
    v.push(socks5_case(4, &r6, 1, "socks5-ipv6", Some((std::net::Ipv6Addr::from(r6).to_string(), 1))));
    for len in [1usize, 2, 63, 64, 200, 255] {
        let name = crate::gen::ldh_name(rng, len);
        v.push(socks5_case(3, &name, 80, "socks5-domain", Some((String::from_utf8(name.clone()).unwrap(), 80))));
    }
    // greetings that offer 'no authentication' among other methods (RFC 1928: the server SELECTS one of the offered methods)
    for methods in [vec![0u8, 0x80], vec![0x80, 0], vec![2, 1, 0], vec![0, 2], vec![0, 0]] {
        let mut c = socks5_case(1, &[127, 0, 0, 1], 8081, "socks5-several-methods-offered", Some(("127.0.0.1".into(), 8081)));
        let mut g = vec![5u8, methods.len() as u8];
        g.extend_from_slice(&methods);
        c.phases[0] = g;
        v.push(c);
    }
    // unsupported / malformed
    v.push(socks5_case(3, b"", 80, "socks5-empty-domain", None));
    v.push(socks5_case(2, &[1, 2, 3, 4], 80, "socks5-unknown-atyp", None));
    v.push(socks5_case(0, &[1, 2, 3, 4], 80, "socks5-unknown-atyp", None));
    for (cmd, label) in [(2u8, "socks5-bind"), (0u8, "socks5-unknown-command"), (9u8, "socks5-unknown-command")] {
        let mut c = socks5_case(1, &[127, 0, 0, 1], 80, label, None);
        c.phases[1][1] = cmd;
        v.push(c);
    }
    let mut c = socks5_case(1, &[127, 0, 0, 1], 80, "socks5-no-acceptable-method", None);
    c.phases[0] = vec![5, 2, 1, 2]; // GSSAPI and username/password only
    v.push(c);
    let mut c = socks5_case(1, &[127, 0, 0, 1], 80, "socks5-no-acceptable-method", None);
    c.phases[0] = vec![5, 2, 0x80, 0xfe]; // private methods only
    v.push(c);
    v.push(Case { kind: Kind::Socks5, phases: vec![vec![4, 1, 0, 80, 127, 0, 0, 1, 0]], cut_phase: 0, cuts: vec![], payload: vec![], expect: None, label: "socks4".into(), early: 0 });
    v.push(Case { kind: Kind::Plain, phases: vec![vec![0x16, 3, 1, 0, 0xa0, 1, 0, 0, 0x9c, 3, 3]], cut_phase: 0, cuts: vec![], payload: rng.bytes(150), expect: None, label: "tls-client-hello".into(), early: 0 });
    v.push(Case { kind: Kind::Plain, phases: vec![rng.bytes(40)], cut_phase: 0, cuts: vec![], payload: vec![], expect: None, label: "garbage".into(), early: 0 });
    v.push(Case { kind: Kind::Plain, phases: vec![b"\r\n\r\n".to_vec()], cut_phase: 0, cuts: vec![], payload: vec![], expect: None, label: "empty-lines".into(), early: 0 });
    v
}

/// One connection that sends `bytes`, closes its writing side and waits for the handshake to give up on it.
async fn abandoned(bytes: Vec<u8>) {
    let Ok(l) = tokio::net::TcpListener::bind("127.0.0.1:0").await else { return };
    let Ok(addr) = l.local_addr() else { return };
    let app = tokio::spawn(async move {
        if let Ok(mut s) = tokio::net::TcpStream::connect(addr).await {
            let _ = s.write_all(&bytes).await;
            tokio::time::sleep(Duration::from_millis(60)).await;
            let _ = s.shutdown().await;
            let mut b = [0u8; 256];
            let _ = tokio::time::timeout(Duration::from_millis(1500), s.read(&mut b)).await;
        }
    });
    if let Ok((mut inbound, _)) = l.accept().await {
        let _ = tokio::time::timeout(Duration::from_secs(3), octo_squirrel_client::client::verif::get_request_addr(&mut inbound)).await;
    }
    let _ = app.await;
}

/// Histories of connections: what an EARLIER connection left behind must not matter to a later one. Rounds for lengths N:
/// eight connections send the first N bytes of a (longer) request and give up; then eight connections send a complete,
/// well-formed request of exactly N bytes in one piece. (Whatever a handshake keeps between connections - buffers, marks
/// of how far it had looked - is the shared state of this property.)
fn connection_histories(a: &Args, rep: &mut Report) {
    let rt = tokio::runtime::Builder::new_multi_thread().worker_threads(4).enable_all().build().unwrap();
    let rounds: Vec<usize> = if a.thorough { (60..=180).step_by(5).collect() } else { vec![61, 74, 88, 97, 113, 140] };
    for (ri, n) in rounds.into_iter().enumerate() {
        // complete requests of exactly n bytes: "CONNECT <host>:443 HTTP/1.1\r\nHost: <host>:443\r\n\r\n" = 2*len(host) + 42 (+1 to make it odd)
        // and "GET http://<host>/ HTTP/1.1\r\nHost: <host>\r\n\r\n"                      = 2*len(host) + 33 (+1 ...)
        let mut exact: Vec<Case> = Vec::new();
        for (method, fixed) in [("CONNECT", 36usize), ("GET", 32)] {
            let spare = n.saturating_sub(fixed);
            let hl = spare / 2;
            if hl < 4 || hl > 63 {
                continue;
            }
            let host: String = format!("{}.example", "h".repeat(hl.saturating_sub(8)));
            let host = if host.len() == hl { host } else { "h".repeat(hl) };
            let pad = if spare % 2 == 1 { " " } else { "" }; // an optional space after the header's colon keeps the request well-formed
            let (target, head) = if method == "CONNECT" {
                (format!("{host}:443"), format!("CONNECT {host}:443 HTTP/1.1\r\nHost:{pad}{host}:443\r\n\r\n"))
            } else {
                (format!("http://{host}/"), format!("GET http://{host}/ HTTP/1.1\r\nHost:{pad}{host}\r\n\r\n"))
            };
            let head = if head.len() == n { head } else { continue };
            let kind = if method == "CONNECT" { Kind::Connect } else { Kind::Plain };
            exact.push(Case { kind, phases: vec![head.into_bytes()], cut_phase: 0, cuts: vec![], payload: b"PAYLOAD-after-http".to_vec(), expect: refimpl::http::expected_target(method, &target), label: format!("complete-request-of-{n}-bytes-after-connections-abandoned-at-{n}-bytes"), early: 0 });
        }
        if exact.is_empty() {
            continue;
        }
        let long = format!("GET http://{}.example/some/longer/path?with=query HTTP/1.1\r\nHost: {}.example\r\nUser-Agent: osv\r\nAccept: */*\r\n\r\n", "a".repeat(70), "a".repeat(70));
        let long2 = format!("CONNECT {}.example:8443 HTTP/1.1\r\nHost: {}.example:8443\r\nProxy-Connection: keep-alive\r\n\r\n", "b".repeat(70), "b".repeat(70));
        let outs = rt.block_on(async {
            let mut hs = Vec::new();
            for k in 0..8 {
                let src = if k % 2 == 0 { &long } else { &long2 };
                hs.push(tokio::spawn(abandoned(src.as_bytes()[..n.min(src.len() - 1)].to_vec())));
            }
            for h in hs {
                let _ = h.await;
            }
            let mut outs = Vec::new();
            let mut hs = Vec::new();
            for k in 0..8 {
                let c = exact[k % exact.len()].clone();
                hs.push(tokio::spawn(async move { (c.clone(), run_case(&c).await) }));
            }
            for h in hs {
                if let Ok(x) = h.await {
                    outs.push(x);
                }
            }
            outs
        });
        rep.mon("connections_abandoned_in_the_middle_of_a_request", 8);
        for (k, (c, out)) in outs.into_iter().enumerate() {
            rep.case(&("history", ri, k), true);
            rep.mon("complete_requests_behind_abandoned_ones", 1);
            match out {
                Err(e) => rep.inconclusive(format!("harness: {}", panicmon::normalise(&e))),
                Ok(o) => judge(rep, &c, o, a.seed, (1_000_000 + ri * 8 + k) as u64),
            }
        }
    }
}

pub fn run(a: &Args) -> Report {
    let seed = a.seed;
    let mut rng = Rng::derive(seed, 0xC13, 0);
    let mut cases = grammar();
    cases.extend(socks_cases(&mut rng));
    // header blocks of several KiB
    for n in [600usize, 1500, 3000, 6000] {
        cases.push(http_case("GET", "http://big.example:8080/x", n, "absolute-uri-long-headers"));
        cases.push(http_case("CONNECT", "big.example:443", n, "connect-long-headers"));
    }
    let whole = cases.len();
    // segmentations: a sample of the well-formed cases cut at EVERY byte position of the handshake, and byte by byte
    let mut seg = Vec::new();
    let per_kind = if a.thorough { 40 } else { 6 };
    let mut taken = std::collections::HashMap::new();
    for c in cases.iter().filter(|c| c.expect.is_some() && c.phases[c.cut_phase].len() < 400) {
        let k = format!("{:?}/{}", c.kind, c.label);
        let n = taken.entry(k).or_insert(0usize);
        if *n >= per_kind {
            continue;
        }
        *n += 1;
        let len = c.phases[c.cut_phase].len();
        for cut in 1..len {
            let mut x = c.clone();
            x.cuts = vec![cut];
            seg.push(x);
        }
        let mut x = c.clone();
        x.cuts = (1..len.min(48)).collect();
        seg.push(x);
    }
    cases.extend(seg);
    // a client that does not wait for the final reply: its first tunnel bytes arrive together with the handshake
    let mut early = Vec::new();
    let mut taken = std::collections::HashMap::new();
    for c in cases[..whole].iter().filter(|c| c.expect.is_some() && !matches!(c.kind, Kind::Plain)) {
        let k = format!("{:?}/{}", c.kind, c.label);
        let n = taken.entry(k).or_insert(0usize);
        if *n >= if a.thorough { 60 } else { 12 } {
            continue;
        }
        *n += 1;
        for (e, size) in [(1u8, 18usize), (1, 1500), (1, 5000), (2, 18), (2, 1500)] {
            let mut x = c.clone();
            x.early = e;
            x.payload = rng.bytes(size);
            early.push(x);
        }
    }
    // a sender that closes its writing side right behind a complete request (printf ... | nc -N, HTTP/1.0-style clients)
    // and reads on: the request is as well-formed as before
    let mut taken = std::collections::HashMap::new();
    for c in cases[..whole].iter().filter(|c| c.expect.is_some()) {
        let k = format!("{:?}/{}", c.kind, c.label);
        let n = taken.entry(k).or_insert(0usize);
        if *n >= if a.thorough { 40 } else { 8 } {
            continue;
        }
        *n += 1;
        let mut x = c.clone();
        x.early = 3;
        x.payload = vec![];
        early.push(x);
    }
    let n_early = early.len();
    cases.extend(early);
    let total = cases.len();
    let mut rep = parallel(total, a.threads * 4, |i, rep| {
        thread_local! { static RT: tokio::runtime::Runtime = tokio::runtime::Builder::new_current_thread().enable_all().build().unwrap(); }
        let c = &cases[i];
        let out = panicmon::catch(|| RT.with(|rt| rt.block_on(run_case(c))));
        rep.case(&(i, &c.label, &c.cuts), true);
        match out {
            Err(p) => rep.violation(format!("C13|{:?}|{}|{}", c.kind, c.label, p.signature()), "local handshake panicked".to_string(), json!({"label": c.label, "cuts": c.cuts})),
            Ok(Err(e)) => rep.inconclusive(format!("harness: {}", panicmon::normalise(&e))),
            Ok(Ok(o)) => judge(rep, c, o, seed, i as u64),
        }
    });
    rep.sample(json!({"grammar": "methods {GET,POST,PUT,OPTIONS,HEAD,CONNECT} x hosts {reg-names 1..63, IPv4, bracketed IPv6} x ports {absent,1,80,8080,65535} x paths {'', '/', '/a/b', '/a:b', '/x://y', '/p/', '/@scope/pkg', '/u:p@h:9/c'} x queries {'', '?a=b', '?u=http://h:1/', '?a?b', '?x=/', '?mail=bob@files.example.net', '?r=@h:81/'} (full product) + malformed variants + SOCKS5 (3 address types, unsupported commands/methods/versions)", "whole_requests": whole, "segmented_requests": total - whole - n_early, "early_data_requests": n_early, "oracle": "refimpl::http::expected_target (RFC 9112 request-target, RFC 3986 authority) / RFC 1928"}));
    rep.extra.insert("exhaustive_detail".into(), json!("the request-target grammar product is enumerated completely (whole delivery); every single cut position is enumerated for a sample of requests of each kind"));
    connection_histories(a, &mut rep);
    rep
}
