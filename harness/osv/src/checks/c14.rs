//! C14 - addresses survive encoding exactly or are refused.
//! (a) round trips of the two address encodings with trailing payload, (b) every domain length 0..=1024
//! through the real local handshake (`get_request_addr` on a loopback socket pair): accepted names must be
//! exactly the requested ones and representable, unrepresentable ones must be refused; (c) every accepted
//! name through the first `encode` of each client codec, decoded by the reference server.

use std::time::Duration;

use bytes::BytesMut;
use octo_squirrel::protocol::address::Address;
use octo_squirrel::protocol::socks5::address as s5a;
use octo_squirrel::protocol::vmess::address as vma;
use refimpl::addr::Addr;
use serde_json::json;
use tokio::io::{AsyncReadExt, AsyncWriteExt};

use super::{pin_clock, Args};
use crate::drive::guarded;
use crate::gen;
use crate::panicmon;
use crate::peer::{RefServer, ServerOpts};
use crate::prng::Rng;
use crate::real::{self, all_protos, from_address, to_address, Cfg, Proto};
use crate::report::{hex_short, parallel, Report};

fn name(alphabet: usize, len: usize, rng: &mut Rng) -> Vec<u8> {
    match alphabet {
        0 => gen::ldh_name(rng, len),
        1 => {
            const A: &[u8] = b"abcXYZ019-._~!$&'()*+,;=:[]@%";
            (0..len).map(|_| *rng.pick(A)).collect()
        }
        _ => {
            // multi-byte UTF-8 so that byte length != char count; exactly `len` bytes
            let mut s = String::new();
            let pool = ['é', '世', 'ß', 'a', '𝄞', 'z'];
            while s.len() < len {
                let c = *rng.pick(&pool);
                if s.len() + c.len_utf8() <= len {
                    s.push(c);
                } else {
                    s.push('x');
                }
            }
            s.into_bytes()
        }
    }
}

fn roundtrips(seed: u64, rep: &mut Report, thorough: bool) {
    let mut rng = Rng::derive(seed, 0xC14, 0);
    let mut addrs: Vec<Addr> = Vec::new();
    for ip in [[0u8; 4], [255; 4], [127, 0, 0, 1], [1, 2, 3, 4]] {
        for p in [0u16, 1, 80, 443, 65535] {
            addrs.push(Addr::V4(ip, p));
        }
    }
    for _ in 0..if thorough { 100_000 } else { 10_000 } {
        addrs.push(Addr::V4(rng.arr(), rng.next_u32() as u16));
    }
    for _ in 0..if thorough { 10_000 } else { 2_000 } {
        addrs.push(Addr::V6(rng.arr(), rng.next_u32() as u16));
    }
    addrs.push(Addr::V6([0; 16], 0));
    addrs.push(Addr::V6([0xff; 16], 65535));
    for alphabet in 0..3 {
        for len in 1..=255usize {
            for p in [0u16, 1, 80, 443, 65535] {
                addrs.push(Addr::Domain(name(alphabet, len, &mut rng), p));
            }
        }
    }
    rep.sample(json!({"part": "round-trip", "addresses": addrs.len(), "tails": ["empty", "1 byte", "300 random bytes", "a second encoded address"], "example": addrs.last().map(|a| a.describe())}));
    for (k, a) in addrs.iter().enumerate() {
        let real = to_address(a);
        let tails: [Vec<u8>; 4] = [vec![], vec![rng.next_u32() as u8], rng.bytes(300), {
            let mut v = Vec::new();
            refimpl::addr::socks_encode(&Addr::Domain(b"tail.example".to_vec(), 9), &mut v);
            v
        }];
        let tail = &tails[k % 4];
        rep.evaluations += 1;
        rep.distinct.insert(crate::report::hash_of(a));
        // SOCKS5-style
        let r = panicmon::catch(|| {
            let mut buf = BytesMut::new();
            s5a::encode(&real, &mut buf);
            let enc_len = buf.len();
            buf.extend_from_slice(tail);
            let mut reference = Vec::new();
            refimpl::addr::socks_encode(a, &mut reference);
            let at = s5a::try_decode_at(&buf, 0).ok();
            let decoded = s5a::decode(&mut buf);
            (enc_len, s5a::length(&real), reference.len(), at, decoded.map(|d| from_address(&d)).map_err(|e| e.to_string()), buf.to_vec())
        });
        match r {
            Err(p) => rep.violation(format!("C14|socks5-style|{}", p.signature()), "address round trip panicked", json!({"addr": a.describe()})),
            Ok((enc_len, len_fn, ref_len, at, decoded, rest)) => {
                rep.mon("socks5_roundtrips", 1);
                let mut bad = Vec::new();
                if enc_len != ref_len {
                    bad.push("encoded-length-differs-from-reference");
                }
                if len_fn != enc_len {
                    bad.push("length()-disagrees-with-encode");
                }
                if at != Some(enc_len) {
                    bad.push("try_decode_at-disagrees-with-encode");
                }
                if decoded.as_ref().ok() != Some(a) {
                    bad.push("decoded-address-differs");
                }
                if rest != *tail {
                    bad.push("trailing-payload-not-preserved");
                }
                if !bad.is_empty() {
                    rep.violation(format!("C14|socks5-style|{}", bad.join("+")), "SOCKS5-style address round trip", json!({"addr": a.describe(), "decoded": format!("{:?}", decoded).chars().take(120).collect::<String>(), "tail_len": tail.len(), "rest_len": rest.len()}));
                }
            }
        }
        // VMess-style
        let r = panicmon::catch(|| {
            let mut buf = BytesMut::new();
            vma::write_address_port(&real, &mut buf).map_err(|e| e.to_string())?;
            let mut reference = Vec::new();
            refimpl::addr::vmess_encode(a, &mut reference);
            let same = buf[..] == reference[..];
            buf.extend_from_slice(tail);
            let mut b = buf.freeze();
            let d = vma::read_address_port(&mut b).map_err(|e| e.to_string())?;
            Ok::<_, String>((same, from_address(&d), b.to_vec()))
        });
        match r {
            Err(p) => rep.violation(format!("C14|vmess-style|{}", p.signature()), "address round trip panicked", json!({"addr": a.describe()})),
            Ok(Err(e)) => rep.violation("C14|vmess-style|error-on-representable-address".to_string(), "VMess-style round trip failed", json!({"addr": a.describe(), "error": e})),
            Ok(Ok((same, d, rest))) => {
                rep.mon("vmess_roundtrips", 1);
                let mut bad = Vec::new();
                if !same {
                    bad.push("encoding-differs-from-reference");
                }
                if d != *a {
                    bad.push("decoded-address-differs");
                }
                if rest != *tail {
                    bad.push("trailing-payload-not-preserved");
                }
                if !bad.is_empty() {
                    rep.violation(format!("C14|vmess-style|{}", bad.join("+")), "VMess-style address round trip", json!({"addr": a.describe(), "decoded": d.describe()}));
                }
            }
        }
    }
}

#[derive(Clone, Copy, Debug, PartialEq)]
enum Via {
    Socks5,
    HttpConnect,
    HttpGet,
}

/// Run the real local handshake for one request; returns what the client would tunnel to.
async fn handshake(req_bytes: Vec<Vec<u8>>, gap_ms: Option<u64>) -> Result<Result<Address, String>, String> {
    let l = tokio::net::TcpListener::bind("127.0.0.1:0").await.map_err(|e| e.to_string())?;
    let addr = l.local_addr().map_err(|e| e.to_string())?;
    let app = tokio::spawn(async move {
        let mut s = tokio::net::TcpStream::connect(addr).await.ok()?;
        s.set_nodelay(true).ok()?;
        let mut reply = vec![0u8; 512];
        for (k, part) in req_bytes.iter().enumerate() {
            s.write_all(part).await.ok()?;
            if k + 1 < req_bytes.len() {
                match gap_ms {
                    // one message in several segments: the next piece follows after a pause, no reply is awaited
                    Some(ms) => tokio::time::sleep(Duration::from_millis(ms)).await,
                    // protocol phases: wait for the reply to this phase before the next one
                    None => {
                        let _ = tokio::time::timeout(Duration::from_secs(5), s.read(&mut reply)).await;
                    }
                }
            }
        }
        let _ = tokio::time::timeout(Duration::from_secs(5), s.read(&mut reply)).await;
        Some(())
    });
    let (mut inbound, _) = l.accept().await.map_err(|e| e.to_string())?;
    let r = tokio::time::timeout(Duration::from_secs(20), octo_squirrel_client::client::verif::get_request_addr(&mut inbound)).await;
    drop(inbound);
    let _ = app.await;
    match r {
        Err(_) => Err("handshake did not finish within 20 s".into()),
        Ok(Ok(a)) => Ok(Ok(a)),
        Ok(Err(e)) => Ok(Err(format!("{e:#}"))),
    }
}

fn handshake_lengths(seed: u64, idx: usize, rep: &mut Report, rt: &tokio::runtime::Runtime) {
    // idx enumerates (via, alphabet, len)
    let via = [Via::Socks5, Via::HttpConnect, Via::HttpGet][idx % 3];
    let alphabet = (idx / 3) % 3;
    let len = idx / 9;
    let mut rng = Rng::derive(seed, 0xC14B, idx as u64);
    let port = *rng.pick(&[1u16, 80, 443, 8080, 65535]);
    let host = match (via, alphabet) {
        (Via::Socks5, 1) => rng.bytes(len), // any byte values can come out of SOCKS5
        (Via::HttpConnect | Via::HttpGet, 1) => {
            const A: &[u8] = b"abcXYZ019-._~!$&'()*+,;=%";
            (0..len).map(|_| *rng.pick(A)).collect()
        }
        _ => name(alphabet, len, &mut rng),
    };
    if via == Via::Socks5 && len > 255 {
        return; // cannot be expressed in a SOCKS5 request at all
    }
    let req: Vec<Vec<u8>> = match via {
        Via::Socks5 => {
            let mut r = vec![5, 1, 0, 3, len as u8];
            r.extend_from_slice(&host);
            r.extend_from_slice(&port.to_be_bytes());
            vec![vec![5, 1, 0], r]
        }
        Via::HttpConnect => {
            let mut r = b"CONNECT ".to_vec();
            r.extend_from_slice(&host);
            r.extend_from_slice(format!(":{port} HTTP/1.1\r\nHost: x\r\n\r\n").as_bytes());
            vec![r]
        }
        Via::HttpGet => {
            let mut r = b"GET http://".to_vec();
            r.extend_from_slice(&host);
            r.extend_from_slice(format!(":{port}/index.html HTTP/1.1\r\nHost: x\r\n\r\n").as_bytes());
            vec![r]
        }
    };
    // deliveries: the request as the protocol phases give it, and - for the HTTP kinds, around the 255-byte boundary and at
    // every 64th length - the same request head in two segments (behind the request line / inside the host / before its
    // last byte): what the handshake accepts must not depend on where the segments end
    let mut deliveries: Vec<(&'static str, Vec<Vec<u8>>, Option<u64>)> = vec![("whole", req.clone(), None)];
    if via != Via::Socks5 && ((240..=300).contains(&len) || len % 64 == 0) {
        let r = &req[0];
        let line_end = r.windows(2).position(|w| w == b"\r\n").map(|p| p + 2).unwrap_or(r.len() / 2);
        let host_at = if via == Via::HttpConnect { 8 } else { 11 };
        for (label, cut) in [("cut-behind-the-request-line", line_end), ("cut-inside-the-host", host_at + len / 2 + 1), ("cut-before-the-last-byte", r.len() - 1), ("cut-inside-the-request-line-behind-the-host", (host_at + len + 3).min(r.len() - 1))] {
            if cut > 0 && cut < r.len() {
                deliveries.push((label, vec![r[..cut].to_vec(), r[cut..].to_vec()], Some(12)));
            }
        }
    }
    for (delivery, req, gap) in deliveries {
    let out = panicmon::catch(|| rt.block_on(handshake(req, gap)));
    rep.evaluations += 1;
    rep.mon("local_handshakes_run", 1);
    rep.distinct.insert(crate::report::hash_of(&(idx, &host, delivery)));
    let representable = !host.is_empty() && host.len() <= 255;
    let w = json!({"seed": seed, "via": format!("{:?}", via), "alphabet": alphabet, "host_len": host.len(), "host": hex_short(&host), "port": port, "delivery": delivery});
    match out {
        Err(p) => rep.violation(format!("C14|handshake|{:?}|{}", via, p.signature()), "local handshake panicked", w),
        Ok(Err(e)) => rep.inconclusive(format!("handshake harness: {}", panicmon::normalise(&e))),
        Ok(Ok(Err(_refused))) => {
            rep.mon("refused", 1);
            // refusing is always safe; a representable LDH name must however be accepted
            if representable && alphabet == 0 && !(via != Via::Socks5 && host.len() > 200) && delivery == "whole" {
                rep.violation(format!("C14|handshake|{:?}|representable-name-refused", via), "a representable LDH host name was refused", w);
            }
        }
        Ok(Ok(Ok(a))) => {
            rep.mon("accepted", 1);
            let got = from_address(&a);
            let ok_repr = got.representable();
            let same = match &got {
                Addr::Domain(n, p) => *n == host && *p == port,
                _ => false,
            };
            if !ok_repr {
                rep.violation(format!("C14|handshake|{:?}|unrepresentable-name-accepted", via), "the handshake accepted a host name that no wire format can carry (empty or > 255 bytes)", w);
            } else if !same {
                rep.violation(format!("C14|handshake|{:?}|accepted-name-differs-from-request", via), "the handshake yields a different host/port than requested", json!({"request": w, "got": got.describe()}));
            } else {
                // (c) the accepted address through every client codec, decoded by the reference server
                through_codecs(seed, idx as u64, &got, rep);
            }
        }
    }
}

fn through_codecs(seed: u64, idx: u64, target: &Addr, rep: &mut Report) {
    let mut rng = Rng::derive(seed, 0xC14C, idx);
    let now = 1_700_000_000;
    pin_clock(now);
    let protos = all_protos();
    // two protocols per address keep the cost linear; over all lengths every protocol sees every length
    for k in 0..2 {
        let proto = protos[((idx as usize) + k * 5) % protos.len()];
        let cfg = Cfg::random(&mut rng, proto, 0);
        let payload = rng.bytes(*[0usize, 1, 300].get(k + (idx as usize % 2)).unwrap_or(&7));
        let taddr = to_address(target);
        let sh = match real::client_shared(&cfg) {
            Ok(s) => s,
            Err(_) => continue,
        };
        let mut c = match real::client_codec(&cfg, &sh, &taddr) {
            Ok(c) => c,
            Err(_) => continue,
        };
        let mut dst = BytesMut::new();
        rep.evaluations += 1;
        match guarded(|| c.encode(&payload, &mut dst)) {
            Err(f) => {
                if let crate::drive::Fail::Panic(p) = f {
                    rep.violation(format!("C14|codec|{}|{}", proto.name(), p.signature()), "client codec panicked on an accepted address", json!({"addr": target.describe()}));
                }
                // an Err with nothing written is a refusal, which is allowed
                if !dst.is_empty() {
                    rep.violation(format!("C14|codec|{}|error-after-bytes-were-produced", proto.name()), "client codec failed after producing output", json!({"addr": target.describe()}));
                }
            }
            Ok(()) => {
                let mut s = RefServer::new(&cfg, now, ServerOpts::default());
                match s.read(&dst) {
                    Ok(p) => {
                        rep.mon("codec_addresses_compared", 1);
                        if s.addr.as_ref() != Some(target) || p != payload {
                            rep.violation(format!("C14|codec|{}|server-sees-a-different-address-or-payload", proto.name()), "the reference server decodes another address or payload than the client was given", json!({"addr": target.describe(), "server_addr": s.addr.as_ref().map(|a| a.describe()), "payload_len": payload.len(), "server_payload_len": p.len()}));
                        }
                    }
                    Err(e) => rep.violation(format!("C14|codec|{}|reference-rejects", proto.name()), "the reference server rejects what the client sent for an accepted address", json!({"addr": target.describe(), "error": e.to_string()})),
                }
            }
        }
    }
    // datagram codecs too (Trojan/VMess datagram-in-stream carry the address in every packet)
    for proto in [Proto::Trojan, Proto::Vmess(3)] {
        let cfg = Cfg::random(&mut rng, proto, 0);
        let taddr = to_address(target);
        if let Ok(mut c) = real::client_dgram_codec(&cfg, &taddr) {
            let mut dst = BytesMut::new();
            if guarded(|| c.encode(b"dgram", &taddr, &mut dst)).is_ok() {
                let mut s = RefServer::new(&cfg, now, ServerOpts::default());
                rep.evaluations += 1;
                match s.read_units(&dst) {
                    Ok(u) => {
                        rep.mon("codec_addresses_compared", 1);
                        if s.addr.as_ref() != Some(target) || u != vec![b"dgram".to_vec()] {
                            rep.violation(format!("C14|dgram-codec|{}|server-sees-a-different-address-or-payload", proto.name()), "datagram-in-stream address mismatch", json!({"addr": target.describe()}));
                        }
                    }
                    Err(e) => rep.violation(format!("C14|dgram-codec|{}|reference-rejects", proto.name()), "reference rejects", json!({"addr": target.describe(), "error": e.to_string()})),
                }
            }
        }
    }
    }
}

/// (d) the datagram side of "the client accepts": what `Socks5UdpCodec` makes of a local SOCKS5-UDP datagram is what the
/// client's relay sends on. Names of every length 1..=255: identical address, payload exactly the rest. A name of length
/// 0 cannot be represented: the datagram must be refused (an item with an empty name would be handed to the outbound codecs).
/// And the way back: every address the codec encodes as a reply label decodes to itself, leaving exactly the payload.
fn socks5_udp_datagrams(seed: u64, rep: &mut Report) {
    use octo_squirrel::protocol::socks5::codec::Socks5UdpCodec;
    use tokio_util::codec::{Decoder, Encoder};
    let mut rng = Rng::derive(seed, 0xC14D, 0);
    for alphabet in 0..3usize {
        for len in 0..=255usize {
            for (pi, payload) in [Vec::new(), vec![0x42u8], rng.bytes(300)].into_iter().enumerate() {
                let host = name(alphabet, len, &mut rng);
                let port = *rng.pick(&[0u16, 1, 53, 443, 65535]);
                let mut d = vec![0u8, 0, 0, 3, len as u8];
                d.extend_from_slice(&host);
                d.extend_from_slice(&port.to_be_bytes());
                d.extend_from_slice(&payload);
                let mut buf = BytesMut::from(&d[..]);
                rep.evaluations += 1;
                rep.mon("socks5_udp_datagrams_decoded", 1);
                let r = panicmon::catch(|| Socks5UdpCodec.decode(&mut buf));
                let sig = |sym: &str| format!("C14|socks5-udp|alphabet={alphabet}|{sym}");
                let w = json!({"seed": seed, "name_len": len, "alphabet": alphabet, "payload_len": payload.len(), "datagram": hex_short(&d)});
                match r {
                    Err(p) => rep.violation(sig(&format!("panic:{}", p.signature())), format!("Socks5UdpCodec panicked on a datagram naming a {len}-byte host"), w),
                    Ok(Ok(Some((content, addr)))) => {
                        let got = from_address(&addr);
                        if len == 0 {
                            rep.violation(sig("empty-name-accepted"), format!("a local datagram that names an EMPTY host is accepted (as {}) and would be sent on", got.describe()), w);
                        } else if std::str::from_utf8(&host).is_err() {
                            // not a name at all: refusing would have been right; accepted it must at least be unchanged
                            if let Addr::Domain(h, p) = &got {
                                if h != &host || *p != port {
                                    rep.violation(sig("non-utf8-name-altered"), "a name that is not UTF-8 came out altered".to_string(), w);
                                }
                            }
                        } else if got != Addr::Domain(host.clone(), port) {
                            rep.violation(sig("address-differs"), format!("datagram for a {len}-byte name decoded as {}", got.describe()), w);
                        } else if content[..] != payload[..] {
                            rep.violation(sig("payload-differs"), format!("{} payload bytes came out as {}", payload.len(), content.len()), w);
                        } else if pi == 0 && alphabet == 0 {
                            rep.distinct.insert(crate::report::hash_of(&("udp", len)));
                        }
                    }
                    Ok(Ok(None)) | Ok(Err(_)) => {
                        if len > 0 && std::str::from_utf8(&host).is_ok() {
                            rep.violation(sig("representable-name-refused"), format!("a local datagram naming a representable {len}-byte host is refused"), w);
                        } else {
                            rep.mon("socks5_udp_unrepresentable_refused", 1);
                        }
                    }
                }
            }
        }
    }
    // reply labels: encode (payload, address) and read it back with the reference decoder
    for k in 0..2000u64 {
        let a = gen::random_addr(&mut rng);
        let n = *rng.pick(&[0usize, 1, 100, 1400]);
        let payload = rng.bytes(n);
        let mut dst = BytesMut::new();
        rep.evaluations += 1;
        if panicmon::catch(|| Socks5UdpCodec.encode((BytesMut::from(&payload[..]), to_address(&a)), &mut dst)).map(|r| r.is_err()).unwrap_or(true) {
            rep.violation("C14|socks5-udp|reply-label|encode-fails".to_string(), format!("encoding a reply labelled {} fails", a.describe()), json!({"seed": seed, "k": k}));
            continue;
        }
        rep.mon("socks5_udp_reply_labels_encoded", 1);
        let ok = dst.len() >= 3 && dst[..3] == [0, 0, 0] && matches!(refimpl::addr::socks_decode(&dst[3..]), Ok((b, used)) if b == a && dst[3 + used..] == payload[..]);
        if !ok {
            rep.violation("C14|socks5-udp|reply-label|does-not-read-back".to_string(), format!("a reply labelled {} does not read back as that address followed by exactly the payload", a.describe()), json!({"seed": seed, "k": k, "wire": hex_short(&dst)}));
        }
    }
}

pub fn run(a: &Args) -> Report {
    let mut rep = Report::new();
    roundtrips(a.seed, &mut rep, a.thorough);
    socks5_udp_datagrams(a.seed, &mut rep);
    let seed = a.seed;
    // every length 0..=1024 x 3 alphabets x 3 handshake kinds
    let step = if a.scale < 1.0 { 37 } else { 1 };
    let n = 1025 * 9;
    let r = parallel(n, a.threads, |i, rep| {
        if (i / 9) % step != 0 {
            return;
        }
        thread_local! { static RT: tokio::runtime::Runtime = tokio::runtime::Builder::new_current_thread().enable_all().build().unwrap(); }
        RT.with(|rt| handshake_lengths(seed, i, rep, rt));
    });
    rep.merge(r);
    rep.sample(json!({"part": "local handshake", "lengths": "every domain length 0..=1024", "alphabets": ["LDH", "punctuation / arbitrary bytes (SOCKS5)", "multi-byte UTF-8"], "kinds": ["SOCKS5 CONNECT", "HTTP CONNECT", "HTTP GET absolute-URI"]}));
    rep.extra.insert("exhaustive_detail".into(), json!("all domain lengths 0..=1024 for each alphabet and handshake kind; all lengths 1..=255 x 3 alphabets x 5 ports for the encoder round trips"));
    rep
}
