//! Codec-level (L1) checks. Each `run` returns a Report; the `check` driver turns it into verdicts.

#[cfg(feature = "l1")]
pub mod c03;
#[cfg(feature = "l1")]
pub mod c04;
#[cfg(feature = "l1")]
pub mod c05;
#[cfg(feature = "l1")]
pub mod c06;
#[cfg(feature = "l1")]
pub mod c07;
#[cfg(feature = "l1")]
pub mod c09;
#[cfg(feature = "l1")]
pub mod c10;
#[cfg(feature = "l1")]
pub mod c11;
#[cfg(feature = "l1")]
pub mod c12;
#[cfg(feature = "l1")]
pub mod c13;
#[cfg(feature = "l1")]
pub mod c14;
#[cfg(feature = "l1")]
pub mod mirirun;

use crate::report::Report;

#[derive(Clone, Debug)]
pub struct Args {
    pub check: String,
    pub thorough: bool,
    pub seed: u64,
    pub out: String,
    pub threads: usize,
    /// work multiplier (sanitizer / Miri variants run a fraction of the native workload)
    pub scale: f64,
    pub replay: Option<String>,
    /// free-form sub-selection (shards, sub-workloads)
    pub sub: Option<String>,
}

impl Args {
    pub fn parse() -> Args {
        let mut a = Args { check: String::new(), thorough: false, seed: 1, out: String::new(), threads: std::thread::available_parallelism().map(|n| n.get()).unwrap_or(4), scale: 1.0, replay: None, sub: None };
        let mut it = std::env::args().skip(1);
        a.check = it.next().unwrap_or_default();
        while let Some(k) = it.next() {
            let mut v = || it.next().unwrap_or_default();
            match k.as_str() {
                "--tier" => a.thorough = v() == "thorough",
                "--seed" => a.seed = v().parse().unwrap_or(1),
                "--out" => a.out = v(),
                "--threads" => a.threads = v().parse().unwrap_or(4),
                "--scale" => a.scale = v().parse().unwrap_or(1.0),
                "--replay" => a.replay = Some(v()),
                "--sub" => a.sub = Some(v()),
                other => {
                    eprintln!("unknown argument {other}");
                    std::process::exit(2);
                }
            }
        }
        a
    }
    pub fn n(&self, quick: usize, thorough: usize) -> usize {
        (((if self.thorough { thorough } else { quick }) as f64) * self.scale).ceil().max(1.0) as usize
    }
}

pub fn finish(a: &Args, r: Report) {
    if a.out.is_empty() {
        println!("{}", serde_json::to_string_pretty(&r.to_json()).unwrap());
    } else {
        r.write(&a.out);
    }
}

#[cfg(feature = "l1")]
/// A fixed "now" for codec-level work: pins both wall-clock readers of /repo on this thread.
pub fn pin_clock(now: u64) {
    octo_squirrel::verif::set_thread_clock(Some(now as i64));
}

