//! C12 - no key ever encrypts two messages with the same nonce.
//! The monitor is the instrumented reference decoder: every AEAD unit it opens while decoding what the
//! *real* encoders emitted is recorded as (key fingerprint, nonce); a hash set over all units of a run
//! finds reuse. Per-session randomness (salts, session ids, VMess body key/IV, auth ids, connection
//! nonces, XChaCha nonces) is collected across sessions and across two independently started processes.

use std::collections::{HashMap, HashSet};

use bytes::BytesMut;
use refimpl::addr::Addr;
use refimpl::ss;
use refimpl::Unit;
use serde_json::json;

pub(crate) use crate::units::{check_units, UnitSet};

use super::{pin_clock, Args};
use crate::drive::{drain_server, guarded};
use crate::gen;
use crate::peer::{ClientOpts, RefClient, RefServer, ServerOpts};
use crate::prng::Rng;
use crate::real::{self, all_protos, to_address, Cfg, Proto};
use crate::report::{hex, parallel, Report};

const NOW: u64 = 1_700_000_000;


/// Randomness a session must draw freshly.
#[derive(Default)]
struct Fresh {
    values: HashMap<&'static str, Vec<Vec<u8>>>,
}

impl Fresh {
    fn add(&mut self, kind: &'static str, v: &[u8]) {
        self.values.entry(kind).or_default().push(v.to_vec());
    }
}

/// One TCP flow with the real encoders on both sides, decoded by the reference; returns units and fresh values.
fn flow(cfg: &Cfg, rng: &mut Rng, c2s: &[usize], s2c: &[usize], units: &mut Vec<Unit>, fresh: &mut Fresh) -> Result<(), String> {
    pin_clock(NOW);
    let target = gen::random_addr(rng);
    let csh = real::client_shared(cfg).map_err(|e| e.to_string())?;
    let mut client = real::client_codec(cfg, &csh, &to_address(&target)).map_err(|e| e.to_string())?;
    let ssh = real::server_shared(cfg).map_err(|e| e.to_string())?;
    let mut server = real::server_codec(cfg, &ssh).map_err(|e| e.to_string())?;
    let mut rs = RefServer::new(cfg, NOW, ServerOpts { strict_limits: false, ..Default::default() });
    refimpl::unit_log_start();
    refimpl::diag_start();
    let mut request_head: Vec<u8> = Vec::new();
    let mut sbuf = BytesMut::new();
    let mut got_item = false;
    for (k, n) in c2s.iter().enumerate() {
        let data = rng.bytes(*n);
        let mut dst = BytesMut::new();
        guarded(|| client.encode(&data, &mut dst)).map_err(|f| f.describe())?;
        if k == 0 {
            request_head = dst.to_vec();
        }
        rs.read(&dst).map_err(|e| format!("reference server: {e}"))?;
        sbuf.extend_from_slice(&dst);
        let d = drain_server(server.as_mut(), &mut sbuf, true);
        got_item |= !d.items.is_empty();
        if let Some(f) = d.stop {
            return Err(f.describe());
        }
    }
    // session randomness visible on the wire
    match cfg.proto {
        Proto::Ss(m) => {
            if request_head.len() >= m.key_len() {
                fresh.add("ss-request-salt", &request_head[..m.key_len()]);
            }
        }
        Proto::Vmess(_) => {
            if let Some(o) = rs.vmess_opened() {
                fresh.add("vmess-body-key", &o.header.body_key);
                fresh.add("vmess-body-iv", &o.header.body_iv);
                fresh.add("vmess-auth-id", &o.auth_id);
                fresh.add("vmess-connection-nonce", &o.conn_nonce);
            }
        }
        Proto::Trojan => {}
    }
    if got_item {
        // the reference client that reads the real server's answer must know the request's keys: take them from the reference server's parse
        let mut first = true;
        let mut resp_reader: Option<Box<dyn FnMut(&[u8]) -> Result<(), String>>> = match cfg.proto {
            Proto::Ss(m) if m.is_2022() => {
                let key = match rs.user {
                    Some(i) => cfg.users[i].1.clone(),
                    None => cfg.server_psk.clone(),
                };
                let mut r = ss::S22ClientReader::new(m, &key, &request_head[..m.key_len()], NOW);
                Some(Box::new(move |b: &[u8]| r.feed(b).map(|_| ()).map_err(|e| e.to_string())))
            }
            Proto::Ss(m) => {
                let mut r = ss::Sip004Reader::new(m, &cfg.ref_server_psk(), false);
                Some(Box::new(move |b: &[u8]| r.feed(b).map(|_| ()).map_err(|e| e.to_string())))
            }
            Proto::Vmess(_) => {
                let o = rs.vmess_opened().unwrap().clone();
                let (rk, ri) = refimpl::vmess::response_keys(&o.header.body_key, &o.header.body_iv);
                let mut body = refimpl::vmess::Body::new(refimpl::vmess::Direction::Response, o.header.security, o.header.option, &o.header.body_key, &o.header.body_iv);
                let mut buf: Vec<u8> = Vec::new();
                let mut head_done = false;
                Some(Box::new(move |b: &[u8]| {
                    if !head_done {
                        buf.extend_from_slice(b);
                        match refimpl::vmess::open_response_header(&rk, &ri, &buf) {
                            Ok((_, used)) => {
                                head_done = true;
                                let rest = buf[used..].to_vec();
                                body.feed(&rest).map(|_| ()).map_err(|e| e.to_string())
                            }
                            Err(refimpl::RefError::Incomplete) => Ok(()),
                            Err(e) => Err(e.to_string()),
                        }
                    } else {
                        body.feed(b).map(|_| ()).map_err(|e| e.to_string())
                    }
                }))
            }
            Proto::Trojan => None,
        };
        for n in s2c {
            let data = rng.bytes(*n);
            let mut dst = BytesMut::new();
            guarded(|| server.encode_tcp(&data, &mut dst)).map_err(|f| f.describe())?;
            if first {
                if let Proto::Ss(m) = cfg.proto {
                    if dst.len() >= m.key_len() {
                        fresh.add("ss-response-salt", &dst[..m.key_len()]);
                    }
                }
                first = false;
            }
            if let Some(r) = resp_reader.as_mut() {
                r(&dst).map_err(|e| format!("reference client: {e}"))?;
            }
        }
    }
    units.extend(refimpl::unit_log_take());
    let notes = refimpl::diag_take();
    if !notes.is_empty() {
        DIAG_NOTES.with(|d| d.borrow_mut().extend(notes));
    }
    Ok(())
}

thread_local! {
    /// what the reference decoders' diagnostic mode found (units that only open under another key / counter)
    static DIAG_NOTES: std::cell::RefCell<Vec<String>> = const { std::cell::RefCell::new(Vec::new()) };
}

fn drain_diag(rep: &mut Report) {
    let notes: Vec<String> = DIAG_NOTES.with(|d| std::mem::take(&mut *d.borrow_mut()));
    if !notes.is_empty() {
        rep.mon("units_relocated_by_diagnosis", notes.len() as u64);
        rep.note(format!("diagnosis: {}", notes[0]));
    }
}


fn sessions_case(seed: u64, i: u64, rep: &mut Report, fresh_out: &std::sync::Mutex<Fresh>) {
    let mut rng = Rng::derive(seed, 0xC12, i);
    let protos: Vec<Proto> = all_protos().into_iter().filter(|p| p.encrypted()).collect();
    let proto = protos[(i % protos.len() as u64) as usize];
    let nu = *rng.pick(&[0usize, 2]);
    let cfg = Cfg::random(&mut rng, proto, nu);
    // many sessions under ONE configuration: first messages only, then a few long sessions
    let mut set = UnitSet::default();
    let mut fresh = Fresh::default();
    let n_sessions = 60;
    for s in 0..n_sessions {
        let (c2s, s2c): (Vec<usize>, Vec<usize>) = if s % 20 == 0 {
            let n = rng.range(1, 300);
            ((0..n).map(|_| *rng.pick(&[1usize, 17, 100, 2047, 2048, 2049, 8192])).collect(), (0..n / 2 + 1).map(|_| *rng.pick(&[1usize, 100, 8192])).collect())
        } else {
            (vec![rng.range(1, 600)], vec![rng.range(1, 600)])
        };
        let mut units = Vec::new();
        match flow(&cfg, &mut rng, &c2s, &s2c, &mut units, &mut fresh) {
            Ok(()) => {
                rep.mon("sessions_observed", 1);
                rep.mon("aead_units_recorded", units.len() as u64);
                check_units(rep, "tcp-sessions", &proto.name(), units, &mut set, json!({"seed": seed, "index": i, "session": s, "cfg": cfg.describe()}));
                drain_diag(rep);
            }
            Err(e) => rep.inconclusive(format!("flow failed: {}", crate::panicmon::normalise(&e))),
        }
    }
    rep.case(&(seed, i), set.count > 0);
    if i < 2 {
        rep.sample(json!({"seed": seed, "index": i, "proto": proto.name(), "sessions": n_sessions, "units_recorded": set.count, "example_fresh_values": fresh.values.iter().map(|(k, v)| (k.to_string(), v.first().map(|x| hex(x)))).collect::<HashMap<_, _>>()}));
    }
    let mut g = fresh_out.lock().unwrap();
    for (k, v) in fresh.values {
        g.values.entry(k).or_default().extend(v);
    }
}

/// One very long session per stream protocol: counters must keep advancing through their byte carries.
fn long_session(seed: u64, proto: Proto, rep: &mut Report) {
    let mut rng = Rng::derive(seed, 0xC12A, 0);
    let cfg = Cfg::random(&mut rng, proto, 0);
    let chunks: usize = match proto {
        Proto::Vmess(_) => 66_000, // past the 16-bit counter wrap (exempt by protocol); anything but an exact wrap is reuse
        _ => 70_000,
    };
    let mut units = Vec::new();
    let mut fresh = Fresh::default();
    let c2s: Vec<usize> = (0..chunks).map(|_| 1).collect();
    match flow(&cfg, &mut rng, &c2s, &[1, 1], &mut units, &mut fresh) {
        Ok(()) => {
            let mut set = UnitSet::default();
            rep.mon("aead_units_recorded", units.len() as u64);
            rep.mon("long_session_chunks", chunks as u64);
            check_units(rep, "long-session", &proto.name(), units, &mut set, json!({"seed": seed, "chunks": chunks}));
            drain_diag(rep);
            rep.case(&("long", proto.name()), true);
        }
        Err(e) => rep.inconclusive(format!("long session failed: {}", crate::panicmon::normalise(&e))),
    }
}

/// Shadowsocks UDP: long sessions in both directions, packet ids strictly increasing, and the counter end.
fn udp_sessions(seed: u64, i: u64, n: usize, rep: &mut Report, fresh_out: &std::sync::Mutex<Fresh>) {
    let mut rng = Rng::derive(seed, 0xC12D, i);
    let m = ss::ALL_METHODS[(i % 7) as usize];
    let cfg = Cfg::random(&mut rng, Proto::Ss(m), if m.supports_eih() && i % 2 == 1 { 2 } else { 0 });
    pin_clock(NOW);
    let psk = cfg.ref_server_psk();
    let users = cfg.ref_users();
    let keys = cfg.ref_client_keys();
    let server = real::ss_udp_server(&cfg).unwrap();
    let mut set = UnitSet::default();
    let mut fresh = Fresh::default();
    let target = Addr::V4([8, 8, 8, 8], 53);
    for _session in 0..4 {
        let mut client = real::ss_udp_client(&cfg);
        let (csid, _, _) = client.session_ids();
        if m.is_2022() {
            fresh.add("udp-client-session-id", &csid.to_be_bytes());
        }
        let mut last: Option<u64> = None;
        let mut spid = 0u64;
        refimpl::unit_log_start();
        for k in 0..n {
            let pl = *rng.pick(&[0usize, 1, 100, 1200]);
            let payload = rng.bytes(pl);
            let mut dst = BytesMut::new();
            if guarded(|| client.encode(&payload, &to_address(&target), &mut dst)).is_err() {
                rep.inconclusive("udp encode failed");
                break;
            }
            if m.is_2022() {
                match ss::s22_udp_server_decode(m, &psk, &users, &dst) {
                    Ok((p, _)) => {
                        if let Some(l) = last {
                            if p.packet_id <= l {
                                rep.violation(format!("C12|udp-client|{}|packet-id-not-strictly-increasing", m.name()), "client packet ids do not strictly increase", json!({"seed": seed, "index": i, "k": k, "prev": l.to_string(), "now": p.packet_id.to_string()}));
                            }
                        }
                        last = Some(p.packet_id);
                        if !matches!(m, ss::Method::B3Aes128Gcm | ss::Method::B3Aes256Gcm) {
                            fresh.add("udp-xchacha-nonce", &dst[..24]);
                        }
                    }
                    Err(e) => {
                        rep.inconclusive(format!("reference cannot decode the real client's datagram: {e}"));
                        break;
                    }
                }
            } else {
                fresh.add("udp-legacy-salt", &dst[..m.key_len()]);
                let _ = ss::sip004_udp_decode(m, &psk, &dst);
            }
            // the server's reply direction
            let mut rdst = BytesMut::new();
            let user = cfg.client_user.map(|u| cfg.users[u].0.clone());
            let ssid = 0x5151_0000 + _session as u64;
            // sessions 0 and 2: the server answers every request (its packet id keeps step with the client's);
            // sessions 1 and 3: it answers one request in three, so its packet ids lag behind what the client has
            // already used - and every reply is handed to the REAL client codec, as the relay does, between the sends
            let answers = _session % 2 == 0 || rng.chance(1, 3);
            if !answers {
                continue;
            }
            spid += if _session == 3 && rng.chance(1, 8) { 5 } else { 1 };
            if guarded(|| server.encode(&payload, &to_address(&target), csid, ssid, spid, user.as_deref(), &mut rdst)).is_ok() {
                if m.is_2022() {
                    let _ = ss::s22_udp_client_decode(m, &keys.psk, &rdst);
                } else {
                    fresh.add("udp-legacy-salt", &rdst[..m.key_len()]);
                    let _ = ss::sip004_udp_decode(m, &psk, &rdst);
                }
                let mut copy = rdst.clone();
                match guarded(|| client.decode(&mut copy)) {
                    Ok(Some(_)) => rep.mon("udp_replies_decoded_by_the_real_client_between_sends", 1),
                    _ => rep.mon("udp_replies_the_real_client_did_not_accept", 1),
                }
            }
        }
        let units = refimpl::unit_log_take();
        rep.mon("aead_units_recorded", units.len() as u64);
        rep.mon("udp_datagrams_observed", 2 * n as u64);
        check_units(rep, "udp-sessions", m.name(), units, &mut set, json!({"seed": seed, "index": i}));
    }
    rep.case(&("udp", seed, i), set.count > 0);
    // the end of the counter: the session must end rather than wrap to a used id
    if m.is_2022() {
        let mut client = real::ss_udp_client(&cfg);
        client.set_packet_id(u64::MAX - 2);
        let mut ids = Vec::new();
        let mut ended = false;
        for _ in 0..5 {
            let mut dst = BytesMut::new();
            match guarded(|| client.encode(b"x", &to_address(&target), &mut dst)) {
                Ok(()) => {
                    if let Ok((p, _)) = ss::s22_udp_server_decode(m, &psk, &users, &dst) {
                        ids.push(p.packet_id);
                    }
                }
                Err(_) => {
                    ended = true;
                    break;
                }
            }
        }
        rep.evaluations += 1;
        rep.mon("counter_end_sessions", 1);
        let mut sorted = ids.clone();
        sorted.dedup();
        let wrapped = ids.windows(2).any(|w| w[1] <= w[0]);
        if wrapped || !ended {
            rep.violation(format!("C12|udp-client|{}|packet-id-wraps-instead-of-ending-the-session", m.name()), "after packet id u64::MAX the client keeps sending with a wrapped id", json!({"seed": seed, "index": i, "ids": ids.iter().map(|x| x.to_string()).collect::<Vec<_>>(), "session_ended": ended}));
        }
    }
    let mut g = fresh_out.lock().unwrap();
    for (k, v) in fresh.values {
        g.values.entry(k).or_default().extend(v);
    }
}

fn analyse_fresh(rep: &mut Report, fresh: &Fresh, other_process: Option<&HashSet<String>>) {
    for (kind, vals) in &fresh.values {
        rep.mon(&format!("fresh_values:{kind}"), vals.len() as u64);
        let mut seen = HashSet::new();
        let mut dup = 0;
        for v in vals {
            if !seen.insert(v.clone()) {
                dup += 1;
            }
        }
        if dup > 0 {
            rep.violation(format!("C12|fresh|{}|repeated-across-sessions", kind), format!("{dup} of {} {kind} values repeat across sessions of one process", vals.len()), json!({"kind": kind, "repeats": dup, "total": vals.len()}));
        }
        // every bit position must take both values over a run of >= 64 values (a stuck bit means a broken generator)
        if vals.len() >= 64 {
            let l = vals[0].len();
            let mut ones = vec![0u32; l * 8];
            for v in vals {
                for b in 0..l * 8 {
                    if v.len() == l && v[b / 8] >> (b % 8) & 1 == 1 {
                        ones[b] += 1;
                    }
                }
            }
            let stuck: Vec<usize> = (0..l * 8).filter(|b| ones[*b] == 0 || ones[*b] as usize == vals.len()).collect();
            if !stuck.is_empty() {
                rep.violation(format!("C12|fresh|{}|stuck-bits", kind), format!("{} bit positions of {kind} never change over {} sessions", stuck.len(), vals.len()), json!({"kind": kind, "stuck_bits": stuck.iter().take(16).collect::<Vec<_>>()}));
            }
        }
        if let Some(o) = other_process {
            let common = vals.iter().filter(|v| o.contains(&format!("{kind}:{}", hex(v)))).count();
            rep.mon("cross_process_values_compared", vals.len() as u64);
            if common > 0 {
                rep.violation(format!("C12|fresh|{}|same-in-an-independent-process", kind), format!("{common} {kind} values also occur in an independently started process (fixed or process-independent seed)"), json!({"kind": kind, "common": common}));
            }
        }
    }
}

fn run_workload(a: &Args, fresh: &std::sync::Mutex<Fresh>, rep: &mut Report, small: bool) {
    let seed = a.seed;
    let n = if small { 16 } else { a.n(160, 1600) };
    rep.merge(parallel(n, a.threads, |i, rep| sessions_case(seed, i as u64, rep, fresh)));
    let nu = if small { 7 } else { a.n(42, 210) };
    let per = if small { 200 } else if a.thorough { 10_000 } else { 1500 };
    rep.merge(parallel(nu, a.threads, |i, rep| udp_sessions(seed, i as u64, per, rep, fresh)));
}

pub fn run(a: &Args) -> Report {
    let mut rep = Report::new();
    let fresh = std::sync::Mutex::new(Fresh::default());
    if a.sub.as_deref() == Some("emit-fresh") {
        // child mode: run a small workload and print the session randomness for the parent to intersect
        run_workload(a, &fresh, &mut rep, true);
        let g = fresh.lock().unwrap();
        for (k, vals) in &g.values {
            for v in vals {
                println!("FRESH {k}:{}", hex(v));
            }
        }
        return rep;
    }
    run_workload(a, &fresh, &mut rep, false);
    // long sessions (one per encrypted stream protocol family)
    let longs: Vec<Proto> = vec![Proto::Ss(ss::Method::Aes128Gcm), Proto::Ss(ss::Method::B3ChaCha20Poly1305), Proto::Vmess(3), Proto::Vmess(4)];
    let seed = a.seed;
    let longs = if a.scale < 1.0 { longs[..1].to_vec() } else { longs };
    rep.merge(parallel(longs.len(), a.threads, |i, rep| long_session(seed, longs[i], rep)));
    // an independently started second process
    let other: Option<HashSet<String>> = std::env::current_exe().ok().and_then(|exe| {
        let out = std::process::Command::new(exe).args(["c12", "--sub", "emit-fresh", "--seed", &a.seed.to_string(), "--threads", "4"]).output().ok()?;
        let s = String::from_utf8_lossy(&out.stdout);
        let set: HashSet<String> = s.lines().filter_map(|l| l.strip_prefix("FRESH ").map(|x| x.to_string())).collect();
        if set.is_empty() {
            None
        } else {
            Some(set)
        }
    });
    if other.is_none() {
        rep.inconclusive("second process for the cross-process comparison produced nothing");
    }
    let g = fresh.lock().unwrap();
    analyse_fresh(&mut rep, &g, other.as_ref());
    rep.extra.insert("not_decidable_here".into(), json!("unpredictability of the generator (a time- or pid-seeded weak generator passes distinctness, bit-balance and cross-process checks)"));
    rep
}
