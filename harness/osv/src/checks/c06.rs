//! C06 - no relaying without the configured credential; users stay separated.
//! Everything not produced with the configured secret is fed to the real server-side decoders
//! (stream and datagram); the oracle is "no Connect/Relay item, ever". Authenticated users must be
//! answered under their own key only.

use bytes::BytesMut;
use refimpl::ss;
use serde_json::json;

use super::{pin_clock, Args};
use crate::drive::{drain_server, guarded, Fail};
use crate::gen;
use crate::peer::{ClientOpts, RefClient};
use crate::prng::Rng;
use crate::real::{self, all_protos, to_address, Cfg, Proto};
use crate::report::{hex_short, parallel, Report};

fn flip_bit(v: &mut [u8], bit: usize) {
    v[bit / 8] ^= 1 << (bit % 8);
}

/// Variants of `cfg` whose *client side* does not hold the configured credential.
fn wrong_credentials(cfg: &Cfg, rng: &mut Rng) -> Vec<(String, Cfg)> {
    let mut out = Vec::new();
    match cfg.proto {
        Proto::Ss(m) if m.is_2022() => {
            let n = m.key_len();
            if cfg.users.is_empty() {
                let mut c = cfg.clone();
                c.server_psk = rng.bytes(n);
                out.push(("random-psk".into(), c));
                for bit in 0..n * 8 {
                    let mut c = cfg.clone();
                    flip_bit(&mut c.server_psk, bit);
                    out.push((format!("psk-bit-{bit}"), c));
                }
            } else {
                let u = cfg.client_user.unwrap();
                // right user key, wrong server key
                let mut c = cfg.clone();
                c.server_psk = rng.bytes(n);
                out.push(("right-user-wrong-ipsk".into(), c));
                for bit in (0..n * 8).step_by(3) {
                    let mut c = cfg.clone();
                    flip_bit(&mut c.server_psk, bit);
                    out.push((format!("ipsk-bit-{bit}"), c));
                }
                // right server key, unregistered user key
                let mut c = cfg.clone();
                c.users[u].1 = rng.bytes(n);
                out.push(("right-ipsk-unregistered-user".into(), c));
                for bit in (0..n * 8).step_by(3) {
                    let mut c = cfg.clone();
                    flip_bit(&mut c.users[u].1, bit);
                    out.push((format!("upsk-bit-{bit}"), c));
                }
                // the server key used as if it were a user key (no identity header)
                let mut c = cfg.clone();
                c.users.clear();
                c.client_user = None;
                out.push(("ipsk-as-single-user-key".into(), c));
                // the server key alone, dressed up with an identity header: the header names nobody (it is the hash of the
                // server key itself), the request is sealed under the server key. Every current and former user holds
                // that key; without a registered user key it must not relay.
                let mut c = cfg.clone();
                c.users[u].1 = cfg.server_psk.clone();
                out.push(("server-key-only-with-identity-header-naming-nobody".into(), c));
                // a user key used as the server key (no identity header)
                let mut c = cfg.clone();
                c.server_psk = cfg.users[u].1.clone();
                c.users.clear();
                c.client_user = None;
                out.push(("upsk-without-identity-header".into(), c));
            }
        }
        Proto::Ss(_) | Proto::Trojan => {
            let mut c = cfg.clone();
            c.password = real::random_password(rng);
            if c.password != cfg.password {
                out.push(("random-password".into(), c));
            }
            // one-character and case variants
            let mut chars: Vec<char> = cfg.password.chars().collect();
            if !chars.is_empty() {
                let i = rng.below(chars.len() as u64) as usize;
                chars[i] = if chars[i] == 'x' { 'y' } else { 'x' };
                let mut c = cfg.clone();
                c.password = chars.into_iter().collect();
                out.push(("one-char-differs".into(), c));
            }
            let mut c = cfg.clone();
            c.password.push('0');
            out.push(("password-plus-suffix".into(), c));
            let mut c = cfg.clone();
            c.password = String::new();
            out.push(("empty-password".into(), c));
        }
        Proto::Vmess(_) => {
            let mut c = cfg.clone();
            c.uuids = vec![real::uuid_string(&rng.arr())];
            c.client_uuid = 0;
            out.push(("unregistered-uuid".into(), c));
            let base = refimpl::crypto::parse_uuid(&cfg.uuids[cfg.client_uuid]).unwrap();
            for bit in 0..128 {
                let mut b = base;
                flip_bit(&mut b, bit);
                let mut c = cfg.clone();
                c.uuids = vec![real::uuid_string(&b)];
                c.client_uuid = 0;
                out.push((format!("uuid-bit-{bit}"), c));
            }
        }
    }
    out
}

struct Cx<'a> {
    rep: &'a mut Report,
    cfg: &'a Cfg,
    seed: u64,
    index: u64,
}

impl Cx<'_> {
    /// Feed `wire` (in the given pieces) to a fresh real server codec; any yielded item is a violation.
    fn must_not_relay(&mut self, class: &str, detail: &str, wire: &[u8], pieces: &[usize]) {
        let shared = match real::server_shared(self.cfg) {
            Ok(s) => s,
            Err(e) => {
                self.rep.inconclusive(format!("server context: {e}"));
                return;
            }
        };
        let mut server = real::server_codec(self.cfg, &shared).unwrap();
        let mut buf = BytesMut::new();
        self.rep.evaluations += 1;
        self.rep.mon("unauthenticated_streams_presented", 1);
        for (s, e) in gen::pieces(wire.len(), pieces) {
            buf.extend_from_slice(&wire[s..e]);
            let d = drain_server(server.as_mut(), &mut buf, true);
            if !d.items.is_empty() {
                self.rep.violation(
                    format!("C06|stream|{}|{}|item-yielded-without-credential", self.cfg.proto.name(), class),
                    format!("server decoder of {} yielded {:?} for input class '{}' ({})", self.cfg.proto.name(), d.items.iter().map(|i| format!("{:?}", i).chars().take(40).collect::<String>()).collect::<Vec<_>>(), class, detail),
                    json!({"seed": self.seed, "index": self.index, "cfg": self.cfg.describe(), "class": class, "detail": detail, "wire": hex_short(wire)}),
                );
                return;
            }
            match d.stop {
                Some(Fail::Err(_)) => {
                    self.rep.mon("rejected_with_error", 1);
                    return;
                }
                Some(Fail::Panic(_)) => {
                    self.rep.mon("panics_seen_(judged_by_C07)", 1);
                    return;
                }
                None => {}
            }
        }
        self.rep.mon("left_waiting_for_more_input", 1);
    }
}

fn one_case(seed: u64, i: u64, rep: &mut Report) {
    let mut rng = Rng::derive(seed, 0xC06, i);
    let protos = all_protos();
    let proto = protos[(i % protos.len() as u64) as usize];
    let n_users = [0usize, 1, 3][((i / protos.len() as u64) % 3) as usize];
    let cfg = Cfg::random(&mut rng, proto, n_users);
    let now = 1_700_000_000 + rng.below(1000);
    pin_clock(now);
    let target = gen::random_addr(&mut rng);
    let pl = *rng.pick(&[1usize, 100, 1500]);
    let payload = rng.bytes(pl);
    if i < 3 {
        rep.sample(json!({"seed": seed, "index": i, "cfg": cfg.describe(), "classes": ["random bytes (every length 0..300)", "valid handshake under wrong credential (random / every key bit / password variants / unregistered user / wrong iPSK)", "valid handshake of every other protocol", "every proper prefix of a valid handshake + silence / + random bytes", "user attribution for every user of the table"]}));
    }
    let mut cx = Cx { rep, cfg: &cfg, seed, index: i };
    rep_distinct(&mut cx);
    // (1) random bytes
    for len in 0..=300usize {
        let w = rng.bytes(len);
        cx.must_not_relay("random-bytes", &format!("len={len}"), &w, &[]);
    }
    for len in [1000usize, 5000, 70000] {
        let w = rng.bytes(len);
        let cuts = gen::random_cuts(&mut rng, len, 5);
        cx.must_not_relay("random-bytes", &format!("len={len}"), &w, &cuts);
    }
    // (2) wrong credentials
    for (name, wrong) in wrong_credentials(&cfg, &mut rng) {
        let vopt = *rng.pick(&refimpl::vmess::VALID_OPTION_MASKS);
        let mut c = RefClient::new(&wrong, &target, &mut rng, now, ClientOpts { vmess_option: vopt, ..Default::default() });
        let w = c.write(&payload, &mut rng);
        let class = name.split("-bit-").next().unwrap().to_string() + if name.contains("-bit-") { "-bit-flip" } else { "" };
        cx.must_not_relay(&class, &name, &w, &[]);
        if name.starts_with("server-key-only-with-identity-header") {
            if let Proto::Ss(m) = cfg.proto {
                // the same request with arbitrary bytes / zeros in the identity-header slot
                for fill in 0..3 {
                    let mut w2 = w.clone();
                    let k = m.key_len();
                    let junk = match fill {
                        0 => rng.bytes(16),
                        1 => vec![0u8; 16],
                        _ => w2[..16].to_vec(),
                    };
                    w2[k..k + 16].copy_from_slice(&junk);
                    cx.must_not_relay("server-key-only-with-junk-identity-header", &format!("fill={fill}"), &w2, &[]);
                }
            }
        }
    }
    // (3) other protocols' valid handshakes
    for other in all_protos() {
        if std::mem::discriminant(&other) == std::mem::discriminant(&cfg.proto) && other == cfg.proto {
            continue;
        }
        let ocfg = Cfg::random(&mut rng, other, 0);
        let mut c = RefClient::new(&ocfg, &target, &mut rng, now, ClientOpts::default());
        let w = c.write(&payload, &mut rng);
        cx.must_not_relay("other-protocol-handshake", &other.name(), &w, &[]);
    }
    // (4) proper prefixes of a valid handshake: alone, and continued with random bytes
    {
        let mut c = RefClient::new(&cfg, &target, &mut rng, now, ClientOpts::default());
        let full = c.write(&[], &mut rng); // header only (no payload): every proper prefix is unauthenticated or incomplete
        let head_len = match cfg.proto {
            // the prefix that carries the credential proof; everything shorter must never relay
            Proto::Ss(m) if m.is_2022() => m.key_len() + if cfg.users.is_empty() { 0 } else { 16 } + 11 + 16,
            Proto::Ss(m) => m.key_len() + 2 + 16,
            Proto::Vmess(_) => 16 + 18 + 8,
            Proto::Trojan => 58,
        }
        .min(full.len());
        for cut in 0..head_len {
            cx.must_not_relay("handshake-prefix+silence", &format!("cut={cut}"), &full[..cut], &[]);
            let mut w = full[..cut].to_vec();
            w.extend_from_slice(&rng.bytes(full.len() - cut + 40));
            if w[..head_len.min(w.len())] == full[..head_len.min(w.len())] {
                continue;
            }
            cx.must_not_relay("handshake-prefix+random", &format!("cut={cut}"), &w, &[cut.max(1)]);
        }
    }
    // (2b) Trojan: credentials that differ from the right one at the level of the transmitted hash
    if let Proto::Trojan = cfg.proto {
        let right = refimpl::crypto::sha224_hex(cfg.password.as_bytes()).into_bytes();
        let mut present = |cx: &mut Cx, class: &str, hash: &[u8]| {
            let mut w = hash.to_vec();
            w.extend_from_slice(b"\r\n\x01");
            refimpl::addr::socks_encode(&target, &mut w);
            w.extend_from_slice(b"\r\n");
            w.extend_from_slice(&payload);
            cx.must_not_relay(class, "", &w, &[]);
        };
        // every single hex digit replaced by every other digit
        for pos in 0..56 {
            for d in b"0123456789abcdef" {
                if right[pos] != *d {
                    let mut h = right.clone();
                    h[pos] = *d;
                    present(&mut cx, "trojan-hash-one-digit-differs", &h);
                }
            }
        }
        // the same bit flipped in two different bytes of the hash (cancels in any xor-folded comparison)
        let raw: Vec<u8> = (0..28).map(|i| u8::from_str_radix(std::str::from_utf8(&right[2 * i..2 * i + 2]).unwrap(), 16).unwrap()).collect();
        for i in 0..28 {
            for j in i + 1..28 {
                let bit = 1u8 << ((i + j) % 8);
                let mut r = raw.clone();
                r[i] ^= bit;
                r[j] ^= bit;
                let h: Vec<u8> = r.iter().flat_map(|b| format!("{:02x}", b).into_bytes()).collect();
                present(&mut cx, "trojan-hash-two-bytes-differ", &h);
            }
        }
        // many unrelated passwords (a comparison that folds the hash to a few bits lets some of them through)
        for k in 0..4000u32 {
            let h = refimpl::crypto::sha224_hex(format!("guess-{}-{}", i, k).as_bytes()).into_bytes();
            present(&mut cx, "trojan-unrelated-password", &h);
        }
        // digest fields that are not 56 hex digits at all: a decoder that skips, stops at or mis-reads what is no digit may
        // end up comparing nothing (or less than 28 bytes) with the configured digest
        for c in 0..=255u8 {
            if c.is_ascii_hexdigit() {
                continue;
            }
            present(&mut cx, "trojan-digest-field-of-one-repeated-non-hex-byte", &[c; 56]);
        }
        for filler in [b' ', b'\t', b'\r', b'\n', 0u8, b'g', b'G', b'+', b'-', b'x', 0x80, 0xff] {
            // the first k digits of the RIGHT digest, the rest filler - and the other way round
            for k in 0..=52usize {
                let mut h = vec![filler; 56];
                h[..k].copy_from_slice(&right[..k]);
                present(&mut cx, "trojan-right-digest-prefix+non-hex-filler", &h);
                let mut h = vec![filler; 56];
                h[56 - k..].copy_from_slice(&right[56 - k..]);
                present(&mut cx, "trojan-non-hex-filler+right-digest-suffix", &h);
            }
        }
        // (a field that differs from the right digest in ONE character still shows knowledge of 55 of its 56 digits: Rust's
        // from_str_radix reads "+f" as 0x0f, so such a field can be accepted without any credential being bypassed - not judged)
    }
    // (5) VMess: valid auth id (right user) but header sealed under another key
    if let Proto::Vmess(_) = cfg.proto {
        let ck = cfg.ref_cmd_keys()[cfg.client_uuid];
        let other = refimpl::crypto::vmess_cmd_key(&rng.arr());
        let aid = refimpl::vmess::make_auth_id(&ck, now as i64, rng.next_u32());
        let c = RefClient::new(&cfg, &target, &mut rng, now, ClientOpts::default());
        let hdr = c.vmess_header().unwrap().clone();
        let w = refimpl::vmess::seal_request_header(&other, &hdr, &aid, &rng.arr());
        cx.must_not_relay("vmess-valid-authid-foreign-header-key", "", &w, &[]);
    }
    // (6) the credential of ANOTHER inbound of the same process: a second deployment of the same protocol and cipher (own
    // key / password / user table) is brought up first and used - its context built, a request of its own accepted by
    // its own decoder, as a second entry of the configuration file would - then a request that is valid THERE is
    // presented HERE. Whatever the process keeps per protocol rather than per inbound shows up as an item.
    for n_other in [0usize, 2] {
        // (a second inbound with a credential of its OWN: short random passwords do collide now and then)
        let mut other = Cfg::random(&mut rng, proto, n_other);
        for _ in 0..8 {
            if other.password != cfg.password && other.uuids.iter().all(|u| !cfg.uuids.contains(u)) {
                break;
            }
            other = Cfg::random(&mut rng, proto, n_other);
        }
        if other.password == cfg.password || other.uuids.iter().any(|u| cfg.uuids.contains(u)) {
            continue;
        }
        let vopt = *rng.pick(&refimpl::vmess::VALID_OPTION_MASKS);
        let used_there = (|| {
            let sh = real::server_shared(&other).ok()?;
            let mut dec = real::server_codec(&other, &sh).ok()?;
            let mut c = RefClient::new(&other, &target, &mut rng, now, ClientOpts { vmess_option: vopt, ..Default::default() });
            let mut b = BytesMut::from(&c.write(&payload, &mut rng)[..]);
            Some(!drain_server(dec.as_mut(), &mut b, true).items.is_empty())
        })();
        if used_there != Some(true) {
            cx.rep.inconclusive("the second inbound of the process did not accept its own client");
            continue;
        }
        cx.rep.mon("second_inbounds_brought_up_in_the_process", 1);
        let mut c = RefClient::new(&other, &target, &mut rng, now, ClientOpts { vmess_option: vopt, ..Default::default() });
        let w = c.write(&payload, &mut rng);
        cx.must_not_relay("credential-of-another-inbound-of-this-process", &format!("users_there={n_other}"), &w, &[]);
    }
    // user separation
    user_separation(&mut cx, &mut rng, now);
}

fn rep_distinct(cx: &mut Cx) {
    let k = (cx.seed, cx.index);
    cx.rep.distinct.insert(crate::report::hash_of(&k));
}

/// Each registered user's request is accepted, attributed to that user, and answered under that user's key only.
fn user_separation(cx: &mut Cx, rng: &mut Rng, now: u64) {
    let cfg = cx.cfg;
    let m = match cfg.proto {
        Proto::Ss(m) if m.is_2022() && !cfg.users.is_empty() => m,
        _ => return,
    };
    let shared = real::server_shared(cfg).unwrap();
    let udp = real::ss_udp_server(cfg).unwrap();
    for u in 0..cfg.users.len() {
        let mut as_user = cfg.clone();
        as_user.client_user = Some(u);
        let target = gen::random_addr(rng);
        // TCP: request as user u, response must open under u's key and under no other user's key
        let mut client = RefClient::new(&as_user, &target, rng, now, ClientOpts::default());
        let w = client.write(b"hello", rng);
        let mut server = real::server_codec(cfg, &shared).unwrap();
        let mut buf = BytesMut::from(&w[..]);
        let d = drain_server(server.as_mut(), &mut buf, true);
        cx.rep.evaluations += 1;
        if d.items.is_empty() {
            cx.rep.violation(format!("C06|users|{}|registered-user-refused", m.name()), "a registered user's request was not accepted", json!({"seed": cx.seed, "index": cx.index, "user": u, "cfg": cfg.describe(), "stop": d.stop.map(|f| f.describe())}));
            continue;
        }
        let mut resp = BytesMut::new();
        if guarded(|| server.encode_tcp(b"world", &mut resp)).is_err() {
            continue;
        }
        let salt = client.ss2022_salt().unwrap().to_vec();
        for v in 0..cfg.users.len() {
            let mut r = ss::S22ClientReader::new(m, &cfg.users[v].1, &salt, now);
            let opened = matches!(r.feed(&resp), Ok(p) if p == b"world");
            cx.rep.mon("response_key_trials", 1);
            if opened != (v == u) {
                let sym = if v == u { "response-does-not-open-under-the-requesting-users-key" } else { "response-opens-under-another-users-key" };
                cx.rep.violation(format!("C06|users|{}|tcp|{}", m.name(), sym), sym, json!({"seed": cx.seed, "index": cx.index, "requesting_user": u, "trial_user": v, "cfg": cfg.describe()}));
            }
        }
        let mut r = ss::S22ClientReader::new(m, &cfg.server_psk, &salt, now);
        if matches!(r.feed(&resp), Ok(p) if p == b"world") {
            cx.rep.violation(format!("C06|users|{}|tcp|response-opens-under-the-server-key", m.name()), "multi-user response sealed under the server key", json!({"seed": cx.seed, "index": cx.index, "user": u}));
        }
        // UDP: every other user, on the SAME client session id: an honest packet of that user must be accepted and
        // attributed to it; a packet sealed under this user's key but naming the other user must be refused
        for v in 0..cfg.users.len() {
            if v == u {
                continue;
            }
            let sid = rng.next_u64();
            let mk = |pid: u64, payload: &[u8]| ss::S22UdpPacket { session_id: sid, packet_id: pid, type_byte: 0, timestamp: now, client_session_id: None, padding: vec![], addr: target.clone(), payload: payload.to_vec() };
            let mut as_v = cfg.clone();
            as_v.client_user = Some(v);
            // u opens session sid
            let w1 = ss::s22_udp_client_encode(m, &as_user.ref_client_keys(), &mk(1, b"from-u"), &rng.arr());
            // forged: sealed by u, labelled v
            let w2 = ss::s22_udp_client_encode_forged(m, &cfg.server_psk, &cfg.users[u].1, &cfg.users[v].1, &mk(2, b"forged"), &rng.arr());
            // honest v on the same session id
            let w3 = ss::s22_udp_client_encode(m, &as_v.ref_client_keys(), &mk(3, b"from-v"), &rng.arr());
            let mut res = Vec::new();
            for w in [&w1, &w2, &w3] {
                let mut src = BytesMut::from(&w[..]);
                res.push(match guarded(|| udp.decode(&mut src)) {
                    Ok(Some(d)) => Some(d.user.unwrap_or_default()),
                    _ => None,
                });
            }
            cx.rep.evaluations += 1;
            cx.rep.mon("cross_user_same_session_trials", 1);
            let (nu, nv) = (cfg.users[u].0.clone(), cfg.users[v].0.clone());
            if res[0].as_deref() != Some(nu.as_str()) {
                cx.rep.violation(format!("C06|users|{}|udp|registered-user-refused", m.name()), "a registered user's datagram was not accepted", json!({"seed": cx.seed, "index": cx.index, "user": u}));
            }
            if res[1].is_some() {
                cx.rep.violation(format!("C06|users|{}|udp|datagram-sealed-by-one-user-accepted-as-another", m.name()), format!("a datagram sealed under {nu}'s key with an identity header naming {nv} was accepted (attributed to {:?})", res[1]), json!({"seed": cx.seed, "index": cx.index, "sealed_by": u, "labelled": v, "same_session_id": true}));
            }
            if res[2].as_deref() != Some(nv.as_str()) {
                cx.rep.violation(format!("C06|users|{}|udp|user-refused-or-misattributed-on-a-session-id-used-by-another-user", m.name()), format!("{nv}'s honest datagram on a session id previously used by {nu} came out as {:?}", res[2]), json!({"seed": cx.seed, "index": cx.index, "first_user": u, "second_user": v}));
            }
        }
        // UDP: attribution and reply key
        let keys = as_user.ref_client_keys();
        let sid = rng.next_u64();
        let p = ss::S22UdpPacket { session_id: sid, packet_id: 1, type_byte: 0, timestamp: now, client_session_id: None, padding: vec![], addr: target.clone(), payload: b"ping".to_vec() };
        let w = ss::s22_udp_client_encode(m, &keys, &p, &rng.arr());
        let mut src = BytesMut::from(&w[..]);
        cx.rep.evaluations += 1;
        match guarded(|| udp.decode(&mut src)) {
            Ok(Some(d)) => {
                if d.user.as_deref() != Some(cfg.users[u].0.as_str()) {
                    cx.rep.violation(format!("C06|users|{}|udp|datagram-attributed-to-another-user", m.name()), "a datagram authenticated as one user was attributed to another", json!({"seed": cx.seed, "index": cx.index, "user": u, "attributed": d.user}));
                }
                let mut dst = BytesMut::new();
                if guarded(|| udp.encode(b"pong", &to_address(&refimpl::addr::Addr::V4([1, 1, 1, 1], 53)), sid, rng.next_u64(), 1, d.user.as_deref(), &mut dst)).is_ok() {
                    for v in 0..cfg.users.len() {
                        let opened = ss::s22_udp_client_decode(m, &cfg.users[v].1, &dst).is_ok();
                        cx.rep.mon("response_key_trials", 1);
                        if opened != (v == u) {
                            let sym = if v == u { "reply-does-not-open-under-the-users-key" } else { "reply-opens-under-another-users-key" };
                            cx.rep.violation(format!("C06|users|{}|udp|{}", m.name(), sym), sym, json!({"seed": cx.seed, "index": cx.index, "user": u, "trial_user": v}));
                        }
                    }
                }
            }
            Ok(None) | Err(_) => {
                cx.rep.violation(format!("C06|users|{}|udp|registered-user-refused", m.name()), "a registered user's datagram was not accepted", json!({"seed": cx.seed, "index": cx.index, "user": u}));
            }
        }
    }
}

/// Unauthenticated datagrams at the Shadowsocks UDP server decoder.
fn udp_case(seed: u64, i: u64, rep: &mut Report) {
    let mut rng = Rng::derive(seed, 0xC06D, i);
    let m = ss::ALL_METHODS[(i % 7) as usize];
    let n_users = if m.supports_eih() { [0usize, 1, 3][((i / 7) % 3) as usize] } else { 0 };
    let cfg = Cfg::random(&mut rng, Proto::Ss(m), n_users);
    let now = 1_700_000_000;
    pin_clock(now);
    let server = real::ss_udp_server(&cfg).unwrap();
    let target = gen::random_addr(&mut rng);
    let mut present = |rep: &mut Report, class: &str, w: &[u8]| {
        let mut src = BytesMut::from(w);
        rep.evaluations += 1;
        rep.mon("unauthenticated_datagrams_presented", 1);
        if let Ok(Some(d)) = guarded(|| server.decode(&mut src)) {
            rep.violation(format!("C06|udp|{}|{}|item-yielded-without-credential", m.name(), class), format!("UDP server decoder yielded a datagram ({} bytes) for input class '{}'", d.payload.len(), class), json!({"seed": seed, "index": i, "cfg": cfg.describe(), "wire": hex_short(w)}));
        }
    };
    for len in 0..=200usize {
        present(rep, "random-bytes", &rng.bytes(len));
    }
    for (name, wrong) in wrong_credentials(&cfg, &mut rng) {
        let keys = wrong.ref_client_keys();
        let w = if m.is_2022() {
            let p = ss::S22UdpPacket { session_id: rng.next_u64(), packet_id: 1, type_byte: 0, timestamp: now, client_session_id: None, padding: vec![], addr: target.clone(), payload: b"x".to_vec() };
            if !keys.ipsks.is_empty() && !m.supports_eih() {
                continue;
            }
            ss::s22_udp_client_encode(m, &keys, &p, &rng.arr())
        } else {
            ss::sip004_udp_encode(m, &keys.psk, &rng.bytes(m.key_len()), &target, b"x")
        };
        let class = name.split("-bit-").next().unwrap().to_string() + if name.contains("-bit-") { "-bit-flip" } else { "" };
        present(rep, &class, &w);
        if name.starts_with("server-key-only-with-identity-header") && w.len() > 32 {
            for fill in 0..2 {
                let mut w2 = w.clone();
                let junk = if fill == 0 { rng.bytes(16) } else { vec![0u8; 16] };
                w2[16..32].copy_from_slice(&junk);
                present(rep, "server-key-only-with-junk-identity-header", &w2);
            }
        }
    }
    rep.distinct.insert(0xE000_0000 + i);
}

pub fn run(a: &Args) -> Report {
    let seed = a.seed;
    let n = a.n(300, 1200);
    let mut rep = parallel(n, a.threads, |i, rep| one_case(seed, i as u64, rep));
    let r2 = parallel(a.n(168, 840), a.threads, |i, rep| udp_case(seed, i as u64, rep));
    rep.merge(r2);
    rep
}
