//! One hash set over (key fingerprint, nonce) of every AEAD unit the instrumented reference decoder opened: the reuse
//! detector of C12, shared by the codec-level and the node-level monitors.

use std::collections::HashMap;

use refimpl::Unit;
use serde_json::json;

use crate::report::{hex, Report};

#[derive(Default)]
pub(crate) struct UnitSet {
    seen: HashMap<([u8; 8], Vec<u8>), (&'static str, u64)>,
    /// units seen so far per (key, kind): the position of a unit within its own counter sequence
    per_key: HashMap<([u8; 8], &'static str), u64>,
    pub(crate) count: u64,
}

impl UnitSet {
    /// Returns the colliding pair description if (key, nonce) was seen before.
    pub(crate) fn add(&mut self, u: Unit) -> Option<(String, &'static str, &'static str)> {
        self.count += 1;
        let pos = {
            let e = self.per_key.entry((u.key_fp, u.what)).or_insert(0);
            *e += 1;
            *e - 1
        };
        let k = (u.key_fp, u.nonce.clone());
        if let Some((prev, prev_pos)) = self.seen.get(&k) {
            // VMess numbers its chunks with a 16-bit counter: chunk k and chunk k+65536 of one direction share a nonce
            // by protocol definition (the property exempts "the counter width the protocol itself defines")
            if u.what.starts_with("vmess") && *prev == u.what && pos > *prev_pos && (pos - *prev_pos) % 65536 == 0 {
                return None;
            }
            return Some((format!("key_fp={} nonce={}", hex(&u.key_fp), hex(&u.nonce)), *prev, u.what));
        }
        self.seen.insert(k, (u.what, pos));
        None
    }
}

pub(crate) fn check_units(rep: &mut Report, what: &str, proto: &str, units: Vec<Unit>, set: &mut UnitSet, ctx: serde_json::Value) {
    for u in units {
        if let Some((kn, a, b)) = set.add(u) {
            let mut pair = [a, b];
            pair.sort();
            rep.violation(format!("C12|{}|{}|nonce-reuse:{}+{}", what, proto, pair[0], pair[1]), format!("two AEAD units share key and nonce ({} and {})", pair[0], pair[1]), json!({"units": kn, "context": ctx}));
        }
    }
}
