//! Deterministic PRNG for workload choices (SplitMix64). Everything a check does derives from VERIF_SEED.

#[derive(Clone)]
pub struct Rng(u64);

impl Rng {
    pub fn new(seed: u64) -> Self {
        Rng(seed ^ 0x9E37_79B9_7F4A_7C15)
    }
    /// Independent stream for (seed, a, b) - counter-based derivation.
    pub fn derive(seed: u64, a: u64, b: u64) -> Self {
        let mut r = Rng::new(seed);
        let x = r.next_u64() ^ a.wrapping_mul(0xD6E8_FEB8_6659_FD93);
        let mut r = Rng::new(x);
        let y = r.next_u64() ^ b.wrapping_mul(0xCA5A_8264_1DAD_9F35);
        Rng::new(y)
    }
    pub fn next_u64(&mut self) -> u64 {
        self.0 = self.0.wrapping_add(0x9E37_79B9_7F4A_7C15);
        let mut z = self.0;
        z = (z ^ (z >> 30)).wrapping_mul(0xBF58_476D_1CE4_E5B9);
        z = (z ^ (z >> 27)).wrapping_mul(0x94D0_49BB_1331_11EB);
        z ^ (z >> 31)
    }
    pub fn next_u32(&mut self) -> u32 {
        (self.next_u64() >> 32) as u32
    }
    pub fn below(&mut self, n: u64) -> u64 {
        if n == 0 {
            0
        } else {
            self.next_u64() % n
        }
    }
    pub fn range(&mut self, lo: usize, hi_incl: usize) -> usize {
        lo + self.below((hi_incl - lo + 1) as u64) as usize
    }
    pub fn chance(&mut self, num: u64, den: u64) -> bool {
        self.below(den) < num
    }
    pub fn pick<'a, T>(&mut self, xs: &'a [T]) -> &'a T {
        &xs[self.below(xs.len() as u64) as usize]
    }
    pub fn bytes(&mut self, n: usize) -> Vec<u8> {
        let mut v = Vec::with_capacity(n + 8);
        while v.len() < n {
            v.extend_from_slice(&self.next_u64().to_le_bytes());
        }
        v.truncate(n);
        v
    }
    pub fn fill(&mut self, b: &mut [u8]) {
        let v = self.bytes(b.len());
        b.copy_from_slice(&v);
    }
    pub fn arr<const N: usize>(&mut self) -> [u8; N] {
        let mut a = [0u8; N];
        self.fill(&mut a);
        a
    }
}

/// Positional stream: byte i of stream (nonce, flow, dir). O(1) state for a receiver to verify order/loss/dup.
pub fn stream_byte(nonce: u64, flow: u64, dir: u64, i: u64) -> u8 {
    let block = i / 8;
    let mut r = Rng::new(nonce ^ flow.wrapping_mul(0x1000_0000_01B3) ^ dir.wrapping_mul(0xA076_1D64_78BD_642F) ^ block.wrapping_mul(0xE703_7ED1_A0B4_28DB));
    (r.next_u64() >> ((i % 8) * 8)) as u8
}

pub fn stream_fill(nonce: u64, flow: u64, dir: u64, start: u64, out: &mut [u8]) {
    let mut i = start;
    let mut k = 0;
    while k < out.len() {
        let block = i / 8;
        let mut r = Rng::new(nonce ^ flow.wrapping_mul(0x1000_0000_01B3) ^ dir.wrapping_mul(0xA076_1D64_78BD_642F) ^ block.wrapping_mul(0xE703_7ED1_A0B4_28DB));
        let w = r.next_u64().to_le_bytes();
        let mut j = (i % 8) as usize;
        while j < 8 && k < out.len() {
            out[k] = w[j];
            k += 1;
            j += 1;
            i += 1;
        }
    }
}
