//! Reference-implementation peers: a client and a server built on `refimpl`, per protocol,
//! with a uniform interface. They are the independent side of every differential check.

use refimpl::addr::Addr;
use refimpl::ss::{self, Method};
use refimpl::vmess;
use refimpl::{RefError, RefResult};

use crate::prng::Rng;
use crate::real::{Cfg, Proto};

#[derive(Clone, Debug)]
pub struct ClientOpts {
    /// VMess option mask (must be one of vmess::VALID_OPTION_MASKS)
    pub vmess_option: u8,
    /// largest payload per chunk the reference sender uses
    pub max_chunk: usize,
    /// SS2022: put the first write into the request header (else padding only)
    pub initial_payload: bool,
    /// datagram-in-stream command (VMess cmd 2 / Trojan cmd 3)
    pub dgram: bool,
    /// override the timestamp (SS2022 / VMess auth id); None = now
    pub timestamp: Option<i64>,
    /// SS2022 request type byte
    pub type_byte: u8,
    /// enforce sender limits on what the server sends (SIP004 chunks of at most 0x3FFF bytes)
    pub strict_limits: bool,
}

impl Default for ClientOpts {
    fn default() -> Self {
        Self { vmess_option: 0x1D, max_chunk: 0x3FFF, initial_payload: true, dgram: false, timestamp: None, type_byte: 0, strict_limits: false }
    }
}

enum ClientState {
    Ss004 { w: ss::Sip004Writer, r: ss::Sip004Reader, sent_addr: bool },
    Ss022 { cc: Option<ss::ChunkCipher>, r: ss::S22ClientReader, salt: Vec<u8> },
    Vmess { head_sent: bool, w: vmess::Body, r: vmess::Body, hdr: vmess::RequestHeader, resp_buf: Vec<u8>, resp_done: bool, auth_id: [u8; 16], conn_nonce: [u8; 8] },
    Trojan { head_sent: bool, buf: Vec<u8> },
}

pub struct RefClient {
    pub cfg: Cfg,
    pub target: Addr,
    pub opts: ClientOpts,
    pub now: u64,
    st: ClientState,
}

impl RefClient {
    pub fn new(cfg: &Cfg, target: &Addr, rng: &mut Rng, now: u64, opts: ClientOpts) -> Self {
        let st = match cfg.proto {
            Proto::Ss(m) if !m.is_2022() => {
                let master = cfg.ref_client_keys().psk;
                ClientState::Ss004 { w: ss::Sip004Writer::new(m, &master, rng.bytes(m.key_len())), r: ss::Sip004Reader::new(m, &master, opts.strict_limits), sent_addr: false }
            }
            Proto::Ss(m) => {
                let keys = cfg.ref_client_keys();
                let salt = rng.bytes(m.key_len());
                ClientState::Ss022 { cc: None, r: ss::S22ClientReader::new(m, &keys.psk, &salt, now), salt }
            }
            Proto::Vmess(sec) => {
                let hdr = vmess::RequestHeader {
                    version: 1,
                    body_iv: rng.arr(),
                    body_key: rng.arr(),
                    resp_v: rng.next_u32() as u8,
                    option: opts.vmess_option,
                    padding: {
                        let n = rng.below(16) as usize;
                        rng.bytes(n)
                    },
                    security: sec,
                    reserved: 0,
                    command: if opts.dgram { vmess::CMD_UDP } else { vmess::CMD_TCP },
                    addr: target.clone(),
                };
                let ck = cfg.ref_cmd_keys()[cfg.client_uuid];
                let t = opts.timestamp.unwrap_or(now as i64);
                let auth_id = vmess::make_auth_id(&ck, t, rng.next_u32());
                ClientState::Vmess {
                    head_sent: false,
                    w: vmess::Body::new(vmess::Direction::Request, sec, opts.vmess_option, &hdr.body_key, &hdr.body_iv),
                    r: vmess::Body::new(vmess::Direction::Response, sec, opts.vmess_option, &hdr.body_key, &hdr.body_iv),
                    hdr,
                    resp_buf: vec![],
                    resp_done: false,
                    auth_id,
                    conn_nonce: rng.arr(),
                }
            }
            Proto::Trojan => ClientState::Trojan { head_sent: false, buf: vec![] },
        };
        Self { cfg: cfg.clone(), target: target.clone(), opts, now, st }
    }

    pub fn ss2022_salt(&self) -> Option<&[u8]> {
        if let ClientState::Ss022 { salt, .. } = &self.st {
            Some(salt)
        } else {
            None
        }
    }
    /// lengths of the Shadowsocks chunks read from the server so far
    pub fn ss_chunk_lens(&self) -> Vec<usize> {
        match &self.st {
            ClientState::Ss004 { r, .. } => r.chunks.chunk_lens.clone(),
            ClientState::Ss022 { r, .. } => r.chunks.chunk_lens.clone(),
            _ => vec![],
        }
    }
    pub fn vmess_header(&self) -> Option<&vmess::RequestHeader> {
        if let ClientState::Vmess { hdr, .. } = &self.st {
            Some(hdr)
        } else {
            None
        }
    }

    /// Wire bytes for one application write (stream mode).
    pub fn write(&mut self, data: &[u8], rng: &mut Rng) -> Vec<u8> {
        let mut out = Vec::new();
        let max = self.opts.max_chunk;
        match &mut self.st {
            ClientState::Ss004 { w, sent_addr, .. } => {
                if !*sent_addr {
                    let mut first = Vec::new();
                    refimpl::addr::socks_encode(&self.target, &mut first);
                    first.extend_from_slice(data);
                    w.write(&first, max, &mut out);
                    *sent_addr = true;
                } else {
                    w.write(data, max, &mut out);
                }
            }
            ClientState::Ss022 { cc, salt, .. } => {
                let m = self.cfg.method().unwrap();
                match cc {
                    None => {
                        let keys = self.cfg.ref_client_keys();
                        let (initial, rest): (&[u8], &[u8]) = if self.opts.initial_payload && !data.is_empty() {
                            let head = 1 + 2 + 255 + 2 + 2; // address + padding length worst case
                            let n = data.len().min(max).min(0xFFFF - head);
                            (&data[..n], &data[n..])
                        } else {
                            (&[], data)
                        };
                        let padding = if initial.is_empty() {
                            let n = rng.range(1, ss::MAX_PADDING);
                            rng.bytes(n)
                        } else {
                            vec![]
                        };
                        let req = ss::S22Request {
                            type_byte: self.opts.type_byte,
                            timestamp: self.opts.timestamp.map(|t| t as u64).unwrap_or(self.now),
                            addr: self.target.clone(),
                            padding,
                            initial_payload: initial.to_vec(),
                        };
                        let (w, mut c) = ss::s22_request_encode(m, &keys, salt, &req);
                        out.extend_from_slice(&w);
                        ss::write_chunks(&mut c, rest, max, &mut out);
                        *cc = Some(c);
                    }
                    Some(c) => ss::write_chunks(c, data, max, &mut out),
                }
            }
            ClientState::Vmess { head_sent, w, hdr, auth_id, conn_nonce, .. } => {
                if !*head_sent {
                    let ck = self.cfg.ref_cmd_keys()[self.cfg.client_uuid];
                    out.extend_from_slice(&vmess::seal_request_header(&ck, hdr, auth_id, conn_nonce));
                    *head_sent = true;
                }
                let cap = max.min(0xFFFF - 16 - 64);
                let mut pad = |n: usize| rng.bytes(n);
                if self.opts.dgram {
                    w.write_chunk(data, &mut pad, &mut out);
                } else {
                    w.write(data, cap, &mut pad, &mut out);
                }
            }
            ClientState::Trojan { head_sent, .. } => {
                if !*head_sent {
                    let cmd = if self.opts.dgram { refimpl::trojan::CMD_UDP } else { refimpl::trojan::CMD_CONNECT };
                    out.extend_from_slice(&refimpl::trojan::request_encode(self.cfg.password.as_bytes(), cmd, &self.target, &[]));
                    *head_sent = true;
                }
                if self.opts.dgram {
                    refimpl::trojan::udp_encode(&self.target, data, &mut out);
                } else {
                    out.extend_from_slice(data);
                }
            }
        }
        out
    }

    /// VMess only: the terminating empty chunk a v2ray client sends when the application closes.
    pub fn write_end(&mut self, rng: &mut Rng) -> Vec<u8> {
        let mut out = Vec::new();
        if let ClientState::Vmess { w, .. } = &mut self.st {
            let mut pad = |n: usize| rng.bytes(n);
            w.write_chunk(&[], &mut pad, &mut out);
        }
        out
    }

    /// Feed response bytes (strict); returns the units of plaintext completed (one per chunk/datagram).
    pub fn read_units(&mut self, bytes: &[u8]) -> RefResult<Vec<Vec<u8>>> {
        match &mut self.st {
            ClientState::Ss004 { r, .. } => Ok(vec![r.feed(bytes)?]),
            ClientState::Ss022 { r, .. } => Ok(vec![r.feed(bytes)?]),
            ClientState::Vmess { r, hdr, resp_buf, resp_done, .. } => {
                let mut rest: Vec<u8> = bytes.to_vec();
                if !*resp_done {
                    resp_buf.extend_from_slice(bytes);
                    let (rk, ri) = vmess::response_keys(&hdr.body_key, &hdr.body_iv);
                    match vmess::open_response_header(&rk, &ri, resp_buf) {
                        Ok((content, used)) => {
                            if content.is_empty() || content[0] != hdr.resp_v {
                                return Err(RefError::Spec("response authentication byte mismatch".into()));
                            }
                            rest = resp_buf[used..].to_vec();
                            resp_buf.clear();
                            *resp_done = true;
                        }
                        Err(RefError::Incomplete) => return Ok(vec![]),
                        Err(e) => return Err(e),
                    }
                }
                r.feed(&rest)
            }
            ClientState::Trojan { buf, .. } => {
                if self.opts.dgram {
                    buf.extend_from_slice(bytes);
                    let mut out = Vec::new();
                    loop {
                        match refimpl::trojan::udp_decode(buf) {
                            Ok((_a, p, used)) => {
                                buf.drain(..used);
                                out.push(p);
                            }
                            Err(RefError::Incomplete) => break,
                            Err(e) => return Err(e),
                        }
                    }
                    Ok(out)
                } else {
                    Ok(vec![bytes.to_vec()])
                }
            }
        }
    }

    pub fn read(&mut self, bytes: &[u8]) -> RefResult<Vec<u8>> {
        Ok(self.read_units(bytes)?.concat())
    }
}

#[derive(Clone, Debug)]
pub struct ServerOpts {
    pub max_chunk: usize,
    pub timestamp: Option<u64>,
    pub type_byte: u8,
    /// SS2022: request salt to echo (None = the one received)
    pub echo_salt: Option<Vec<u8>>,
    /// VMess: response authentication byte override
    pub resp_v: Option<u8>,
    /// enforce sender limits (SIP004 0x3FFF)
    pub strict_limits: bool,
}

impl Default for ServerOpts {
    fn default() -> Self {
        Self { max_chunk: 0x3FFF, timestamp: None, type_byte: 1, echo_salt: None, resp_v: None, strict_limits: true }
    }
}

enum ServerState {
    Ss004 { r: ss::Sip004Reader, w: Option<ss::Sip004Writer>, pending: Vec<u8> },
    Ss022 { r: ss::S22ServerReader, cc: Option<ss::ChunkCipher> },
    Vmess { buf: Vec<u8>, opened: Option<vmess::OpenedRequest>, r: Option<vmess::Body>, w: Option<vmess::Body>, head_sent: bool },
    Trojan { buf: Vec<u8>, req: Option<refimpl::trojan::Request> },
}

pub struct RefServer {
    pub cfg: Cfg,
    pub opts: ServerOpts,
    pub now: u64,
    pub addr: Option<Addr>,
    /// index of the user/uuid that authenticated
    pub user: Option<usize>,
    pub dgram: bool,
    st: ServerState,
}

impl RefServer {
    pub fn new(cfg: &Cfg, now: u64, opts: ServerOpts) -> Self {
        let st = match cfg.proto {
            Proto::Ss(m) if !m.is_2022() => ServerState::Ss004 { r: ss::Sip004Reader::new(m, &cfg.ref_server_psk(), opts.strict_limits), w: None, pending: vec![] },
            Proto::Ss(m) => ServerState::Ss022 { r: ss::S22ServerReader::new(m, &cfg.ref_server_psk(), cfg.ref_users(), now), cc: None },
            Proto::Vmess(_) => ServerState::Vmess { buf: vec![], opened: None, r: None, w: None, head_sent: false },
            Proto::Trojan => ServerState::Trojan { buf: vec![], req: None },
        };
        Self { cfg: cfg.clone(), opts, now, addr: None, user: None, dgram: false, st }
    }

    pub fn ss2022_request_salt(&self) -> Option<Vec<u8>> {
        if let ServerState::Ss022 { r, .. } = &self.st {
            r.salt.clone()
        } else {
            None
        }
    }
    pub fn ss_chunk_lens(&self) -> Vec<usize> {
        match &self.st {
            ServerState::Ss004 { r, .. } => r.chunks.chunk_lens.clone(),
            ServerState::Ss022 { r, .. } => r.chunks.chunk_lens.clone(),
            _ => vec![],
        }
    }
    pub fn vmess_opened(&self) -> Option<&vmess::OpenedRequest> {
        if let ServerState::Vmess { opened, .. } = &self.st {
            opened.as_ref()
        } else {
            None
        }
    }
    pub fn vmess_eof(&self) -> bool {
        if let ServerState::Vmess { r: Some(r), .. } = &self.st {
            r.eof
        } else {
            false
        }
    }

    /// Feed request bytes (strict); returns plaintext units (chunks / datagrams).
    pub fn read_units(&mut self, bytes: &[u8]) -> RefResult<Vec<Vec<u8>>> {
        match &mut self.st {
            ServerState::Ss004 { r, pending, .. } => {
                let p = r.feed(bytes)?;
                if self.addr.is_none() {
                    pending.extend_from_slice(&p);
                    match refimpl::addr::socks_decode(pending) {
                        Ok((a, used)) => {
                            self.addr = Some(a);
                            let rest = pending[used..].to_vec();
                            pending.clear();
                            Ok(vec![rest])
                        }
                        Err(RefError::Incomplete) => Ok(vec![]),
                        Err(e) => Err(e),
                    }
                } else {
                    Ok(vec![p])
                }
            }
            ServerState::Ss022 { r, .. } => {
                let p = r.feed(bytes)?;
                if r.header_done() {
                    self.addr = r.addr.clone();
                    self.user = r.user;
                }
                Ok(vec![p])
            }
            ServerState::Vmess { buf, opened, r, .. } => {
                let mut rest: Vec<u8> = bytes.to_vec();
                if opened.is_none() {
                    buf.extend_from_slice(bytes);
                    match vmess::open_request_header(&self.cfg.ref_cmd_keys(), self.now as i64, buf) {
                        Ok(o) => {
                            rest = buf[o.consumed..].to_vec();
                            buf.clear();
                            self.addr = Some(o.header.addr.clone());
                            self.user = Some(o.key_index);
                            self.dgram = o.header.command == vmess::CMD_UDP;
                            *r = Some(vmess::Body::new(vmess::Direction::Request, o.header.security, o.header.option, &o.header.body_key, &o.header.body_iv));
                            *opened = Some(o);
                        }
                        Err(RefError::Incomplete) => return Ok(vec![]),
                        Err(e) => return Err(e),
                    }
                }
                r.as_mut().unwrap().feed(&rest)
            }
            ServerState::Trojan { buf, req } => {
                buf.extend_from_slice(bytes);
                if req.is_none() {
                    match refimpl::trojan::request_decode(self.cfg.password.as_bytes(), buf) {
                        Ok(rq) => {
                            buf.drain(..rq.consumed);
                            self.addr = Some(rq.addr.clone());
                            self.dgram = rq.cmd == refimpl::trojan::CMD_UDP;
                            *req = Some(rq);
                        }
                        Err(RefError::Incomplete) => return Ok(vec![]),
                        Err(e) => return Err(e),
                    }
                }
                if self.dgram {
                    let mut out = Vec::new();
                    loop {
                        match refimpl::trojan::udp_decode(buf) {
                            Ok((_a, p, used)) => {
                                buf.drain(..used);
                                out.push(p);
                            }
                            Err(RefError::Incomplete) => break,
                            Err(e) => return Err(e),
                        }
                    }
                    Ok(out)
                } else {
                    let p = std::mem::take(buf);
                    Ok(vec![p])
                }
            }
        }
    }

    pub fn read(&mut self, bytes: &[u8]) -> RefResult<Vec<u8>> {
        Ok(self.read_units(bytes)?.concat())
    }

    /// Response wire bytes for one write by the target. Requires the request header to have been read.
    pub fn write(&mut self, data: &[u8], rng: &mut Rng) -> Vec<u8> {
        let mut out = Vec::new();
        let max = self.opts.max_chunk;
        match &mut self.st {
            ServerState::Ss004 { w, .. } => {
                let m = self.cfg.method().unwrap();
                if w.is_none() {
                    *w = Some(ss::Sip004Writer::new(m, &self.cfg.ref_server_psk(), rng.bytes(m.key_len())));
                }
                w.as_mut().unwrap().write(data, max, &mut out);
            }
            ServerState::Ss022 { r, cc } => {
                let m = self.cfg.method().unwrap();
                match cc {
                    None => {
                        let key = r.response_key().to_vec();
                        let rs = self.opts.echo_salt.clone().unwrap_or_else(|| r.salt.clone().expect("request header not read"));
                        let n = data.len().min(max);
                        let (wire, mut c) = ss::s22_response_encode(m, &key, &rng.bytes(m.key_len()), self.opts.type_byte, self.opts.timestamp.unwrap_or(self.now), &rs, &data[..n]);
                        out.extend_from_slice(&wire);
                        ss::write_chunks(&mut c, &data[n..], max, &mut out);
                        *cc = Some(c);
                    }
                    Some(c) => ss::write_chunks(c, data, max, &mut out),
                }
            }
            ServerState::Vmess { opened, w, head_sent, .. } => {
                let o = opened.as_ref().expect("request header not read");
                let h = &o.header;
                if !*head_sent {
                    let (rk, ri) = vmess::response_keys(&h.body_key, &h.body_iv);
                    out.extend_from_slice(&vmess::seal_response_header(&rk, &ri, &[self.opts.resp_v.unwrap_or(h.resp_v), h.option, 0, 0]));
                    *w = Some(vmess::Body::new(vmess::Direction::Response, h.security, h.option, &h.body_key, &h.body_iv));
                    *head_sent = true;
                }
                let cap = max.min(0xFFFF - 16 - 64);
                let mut pad = |n: usize| rng.bytes(n);
                if self.dgram {
                    w.as_mut().unwrap().write_chunk(data, &mut pad, &mut out);
                } else {
                    w.as_mut().unwrap().write(data, cap, &mut pad, &mut out);
                }
            }
            ServerState::Trojan { .. } => {
                if self.dgram {
                    refimpl::trojan::udp_encode(self.addr.as_ref().expect("header"), data, &mut out);
                } else {
                    out.extend_from_slice(data);
                }
            }
        }
        out
    }
}

pub fn method_of(p: Proto) -> Option<Method> {
    if let Proto::Ss(m) = p {
        Some(m)
    } else {
        None
    }
}
