use osv::checks::{self, Args};

fn main() {
    let a = Args::parse();
    let t0 = std::time::Instant::now();
    let rt = tokio::runtime::Builder::new_multi_thread().worker_threads(8).enable_all().build().expect("runtime");
    let mut r = match a.check.as_str() {
        "c01" => rt.block_on(osv::e2e::c01::run(&a)),
        "c02" => rt.block_on(osv::e2e::c02::run(&a)),
        "c02x" => rt.block_on(osv::e2e::c02x::run(&a)),
        "c03" => rt.block_on(osv::e2e::c03::run(&a)),
        "c04" => rt.block_on(osv::e2e::c04::run(&a)),
        "c05" => rt.block_on(osv::e2e::c05::run(&a)),
        "c06" => rt.block_on(osv::e2e::c06::run(&a)),
        "c07" => rt.block_on(osv::e2e::c07::run(&a)),
        "c09" => rt.block_on(osv::e2e::c09::run(&a)),
        "c10" => rt.block_on(osv::e2e::c10::run(&a)),
        "c11" => rt.block_on(osv::e2e::c11::run(&a)),
        "c12" => rt.block_on(osv::e2e::c12::run(&a)),
        "c08" => rt.block_on(osv::e2e::c08::run(&a)),
        "c16" => rt.block_on(osv::e2e::c16::run(&a)),
        "c15" => rt.block_on(osv::e2e::c15::run(&a)),
        "idle" => rt.block_on(osv::e2e::idle::run(&a)),
        other => {
            eprintln!("unknown check {other}");
            std::process::exit(2);
        }
    };
    r.extra.insert("wall_s".into(), serde_json::json!(t0.elapsed().as_secs_f64()));
    checks::finish(&a, r);
    // node children are killed by Drop; make sure nothing lingers
    std::process::exit(0);
}
