fn main() {
    osv::panicmon::install();
    println!("stub");
}
