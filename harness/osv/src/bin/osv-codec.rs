use osv::checks::{self, Args};

fn main() {
    osv::panicmon::install();
    let a = Args::parse();
    let t0 = std::time::Instant::now();
    let mut r = match a.check.as_str() {
        "selftest" => {
            let f = refimpl::selftest::run();
            for l in &f {
                eprintln!("SELFTEST FAIL: {l}");
            }
            std::process::exit(if f.is_empty() { 0 } else { 3 });
        }
        "c03" => checks::c03::run(&a),
        "c04" => checks::c04::run(&a),
        "c05" => checks::c05::run(&a),
        "c06" => checks::c06::run(&a),
        "c07" => checks::c07::run(&a),
        "c09" => checks::c09::run(&a),
        "c10" => checks::c10::run(&a),
        "c11" => checks::c11::run(&a),
        "c12" => checks::c12::run(&a),
        "c13" => checks::c13::run(&a),
        "c14" => checks::c14::run(&a),
        "miri" => checks::mirirun::run(&a),
        other => {
            eprintln!("unknown check {other}");
            std::process::exit(2);
        }
    };
    r.extra.insert("wall_s".into(), serde_json::json!(t0.elapsed().as_secs_f64()));
    checks::finish(&a, r);
}
