//! osv-node: the crates' own public `client::main()` / `server::main()` (exactly what the shipped `main.rs`
//! call) inside a process that also installs a panic recorder and a task-count reporter.
//!
//!   osv-node <config.json> <log-level> <client|server> <workers> <report-file> [nofile-limit]
//!
//! argv[1] is the config path and argv[2] the log level because `config::init()` / `server::main()` read
//! exactly those positions; no hook is needed to start the real code.

use std::io::Write;

fn main() {
    let args: Vec<String> = std::env::args().collect();
    if args.len() < 6 {
        eprintln!("usage: osv-node <config.json> <log-level> <client|server> <workers> <report-file> [nofile-limit]");
        std::process::exit(2);
    }
    let role = args[3].clone();
    let workers: usize = args[4].parse().unwrap_or(4);
    let report = args[5].clone();
    if let Some(n) = args.get(6).and_then(|s| s.parse::<u64>().ok()) {
        unsafe {
            let lim = libc::rlimit { rlim_cur: n, rlim_max: n };
            libc::setrlimit(libc::RLIMIT_NOFILE, &lim);
        }
    }
    // panic recorder: one JSON line per panic, then the default behaviour
    let default = std::panic::take_hook();
    let rp = report.clone();
    std::panic::set_hook(Box::new(move |info| {
        let location = info.location().map(|l| format!("{}:{}", l.file(), l.line())).unwrap_or_default();
        let message = if let Some(s) = info.payload().downcast_ref::<&str>() {
            s.to_string()
        } else if let Some(s) = info.payload().downcast_ref::<String>() {
            s.clone()
        } else {
            "<non-string panic>".into()
        };
        let bt = std::backtrace::Backtrace::force_capture().to_string();
        let mut frame = "?".to_string();
        let mut last_fn = String::new();
        'outer: for line in bt.lines() {
            let l = line.trim_start();
            if let Some(rest) = l.strip_prefix("at ") {
                for krate in ["octo-squirrel-client/src/", "octo-squirrel-server/src/", "octo-squirrel/src/"] {
                    if let Some(i) = rest.find(krate) {
                        let file = rest[i..].split(':').next().unwrap_or("");
                        let f = last_fn.rsplit("::").find(|p| !p.starts_with('h') || p.len() != 17).unwrap_or(&last_fn);
                        frame = format!("{}::{}", file, f);
                        break 'outer;
                    }
                }
            } else if let Some(idx) = l.find(": ") {
                let (num, rest) = l.split_at(idx);
                if !num.is_empty() && num.chars().all(|c| c.is_ascii_digit()) {
                    last_fn = rest[2..].trim().to_string();
                }
            }
        }
        let thread = std::thread::current().name().unwrap_or("?").to_string();
        if let Ok(mut f) = std::fs::OpenOptions::new().create(true).append(true).open(&rp) {
            let _ = writeln!(f, "{}", serde_json::json!({"event": "panic", "location": location, "message": message, "frame": frame, "thread": thread}));
        }
        default(info);
    }));
    let rt = tokio::runtime::Builder::new_multi_thread().worker_threads(workers).enable_all().build().expect("runtime");
    let stat = format!("{report}.stat");
    rt.spawn(async move {
        let h = tokio::runtime::Handle::current();
        let mut n = 0u64;
        loop {
            n += 1;
            let tasks = h.metrics().num_alive_tasks();
            let tmp = format!("{stat}.tmp");
            if std::fs::write(&tmp, format!("{{\"tasks\":{tasks},\"seq\":{n}}}")).is_ok() {
                let _ = std::fs::rename(&tmp, &stat);
            }
            tokio::time::sleep(std::time::Duration::from_millis(100)).await;
        }
    });
    let r = rt.block_on(async move {
        match role.as_str() {
            "client" => octo_squirrel_client::client::main().await,
            "server" => octo_squirrel_server::server::main().await,
            other => Err(anyhow::anyhow!("unknown role {other}")),
        }
    });
    match r {
        Ok(()) => {
            if let Ok(mut f) = std::fs::OpenOptions::new().create(true).append(true).open(&report) {
                let _ = writeln!(f, "{}", serde_json::json!({"event": "main-returned", "ok": true}));
            }
            std::process::exit(0)
        }
        Err(e) => {
            eprintln!("osv-node: main returned an error: {e:#}");
            if let Ok(mut f) = std::fs::OpenOptions::new().create(true).append(true).open(&report) {
                let _ = writeln!(f, "{}", serde_json::json!({"event": "main-returned", "ok": false, "error": format!("{e:#}")}));
            }
            std::process::exit(1)
        }
    }
}
