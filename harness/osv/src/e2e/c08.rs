//! C08 - one failing or hostile flow never takes the service down for others.
//!
//! Real client and server nodes run with a small descriptor limit behind forwarders (TCP chopper, UDP
//! man-in-the-middle). Faults from a catalogue are applied one after another (so every prefix is also a fault
//! *sequence*); after each one - while stalled peers are still being held open - a fresh well-behaved TCP flow
//! and, where UDP is configured, a fresh UDP exchange from a new application socket must succeed, both processes
//! must be alive and must still hold every listening / bound socket they had before.
//! A failing canary is re-tried in isolation (fresh node pair, only that fault) before it is believed.

use std::any::Any;
use std::collections::HashSet;
use std::net::SocketAddr;
use std::sync::atomic::Ordering;
use std::sync::Arc;
use std::time::{Duration, Instant};

use serde_json::{json, Value};
use tokio::io::{AsyncReadExt, AsyncWriteExt};
use tokio::net::{TcpStream, UdpSocket};

use super::c01::work_dir;
use super::c02::{check_payload, make_payload, socks5_udp, socks5_udp_parse, start_udp_target, Target};
use super::chopper::Chopper;
use super::endpoints::*;
use super::nodes::*;
use super::procfs;
use super::tcpflows::*;
use super::udpfwd::UdpFwd;
use crate::checks::Args;
use crate::prng::Rng;
use crate::real::{Cfg, Proto};
use crate::report::Report;

const NOFILE: u64 = 400;

type Held = Vec<Box<dyn Any + Send>>;

struct AbortOnDrop<T>(tokio::task::JoinHandle<T>);
impl<T> Drop for AbortOnDrop<T> {
    fn drop(&mut self) {
        self.0.abort();
    }
}

#[derive(Clone, Copy, Debug, PartialEq, Eq, Hash)]
pub enum Fault {
    // --- against the server's TCP listener
    SrvConnectClose,
    SrvSilentHeld,
    SrvGarbageClose,
    SrvGarbageHeld,
    SrvResetAfterBytes,
    SrvTlsHelloStalled,
    SrvTlsThenGarbage,
    SrvWsUpgradeStalled,
    SrvWsUpgradeBad,
    SrvConnectionFlood,
    SrvDescriptorExhaustion,
    // --- against the server's QUIC endpoint
    QuicGarbageDatagrams,
    QuicConnectionWithoutStream,
    QuicStreamGarbage,
    // --- against the server's UDP port (Shadowsocks)
    SsUdpGarbage,
    SsUdpReplayRecorded,
    SsUdpDuplicatedByPath,
    SsUdpReplyReplayToClient,
    SsUdpGarbageToClient,
    // --- through the client: flows that fail
    AppTargetUnresolvable,
    AppTargetRefused,
    AppResetMidTransfer,
    TargetResetMidTransfer,
    LocalHandshakeStalledHeld,
    LocalGarbage,
    LocalConnectClose,
    LocalDescriptorExhaustion,
    LocalUdpMalformed,
    AppUdpTargetUnresolvable,
    AppUdpTargetRefused,
    UdpOversizeReply,
    UdpOversizeRequest,
    // --- the link between client and server
    LinkCutMidFlow,
    LinkResetMidFlow,
    LinkDownWhileUdpBinding,
    LinkStalledTcpFlows,
    LinkStalledWhileUdpBinding,
    ServerRestart,
    // --- volume: hundreds of failures, one after the other (whatever counts, caches or leaks per failure shows only then)
    SrvManyFailedHandshakes,
    LocalManyFailedFlows,
    LocalManyUdpApplications,
}

pub const ALL_FAULTS: [Fault; 41] = [
    Fault::SrvConnectClose,
    Fault::SrvSilentHeld,
    Fault::SrvGarbageClose,
    Fault::SrvGarbageHeld,
    Fault::SrvResetAfterBytes,
    Fault::SrvTlsHelloStalled,
    Fault::SrvTlsThenGarbage,
    Fault::SrvWsUpgradeStalled,
    Fault::SrvWsUpgradeBad,
    Fault::SrvConnectionFlood,
    Fault::SrvDescriptorExhaustion,
    Fault::QuicGarbageDatagrams,
    Fault::QuicConnectionWithoutStream,
    Fault::QuicStreamGarbage,
    Fault::SsUdpGarbage,
    Fault::SsUdpReplayRecorded,
    Fault::SsUdpDuplicatedByPath,
    Fault::SsUdpReplyReplayToClient,
    Fault::SsUdpGarbageToClient,
    Fault::AppTargetUnresolvable,
    Fault::AppTargetRefused,
    Fault::AppResetMidTransfer,
    Fault::TargetResetMidTransfer,
    Fault::LocalHandshakeStalledHeld,
    Fault::LocalGarbage,
    Fault::LocalConnectClose,
    Fault::LocalDescriptorExhaustion,
    Fault::LocalUdpMalformed,
    Fault::AppUdpTargetUnresolvable,
    Fault::AppUdpTargetRefused,
    Fault::UdpOversizeReply,
    Fault::UdpOversizeRequest,
    Fault::LinkCutMidFlow,
    Fault::LinkResetMidFlow,
    Fault::LinkDownWhileUdpBinding,
    Fault::LinkStalledTcpFlows,
    Fault::LinkStalledWhileUdpBinding,
    Fault::ServerRestart,
    Fault::SrvManyFailedHandshakes,
    Fault::LocalManyFailedFlows,
    Fault::LocalManyUdpApplications,
];

impl Fault {
    pub fn name(&self) -> String {
        format!("{:?}", self)
    }

    fn applicable(&self, e: &Env) -> bool {
        use Fault::*;
        let t = e.d.transport;
        let ss = matches!(e.d.cfg.proto, Proto::Ss(_));
        let srv_tcp = e.server_has_tcp();
        let tls = matches!(t, Transport::Tls | Transport::Wss);
        let ws = matches!(t, Transport::Ws | Transport::Wss);
        match self {
            SrvConnectClose | SrvSilentHeld | SrvGarbageClose | SrvGarbageHeld | SrvResetAfterBytes | SrvConnectionFlood | SrvDescriptorExhaustion => srv_tcp,
            SrvTlsHelloStalled | SrvTlsThenGarbage => srv_tcp && tls,
            SrvWsUpgradeStalled | SrvWsUpgradeBad => srv_tcp && ws,
            QuicGarbageDatagrams | QuicConnectionWithoutStream | QuicStreamGarbage => t == Transport::Quic,
            SsUdpGarbage => ss && e.d.udp,
            SsUdpReplayRecorded | SsUdpDuplicatedByPath | SsUdpReplyReplayToClient | SsUdpGarbageToClient => ss && e.d.udp && e.udpfwd.is_some(),
            AppTargetUnresolvable | AppTargetRefused | AppResetMidTransfer | TargetResetMidTransfer | LocalHandshakeStalledHeld | LocalGarbage | LocalConnectClose | LocalDescriptorExhaustion => true,
            LocalUdpMalformed | AppUdpTargetUnresolvable | AppUdpTargetRefused | UdpOversizeReply | UdpOversizeRequest => e.d.udp,
            LinkCutMidFlow | LinkResetMidFlow | LinkStalledTcpFlows => e.chopper.is_some(),
            LinkDownWhileUdpBinding | LinkStalledWhileUdpBinding => e.chopper.is_some() && e.d.udp && !ss,
            ServerRestart => true,
            SrvManyFailedHandshakes | LocalManyFailedFlows => true,
            LocalManyUdpApplications => e.d.udp,
        }
    }
}

struct Env {
    a: Args,
    cfgname: String,
    d: Deploy,
    /// where the client connects (forwarder or the server itself)
    link_port: u16,
    chopper: Option<Chopper>,
    udpfwd: Option<UdpFwd>,
    pair: Pair,
    server_json: Value,
    tag: String,
    reg: Arc<Registry>,
    target: TargetHandle,
    udp_target: Option<Target>,
    nonce: u64,
    next_flow: u64,
    next_app: u16,
    base_client: (HashSet<u16>, HashSet<u16>),
    base_server: (HashSet<u16>, HashSet<u16>),
    tls: Option<tokio_rustls::TlsConnector>,
}

impl Env {
    fn server_has_tcp(&self) -> bool {
        !(matches!(self.d.cfg.proto, Proto::Ss(_)) && self.d.transport == Transport::Quic)
    }
    fn server_has_quic(&self) -> bool {
        self.d.transport == Transport::Quic
    }
    fn flow_id(&mut self) -> u64 {
        self.next_flow += 1;
        self.next_flow
    }
}

fn tls_connector() -> Option<tokio_rustls::TlsConnector> {
    use tokio_rustls::rustls::pki_types::pem::PemObject;
    use tokio_rustls::rustls::pki_types::CertificateDer;
    let _ = tokio_rustls::rustls::crypto::aws_lc_rs::default_provider().install_default();
    let ca = verif_root().join("certs").join("ca.crt");
    let cert = CertificateDer::from_pem_file(&ca).ok()?;
    let mut roots = tokio_rustls::rustls::RootCertStore::empty();
    roots.add(cert).ok()?;
    let cfg = tokio_rustls::rustls::ClientConfig::builder().with_root_certificates(roots).with_no_client_auth();
    Some(tokio_rustls::TlsConnector::from(Arc::new(cfg)))
}

fn quic_endpoint() -> Option<quinn::Endpoint> {
    use tokio_rustls::rustls::pki_types::pem::PemObject;
    use tokio_rustls::rustls::pki_types::CertificateDer;
    let _ = tokio_rustls::rustls::crypto::aws_lc_rs::default_provider().install_default();
    let ca = verif_root().join("certs").join("ca.crt");
    let cert = CertificateDer::from_pem_file(&ca).ok()?;
    let mut roots = tokio_rustls::rustls::RootCertStore::empty();
    roots.add(cert).ok()?;
    let mut cfg = tokio_rustls::rustls::ClientConfig::builder().with_root_certificates(roots).with_no_client_auth();
    cfg.alpn_protocols = vec![b"http/1.1".to_vec()];
    let mut ep = quinn::Endpoint::client("0.0.0.0:0".parse().unwrap()).ok()?;
    let qc = quinn::crypto::rustls::QuicClientConfig::try_from(cfg).ok()?;
    ep.set_default_client_config(quinn::ClientConfig::new(Arc::new(qc)));
    Some(ep)
}

/// Start the deployment behind its forwarders. Err = could not be started (inconclusive, not a verdict).
async fn start_env(a: &Args, idx: usize, sub: &str, proto: Proto, transport: Transport, udp: bool, rng: &mut Rng) -> Result<Env, String> {
    let users = match proto {
        Proto::Vmess(_) => 1,
        // a user table wherever the cipher can have one and datagrams are served (the multi-user paths are a superset of the
        // single-user ones at every listener); otherwise now and then
        Proto::Ss(m) if m.supports_eih() && (udp || rng.chance(1, 3)) => 2,
        _ => 0,
    };
    let cfg = Cfg::random(rng, proto, users);
    let dir = work_dir(a, &format!("c08-{idx}-{sub}"));
    let mut d = Deploy::new(cfg, transport, udp, *rng.pick(&[2usize, 4]), &dir);
    let ss = matches!(proto, Proto::Ss(_));
    if ss && transport == Transport::Quic {
        // a Shadowsocks QUIC server binds UDP for QUIC; it has no datagram relay
        d.udp = false;
        d.client_mode = "tcp".into();
    }
    let cfgname = format!("{}|{}{}", proto.name(), transport.name(), if d.udp { "+udp" } else { "" });
    // forwarders: TCP chopper for the stream transports, UDP man-in-the-middle on the same port number for Shadowsocks UDP
    let mut chopper = None;
    let mut udpfwd = None;
    if transport != Transport::Quic {
        for _ in 0..20 {
            let ch = super::chopper::start(d.server_port).await.map_err(|e| e.to_string())?;
            if ss && d.udp {
                match super::udpfwd::start(ch.port, d.server_port).await {
                    Ok(u) => {
                        udpfwd = Some(u);
                        chopper = Some(ch);
                        break;
                    }
                    Err(_) => continue,
                }
            } else {
                chopper = Some(ch);
                break;
            }
        }
        if chopper.is_none() {
            return Err("no port pair for the forwarders".into());
        }
    }
    let link_port = chopper.as_ref().map(|c| c.port).unwrap_or(d.server_port);
    let server_json = d.server_json();
    let client_json = {
        let mut dd = d.clone();
        dd.server_port = link_port;
        dd.client_json()
    };
    let tag = format!("c08-{idx}-{sub}");
    let (dd, sj, tg) = (d.clone(), server_json.clone(), tag.clone());
    let pair = tokio::task::spawn_blocking(move || {
        let mut server = start_node("server", &sj, &dd.dir, &tg, dd.workers, &dd.log_level, Some(NOFILE), None).map_err(|e| e.to_string())?;
        let (stcp, sudp) = server_expect(&dd);
        wait_ready(&mut server, if stcp { Some(dd.server_port) } else { None }, if sudp { Some(dd.server_port) } else { None }, Duration::from_secs(15))?;
        let mut client = start_node("client", &client_json, &dd.dir, &tg, dd.workers, &dd.log_level, Some(NOFILE), None).map_err(|e| e.to_string())?;
        wait_ready(&mut client, Some(dd.client_port), if dd.udp { Some(dd.client_port) } else { None }, Duration::from_secs(15))?;
        Ok::<Pair, String>(Pair { deploy: dd, client, server })
    })
    .await
    .map_err(|e| e.to_string())??;
    let nonce = rng.next_u64();
    let reg = Registry::new(nonce);
    let target = start_target(reg.clone()).await.map_err(|e| e.to_string())?;
    let udp_target = if d.udp { Some(start_udp_target(nonce, 0, 1, false).await.map_err(|e| e.to_string())?) } else { None };
    let base_client = procfs::bound_ports(pair.client.pid);
    let base_server = procfs::bound_ports(pair.server.pid);
    let tls = if matches!(transport, Transport::Tls | Transport::Wss) { tls_connector() } else { None };
    Ok(Env { a: a.clone(), cfgname, d, link_port, chopper, udpfwd, pair, server_json, tag, reg, target, udp_target, nonce, next_flow: (idx as u64) << 24, next_app: 0, base_client, base_server, tls })
}

fn server_expect(d: &Deploy) -> (bool, bool) {
    let mode = d.server_mode_str();
    match d.cfg.proto {
        Proto::Ss(_) => (mode == "tcp" || mode == "tcp_and_udp" || mode == "tcp_and_quic", mode != "tcp"),
        _ => (true, d.transport == Transport::Quic),
    }
}

// ---------------------------------------------------------------------------------------------
// canaries and health

async fn tcp_canary(e: &mut Env, attempts: usize) -> Result<u128, String> {
    let mut last = String::new();
    for k in 0..attempts {
        let id = e.flow_id();
        let kind = README_KINDS[(id as usize) % 4];
        let spec = FlowSpec { id, kind, c2s: 3000, s2c: 5000, write_c: 1000, write_s: 1700, pause_ms: 0, pattern: Pattern::RequestResponse, closer: Closer::TargetAfterAnswer };
        let t0 = Instant::now();
        let mut r = run_batch(e.reg.clone(), &e.d, e.target.port, vec![spec], 1, Duration::from_secs(10)).await;
        match r.pop() {
            Some((_, v)) if v.symptom.is_none() => return Ok(t0.elapsed().as_millis()),
            Some((_, v)) => last = v.symptom.unwrap_or_default(),
            None => last = "canary task failed".into(),
        }
        if k + 1 < attempts {
            tokio::time::sleep(Duration::from_millis(300)).await;
        }
    }
    Err(last)
}

/// One datagram from a NEW application socket to the echo target and back.
async fn udp_canary(e: &mut Env, attempts: usize) -> Result<u128, String> {
    let Some(tport) = e.udp_target.as_ref().map(|t| t.port) else { return Ok(0) };
    let client: SocketAddr = format!("127.0.0.1:{}", e.d.client_port).parse().unwrap();
    let mut last = String::from("no reply");
    for k in 0..attempts {
        e.next_app += 1;
        let app = e.next_app;
        let s = UdpSocket::bind("127.0.0.1:0").await.map_err(|x| x.to_string())?;
        let t0 = Instant::now();
        let mut buf = vec![0u8; 4096];
        // two datagrams: the first one opens the binding / association, the second uses it
        let mut ok = 0;
        for seq in 0..2u32 {
            let p = make_payload(e.nonce, app, 0, seq, 300, 0);
            let _ = s.send_to(&socks5_udp("127.0.0.1", tport, &p), client).await;
            match tokio::time::timeout(Duration::from_millis(2500), s.recv_from(&mut buf)).await {
                Ok(Ok((n, _))) => match socks5_udp_parse(&buf[..n]) {
                    Some((_, _, payload)) => match check_payload(e.nonce, payload) {
                        Ok(id) if id.app == app && id.seq == seq && id.kind == 1 => ok += 1,
                        Ok(id) => last = format!("reply for application {} seq {} arrived at application {}", id.app, id.seq, app),
                        Err(x) => last = format!("reply {x}"),
                    },
                    None => last = "reply without SOCKS5-UDP header".into(),
                },
                _ => last = "no reply within 2.5 s".into(),
            }
        }
        if ok == 2 {
            return Ok(t0.elapsed().as_millis());
        }
        if k + 1 < attempts {
            tokio::time::sleep(Duration::from_millis(300)).await;
        }
    }
    Err(last)
}

fn health(e: &mut Env) -> Result<(), String> {
    if !e.pair.client.alive() {
        return Err(format!("client-exited:{:?}", e.pair.client.exit_status()));
    }
    if !e.pair.server.alive() {
        return Err(format!("server-exited:{:?}", e.pair.server.exit_status()));
    }
    let c = procfs::bound_ports(e.pair.client.pid);
    let s = procfs::bound_ports(e.pair.server.pid);
    if !e.base_client.0.is_subset(&c.0) {
        return Err("client-lost-its-tcp-listener".into());
    }
    if !e.base_client.1.is_subset(&c.1) {
        return Err("client-lost-its-udp-socket".into());
    }
    if !e.base_server.0.is_subset(&s.0) {
        return Err("server-lost-its-tcp-listener".into());
    }
    if !e.base_server.1.is_subset(&s.1) {
        return Err("server-lost-its-udp-socket".into());
    }
    Ok(())
}

/// All three observations; the first failing one names the symptom.
async fn service_check(e: &mut Env, attempts: usize, rep: &mut Report) -> Result<(), String> {
    health(e)?;
    match tcp_canary(e, attempts).await {
        Ok(ms) => {
            rep.mon("tcp_canaries_ok", 1);
            rep.mon(if ms < 200 { "canary_latency_under_200ms" } else if ms < 2000 { "canary_latency_under_2s" } else { "canary_latency_over_2s" }, 1);
        }
        Err(s) => return Err(format!("tcp-canary-fails:{}", crate::panicmon::normalise(&s))),
    }
    if e.d.udp {
        match udp_canary(e, attempts).await {
            Ok(_) => rep.mon("udp_canaries_ok", 1),
            Err(s) => return Err(format!("udp-canary-fails:{}", crate::panicmon::normalise(&s))),
        }
    }
    health(e)
}

// ---------------------------------------------------------------------------------------------
// faults

async fn connect(port: u16) -> Option<TcpStream> {
    tokio::time::timeout(Duration::from_secs(3), TcpStream::connect(("127.0.0.1", port))).await.ok()?.ok()
}

fn hold<T: Any + Send>(h: &mut Held, x: T) {
    h.push(Box::new(x));
}

async fn tls_connect(e: &Env, port: u16) -> Option<tokio_rustls::client::TlsStream<TcpStream>> {
    let c = e.tls.as_ref()?;
    let s = connect(port).await?;
    let name = tokio_rustls::rustls::pki_types::ServerName::try_from("localhost").ok()?;
    tokio::time::timeout(Duration::from_secs(5), c.connect(name, s)).await.ok()?.ok()
}

async fn app_flow_expect_failure(client_port: u16, kind: LocalKind, host: &str, port: u16) {
    let Some(mut s) = connect(client_port).await else { return };
    if tokio::time::timeout(Duration::from_secs(8), local_handshake(&mut s, kind, host, port)).await.map(|r| r.is_ok()).unwrap_or(false) {
        let _ = s.write_all(b"GET / HTTP/1.0\r\n\r\n").await;
        let mut b = [0u8; 64];
        let _ = tokio::time::timeout(Duration::from_secs(8), s.read(&mut b)).await;
    }
}

/// A flow to a port that refuses: the application leaves as soon as the relay lets go of it (at most 2 s).
async fn app_flow_refused(client_port: u16, kind: LocalKind, host: &str, port: u16) {
    let Some(mut s) = connect(client_port).await else { return };
    if tokio::time::timeout(Duration::from_secs(4), local_handshake(&mut s, kind, host, port)).await.map(|r| r.is_ok()).unwrap_or(false) {
        let _ = s.write_all(b"GET / HTTP/1.0\r\n\r\n").await;
        let mut b = [0u8; 64];
        let _ = tokio::time::timeout(Duration::from_secs(2), s.read(&mut b)).await;
    }
}

async fn apply(f: Fault, e: &mut Env, rng: &mut Rng, rep: &mut Report) -> Held {
    use Fault::*;
    let mut h: Held = Vec::new();
    let sp = e.d.server_port;
    let cp = e.d.client_port;
    match f {
        SrvConnectClose => {
            for _ in 0..20 {
                drop(connect(sp).await);
            }
        }
        SrvSilentHeld => {
            // more than a hundred at the same time (a bound on connections that have not spoken yet must not starve others)
            for _ in 0..140 {
                if let Some(s) = connect(sp).await {
                    hold(&mut h, s);
                }
            }
        }
        SrvGarbageClose | SrvGarbageHeld => {
            for k in 0..12 {
                if let Some(mut s) = connect(sp).await {
                    let n = [1usize, 2, 15, 16, 17, 50, 59, 60, 61, 300, 2000, 9000][k % 12];
                    let _ = s.write_all(&rng.bytes(n)).await;
                    if f == SrvGarbageHeld {
                        hold(&mut h, s);
                    }
                }
            }
        }
        SrvResetAfterBytes => {
            for _ in 0..8 {
                if let Some(mut s) = connect(sp).await {
                    let _ = s.write_all(&rng.bytes(40)).await;
                    let _ = s.set_linger(Some(Duration::from_secs(0)));
                    drop(s);
                }
            }
        }
        SrvTlsHelloStalled => {
            for k in 0..6 {
                if let Some(mut s) = connect(sp).await {
                    // the beginning of a ClientHello record (declared 512 bytes), then silence
                    let mut hello = vec![0x16, 0x03, 0x01, 0x02, 0x00, 0x01, 0x00, 0x01, 0xfc, 0x03, 0x03];
                    hello.extend_from_slice(&rng.bytes(32));
                    hello.push(32);
                    hello.extend_from_slice(&rng.bytes(32));
                    let cut = [1usize, 5, 6, 11, 40, hello.len()][k % 6];
                    let _ = s.write_all(&hello[..cut]).await;
                    hold(&mut h, s);
                }
            }
        }
        SrvTlsThenGarbage => {
            for k in 0..6 {
                if let Some(mut s) = tls_connect(e, sp).await {
                    let _ = s.write_all(&rng.bytes([1usize, 16, 60, 200, 1000, 5000][k % 6])).await;
                    let _ = s.flush().await;
                    if k % 2 == 0 {
                        hold(&mut h, s);
                    }
                } else {
                    rep.mon("fault_could_not_be_applied", 1);
                }
            }
        }
        SrvWsUpgradeStalled | SrvWsUpgradeBad => {
            let tls = matches!(e.d.transport, Transport::Wss);
            for k in 0..6 {
                let req: Vec<u8> = if f == SrvWsUpgradeStalled {
                    // an upgrade request that never ends
                    b"GET /ws HTTP/1.1\r\nHost: localhost\r\nUpgrade: websocket\r\nConnection: Upgrade\r\nSec-WebSocket-Key: dGhlIHNhbXBsZSBub25jZQ==\r\n".to_vec()
                } else {
                    match k % 3 {
                        0 => b"GET /other HTTP/1.1\r\nHost: localhost\r\n\r\n".to_vec(),
                        1 => b"POST /ws HTTP/1.1\r\nHost: localhost\r\nContent-Length: 5\r\n\r\nhello".to_vec(),
                        _ => rng.bytes(300),
                    }
                };
                if tls {
                    if let Some(mut s) = tls_connect(e, sp).await {
                        let _ = s.write_all(&req).await;
                        let _ = s.flush().await;
                        hold(&mut h, s);
                    }
                } else if let Some(mut s) = connect(sp).await {
                    let _ = s.write_all(&req).await;
                    hold(&mut h, s);
                }
            }
        }
        SrvConnectionFlood => {
            let mut v = Vec::new();
            for _ in 0..100 {
                if let Some(mut s) = connect(sp).await {
                    let _ = s.write_all(&rng.bytes(20)).await;
                    v.push(s);
                }
            }
            tokio::time::sleep(Duration::from_millis(200)).await;
            drop(v);
        }
        SrvDescriptorExhaustion | LocalDescriptorExhaustion => {
            // more connections than the process has descriptors for: accept() must start failing, then everything is closed
            let port = if f == SrvDescriptorExhaustion { sp } else { cp };
            let t_exh = Instant::now();
            // against the server: a dozen clients complete the transport handshake BEFORE the shortage and name their target
            // DURING it (the server has their request and no descriptor to dial with)
            let mut early: Vec<super::pipe::Pipe> = Vec::new();
            if f == SrvDescriptorExhaustion {
                // (as many as the server takes: when all of them ask at once, every descriptor is held by a flow that wants one more)
                let n = if e.d.transport == Transport::Quic { 12 } else { NOFILE as usize };
                for _ in 0..n {
                    match super::pipe::Pipe::connect_within(e.d.transport, sp, Duration::from_millis(1500)).await {
                        Ok(p) => early.push(p),
                        Err(_) => break,
                    }
                }
                rep.mon("clients_past_their_transport_handshake_before_the_shortage", early.len() as u64);
            }
            let mut v = Vec::new();
            // (the kernel queues about 128 connections the process has not accepted; a connect beyond that waits for
            // retransmitted SYNs: three misses in a row end the loop)
            let mut misses = 0;
            for _ in 0..(NOFILE as usize + 100) {
                match tokio::time::timeout(Duration::from_millis(1200), TcpStream::connect(("127.0.0.1", port))).await {
                    Ok(Ok(s)) => {
                        misses = 0;
                        v.push(s);
                    }
                    _ => {
                        misses += 1;
                        if misses >= 3 {
                            break;
                        }
                    }
                }
            }
            rep.mon("exhaustion_connections_opened", v.len() as u64);
            rep.mon(&format!("ms_opening_the_connections:{}", f.name()), t_exh.elapsed().as_millis() as u64);
            if !early.is_empty() {
                let dead = free_port();
                let now = std::time::SystemTime::now().duration_since(std::time::UNIX_EPOCH).unwrap().as_secs();
                let mut asked = 0u64;
                for p in early.iter_mut() {
                    let mut c = crate::peer::RefClient::new(&e.d.cfg, &refimpl::addr::Addr::V4([127, 0, 0, 1], dead), rng, now, crate::peer::ClientOpts::default());
                    let w = c.write(b"a request that arrives while the server has no descriptor to spare", rng);
                    if p.send(&w).await.is_ok() {
                        asked += 1;
                    }
                }
                rep.mon("requests_that_reached_the_server_during_its_descriptor_exhaustion", asked);
                tokio::time::sleep(Duration::from_millis(500)).await;
                for p in early.drain(..) {
                    p.abort();
                }
            }
            if f == LocalDescriptorExhaustion {
                // some of the applications behind those connections do ask for a flow while the client has no descriptor to
                // spare: whatever the client tries to open for them (certificate file, socket) fails NOW - and only now
                let tp = e.target.port;
                let n = v.len();
                let mut picks: Vec<usize> = (0..n.min(8)).chain((n / 2)..(n / 2 + 8).min(n)).chain(n.saturating_sub(130)..n.saturating_sub(122)).collect();
                picks.dedup();
                let mut asked = 0u64;
                for i in picks {
                    if let Some(s) = v.get_mut(i) {
                        if let Ok(Ok(())) = tokio::time::timeout(Duration::from_millis(1500), local_handshake(s, LocalKind::Socks5V4, "127.0.0.1", tp)).await {
                            let _ = s.write_all(b"is anybody there?").await;
                            asked += 1;
                        }
                    }
                }
                rep.mon("flows_asked_for_during_descriptor_exhaustion", asked);
            }
            tokio::time::sleep(Duration::from_millis(700)).await;
            let pid = if f == SrvDescriptorExhaustion { e.pair.server.pid } else { e.pair.client.pid };
            let fds = procfs::fd_count(pid).total();
            rep.mon(if fds + 8 >= NOFILE as usize { "exhaustion_reached_the_limit" } else { "exhaustion_stayed_below_the_limit" }, 1);
            drop(v);
            tokio::time::sleep(Duration::from_millis(600)).await;
        }
        QuicGarbageDatagrams => {
            if let Ok(s) = UdpSocket::bind("127.0.0.1:0").await {
                for k in 0..40usize {
                    let mut d = rng.bytes([0usize, 1, 7, 20, 100, 1200, 1350][k % 7]);
                    if k % 2 == 0 && d.len() >= 7 {
                        // looks like a QUIC v1 long-header Initial
                        d[0] = 0xc3;
                        d[1..5].copy_from_slice(&[0, 0, 0, 1]);
                        d[5] = 8;
                    }
                    let _ = s.send_to(&d, ("127.0.0.1", sp)).await;
                }
            }
        }
        QuicConnectionWithoutStream | QuicStreamGarbage => {
            if let Some(ep) = quic_endpoint() {
                for k in 0..4 {
                    let conn = match ep.connect(format!("127.0.0.1:{sp}").parse().unwrap(), "localhost") {
                        Ok(c) => tokio::time::timeout(Duration::from_secs(5), c).await.ok().and_then(|r| r.ok()),
                        Err(_) => None,
                    };
                    let Some(conn) = conn else {
                        rep.mon("fault_could_not_be_applied", 1);
                        continue;
                    };
                    if f == QuicStreamGarbage {
                        if let Ok((mut tx, rx)) = conn.open_bi().await {
                            let _ = tx.write_all(&rng.bytes([1usize, 40, 300, 5000][k % 4])).await;
                            if k % 2 == 0 {
                                let _ = tx.finish();
                            }
                            hold(&mut h, (tx, rx));
                        }
                    }
                    hold(&mut h, conn);
                }
                hold(&mut h, ep);
            }
        }
        SsUdpGarbage => {
            if let Ok(s) = UdpSocket::bind("127.0.0.1:0").await {
                for k in 0..60usize {
                    let d = rng.bytes([0usize, 1, 15, 16, 17, 31, 32, 33, 47, 48, 60, 100, 1400, 9000][k % 14]);
                    let _ = s.send_to(&d, ("127.0.0.1", sp)).await;
                }
            }
        }
        SsUdpReplayRecorded => {
            // genuine traffic first (so that something is recorded), then the same datagrams again, twice
            let _ = udp_canary(e, 1).await;
            if let Some(u) = &e.udpfwd {
                let n1 = u.replay_to_server(4).await;
                let n2 = u.replay_to_server(4).await;
                rep.mon("datagrams_replayed_to_server", (n1 + n2) as u64);
            }
            tokio::time::sleep(Duration::from_millis(150)).await;
        }
        SsUdpDuplicatedByPath => {
            if let Some(u) = &e.udpfwd {
                u.duplicate.store(true, Ordering::SeqCst);
            }
            let _ = udp_canary(e, 1).await;
            if let Some(u) = &e.udpfwd {
                u.duplicate.store(false, Ordering::SeqCst);
            }
        }
        SsUdpReplyReplayToClient => {
            let _ = udp_canary(e, 1).await;
            if let Some(u) = &e.udpfwd {
                let n = u.replay_to_client(4).await + u.replay_to_client(2).await;
                rep.mon("datagrams_replayed_to_client", n as u64);
            }
            tokio::time::sleep(Duration::from_millis(150)).await;
        }
        SsUdpGarbageToClient => {
            let _ = udp_canary(e, 1).await;
            if let Some(u) = &e.udpfwd {
                for n in [0usize, 1, 16, 32, 48, 100, 1400] {
                    u.inject_to_clients(&rng.bytes(n)).await;
                }
            }
            tokio::time::sleep(Duration::from_millis(150)).await;
        }
        AppTargetUnresolvable => {
            for kind in [LocalKind::Socks5Domain, LocalKind::HttpConnect, LocalKind::HttpPlain] {
                app_flow_expect_failure(cp, kind, "no-such-host.invalid", 80).await;
            }
        }
        AppTargetRefused => {
            let dead = free_port();
            for kind in [LocalKind::Socks5V4, LocalKind::HttpConnect, LocalKind::Socks5Domain] {
                app_flow_expect_failure(cp, kind, if kind == LocalKind::Socks5V4 { "127.0.0.1" } else { "localhost" }, dead).await;
            }
        }
        AppResetMidTransfer | TargetResetMidTransfer => {
            let mut specs = Vec::new();
            for k in 0..6 {
                let id = e.flow_id();
                let closer = if f == AppResetMidTransfer { Closer::AppReset(20_000) } else { Closer::TargetReset(20_000) };
                specs.push(FlowSpec { id, kind: README_KINDS[k % 4], c2s: 200_000, s2c: 200_000, write_c: 4000, write_s: 4000, pause_ms: 0, pattern: Pattern::Simultaneous, closer });
            }
            let _ = run_batch(e.reg.clone(), &e.d, e.target.port, specs, 6, Duration::from_secs(10)).await;
        }
        LocalHandshakeStalledHeld => {
            let partials: [&[u8]; 8] = [b"\x05", b"\x05\x02\x00", b"C", b"CONNECT local", b"GET http://localhost:80/ HTTP/1.1\r\nHost: localhost\r\n", b"\x05\x01\x00", b"\x04", b""];
            for (k, p) in partials.iter().enumerate() {
                if let Some(mut s) = connect(cp).await {
                    let _ = s.write_all(p).await;
                    if k == 5 {
                        // the greeting is complete; the request is started and never finished
                        let mut r = [0u8; 2];
                        let _ = tokio::time::timeout(Duration::from_secs(2), s.read_exact(&mut r)).await;
                        let _ = s.write_all(b"\x05\x01\x00\x03\x09loc").await;
                    }
                    hold(&mut h, s);
                }
            }
            // and sixty that say nothing at all, all open at the same time
            for _ in 0..60 {
                if let Some(s) = connect(cp).await {
                    hold(&mut h, s);
                }
            }
        }
        LocalGarbage => {
            for k in 0..12usize {
                if let Some(mut s) = connect(cp).await {
                    let _ = s.write_all(&rng.bytes([1usize, 2, 3, 10, 100, 1024, 1025, 5000][k % 8])).await;
                    if k % 3 == 0 {
                        let _ = s.set_linger(Some(Duration::from_secs(0)));
                    }
                }
            }
        }
        LocalConnectClose => {
            for _ in 0..20 {
                drop(connect(cp).await);
            }
        }
        LocalUdpMalformed => {
            if let Ok(s) = UdpSocket::bind("127.0.0.1:0").await {
                let bad: Vec<Vec<u8>> = vec![
                    vec![],
                    vec![0],
                    vec![0, 0],
                    vec![0, 0, 0, 1],
                    vec![0, 0, 1, 1, 127, 0, 0, 1, 0, 80, 1, 2, 3],
                    vec![0, 0, 0, 9, 1, 2, 3, 4, 0, 80],
                    vec![0, 0, 0, 3, 200, b'a', b'b'],
                    vec![0, 0, 0, 3, 0, 0, 80],
                    vec![0, 0, 0, 4, 1, 2, 3],
                    vec![0, 0, 0, 1, 127, 0, 0],
                    vec![0, 0, 0, 3, 2, 0xff, 0xfe, 0, 80, 1],
                    rng.bytes(64),
                ];
                for b in bad {
                    let _ = s.send_to(&b, ("127.0.0.1", cp)).await;
                    tokio::time::sleep(Duration::from_millis(5)).await;
                }
            }
        }
        AppUdpTargetUnresolvable | AppUdpTargetRefused => {
            if let Ok(s) = UdpSocket::bind("127.0.0.1:0").await {
                let dead = free_port();
                for seq in 0..4u32 {
                    let p = make_payload(e.nonce, 60000, 0, seq, 100, 0);
                    let d = if f == AppUdpTargetUnresolvable { socks5_udp("no-such-host.invalid", 53, &p) } else { socks5_udp("127.0.0.1", dead, &p) };
                    let _ = s.send_to(&d, ("127.0.0.1", cp)).await;
                    tokio::time::sleep(Duration::from_millis(60)).await;
                }
                hold(&mut h, s);
            }
        }
        UdpOversizeReply => {
            // a target answers with the largest datagram UDP can carry: wrapped by the relay it no longer fits
            if let (Ok(bloat), Ok(s)) = (UdpSocket::bind("127.0.0.1:0").await, UdpSocket::bind("127.0.0.1:0").await) {
                let bport = bloat.local_addr().map(|a| a.port()).unwrap_or(0);
                let t = tokio::spawn(async move {
                    let mut buf = vec![0u8; 70000];
                    let big = vec![0xA5u8; 65507];
                    let mut k = 0usize;
                    while let Ok((_, from)) = bloat.recv_from(&mut buf).await {
                        let n = [65507usize, 65500, 65480, 65470][k % 4];
                        k += 1;
                        let _ = bloat.send_to(&big[..n], from).await;
                    }
                });
                for seq in 0..4u32 {
                    let p = make_payload(e.nonce, 60002, 0, seq, 64, 0);
                    let _ = s.send_to(&socks5_udp("127.0.0.1", bport, &p), ("127.0.0.1", cp)).await;
                    tokio::time::sleep(Duration::from_millis(80)).await;
                }
                tokio::time::sleep(Duration::from_millis(200)).await;
                hold(&mut h, AbortOnDrop(t));
                hold(&mut h, s);
            }
        }
        UdpOversizeRequest => {
            // the application sends the largest datagrams it can: wrapped by the client they no longer fit
            if let (Ok(s), Some(tport)) = (UdpSocket::bind("127.0.0.1:0").await, e.udp_target.as_ref().map(|t| t.port)) {
                for (seq, size) in [65497usize, 65490, 65470, 65450].iter().enumerate() {
                    let p = make_payload(e.nonce, 60003, 0, seq as u32, *size, 0);
                    let _ = s.send_to(&socks5_udp("127.0.0.1", tport, &p), ("127.0.0.1", cp)).await;
                    tokio::time::sleep(Duration::from_millis(80)).await;
                }
                hold(&mut h, s);
            }
        }
        LinkCutMidFlow | LinkResetMidFlow => {
            let mut specs = Vec::new();
            for k in 0..4 {
                let id = e.flow_id();
                specs.push(FlowSpec { id, kind: README_KINDS[k % 4], c2s: 3_000_000, s2c: 3_000_000, write_c: 1000, write_s: 1000, pause_ms: 2, pattern: Pattern::Simultaneous, closer: Closer::AppAfterAll });
            }
            let (reg, d, tp) = (e.reg.clone(), e.d.clone(), e.target.port);
            let flows = tokio::spawn(async move { run_batch(reg, &d, tp, specs, 4, Duration::from_secs(8)).await });
            tokio::time::sleep(Duration::from_millis(300)).await;
            if let Some(ch) = &e.chopper {
                if f == LinkResetMidFlow {
                    ch.reset.store(true, Ordering::SeqCst);
                }
                ch.cut.store(true, Ordering::SeqCst);
            }
            let _ = flows.await;
            if let Some(ch) = &e.chopper {
                ch.cut.store(false, Ordering::SeqCst);
                ch.reset.store(false, Ordering::SeqCst);
            }
        }
        LinkDownWhileUdpBinding => {
            // datagram-in-stream protocols open a connection to the server per binding: the link is down while they try
            if let Some(ch) = &e.chopper {
                ch.cut.store(true, Ordering::SeqCst);
            }
            let _ = udp_canary(e, 1).await;
            if let Some(ch) = &e.chopper {
                ch.cut.store(false, Ordering::SeqCst);
            }
            tokio::time::sleep(Duration::from_millis(100)).await;
        }
        LinkStalledTcpFlows => {
            // the link swallows everything for a while: flows started meanwhile stall in their transport handshake
            if let Some(ch) = &e.chopper {
                ch.blackhole.store(true, Ordering::SeqCst);
            }
            let mut specs = Vec::new();
            for k in 0..4 {
                let id = e.flow_id();
                specs.push(FlowSpec { id, kind: README_KINDS[k % 4], c2s: 2000, s2c: 2000, write_c: 500, write_s: 500, pause_ms: 0, pattern: Pattern::RequestResponse, closer: Closer::TargetAfterAnswer });
            }
            let (reg, d, tp) = (e.reg.clone(), e.d.clone(), e.target.port);
            let flows = tokio::spawn(async move { run_batch(reg, &d, tp, specs, 4, Duration::from_secs(40)).await });
            tokio::time::sleep(Duration::from_millis(500)).await;
            if let Some(ch) = &e.chopper {
                ch.blackhole.store(false, Ordering::SeqCst);
            }
            // the stalled flows stay as they are while the canary runs
            hold(&mut h, AbortOnDrop(flows));
        }
        LinkStalledWhileUdpBinding => {
            // a datagram binding is being opened while the link swallows everything: its transport handshake stalls
            if let Some(ch) = &e.chopper {
                ch.blackhole.store(true, Ordering::SeqCst);
            }
            if let (Ok(s), Some(tport)) = (UdpSocket::bind("127.0.0.1:0").await, e.udp_target.as_ref().map(|t| t.port)) {
                let p = make_payload(e.nonce, 60001, 0, 0, 100, 0);
                let _ = s.send_to(&socks5_udp("127.0.0.1", tport, &p), ("127.0.0.1", cp)).await;
                hold(&mut h, s);
            }
            tokio::time::sleep(Duration::from_millis(500)).await;
            if let Some(ch) = &e.chopper {
                ch.blackhole.store(false, Ordering::SeqCst);
            }
        }
        ServerRestart => {
            // the server goes away; flows and datagrams fail meanwhile; it comes back on the same port
            e.pair.server.kill();
            for kind in [LocalKind::Socks5V4, LocalKind::HttpConnect] {
                let tp = e.target.port;
                let _ = tokio::time::timeout(Duration::from_secs(6), app_flow_expect_failure(cp, kind, "127.0.0.1", tp)).await;
            }
            if e.d.udp {
                let _ = udp_canary(e, 1).await;
            }
            let (dd, sj, tg) = (e.d.clone(), e.server_json.clone(), format!("{}-r{}", e.tag, e.next_flow));
            let started = tokio::task::spawn_blocking(move || {
                let mut server = start_node("server", &sj, &dd.dir, &tg, dd.workers, &dd.log_level, Some(NOFILE), None).map_err(|e| e.to_string())?;
                let (stcp, sudp) = server_expect(&dd);
                wait_ready(&mut server, if stcp { Some(dd.server_port) } else { None }, if sudp { Some(dd.server_port) } else { None }, Duration::from_secs(15))?;
                Ok::<Node, String>(server)
            })
            .await;
            match started {
                Ok(Ok(n)) => {
                    e.pair.server = n;
                    e.base_server = procfs::bound_ports(e.pair.server.pid);
                }
                _ => rep.inconclusive("the server could not be restarted on its port"),
            }
        }
        SrvManyFailedHandshakes => {
            // 320 handshakes that fail, strictly one after the other (never more than one connection open), in the ways the
            // listener's transport offers; then the same through the QUIC endpoint
            let t = e.d.transport;
            let (tls, ws) = (matches!(t, Transport::Tls | Transport::Wss), matches!(t, Transport::Ws | Transport::Wss));
            let mut applied = 0u64;
            async fn drain<S: AsyncReadExt + Unpin>(s: &mut S, ms: u64) {
                let mut b = [0u8; 512];
                let t0 = Instant::now();
                while t0.elapsed() < Duration::from_millis(ms) {
                    match tokio::time::timeout(Duration::from_millis(ms), s.read(&mut b)).await {
                        Ok(Ok(n)) if n > 0 => continue,
                        _ => break,
                    }
                }
            }
            if e.server_has_tcp() {
                for k in 0..320usize {
                    let req: Vec<u8> = match k % 4 {
                        0 => Vec::new(),
                        1 => rng.bytes(60),
                        2 if ws => b"GET /other HTTP/1.1\r\nHost: localhost\r\n\r\n".to_vec(),
                        3 if ws => b"GET /ws HTTP/1.1\r\nHost: localhost\r\nUpgrade: websocket\r\nConnection: Upgrade\r\nSec-WebSocket-Version: 7\r\n\r\n".to_vec(),
                        2 => rng.bytes(300),
                        _ => rng.bytes(16),
                    };
                    if tls && k % 4 >= 2 {
                        if let Some(mut s) = tls_connect(e, sp).await {
                            let _ = s.write_all(&req).await;
                            let _ = s.flush().await;
                            drain(&mut s, 150).await;
                            applied += 1;
                        }
                    } else if let Some(mut s) = connect(sp).await {
                        if !req.is_empty() {
                            let _ = s.write_all(&req).await;
                            drain(&mut s, if ws { 150 } else { 30 }).await;
                        }
                        if k % 8 == 7 {
                            let _ = s.set_linger(Some(Duration::from_secs(0)));
                        }
                        applied += 1;
                    }
                }
            }
            if e.server_has_quic() {
                if let Some(ep) = quic_endpoint() {
                    for k in 0..120usize {
                        let conn = match ep.connect(format!("127.0.0.1:{sp}").parse().unwrap(), "localhost") {
                            Ok(c) => tokio::time::timeout(Duration::from_secs(5), c).await.ok().and_then(|r| r.ok()),
                            Err(_) => None,
                        };
                        let Some(conn) = conn else { continue };
                        if k % 3 != 0 {
                            if let Ok((mut tx, _rx)) = conn.open_bi().await {
                                let _ = tx.write_all(&rng.bytes([1usize, 40, 300][k % 3])).await;
                                let _ = tx.finish();
                                tokio::time::sleep(Duration::from_millis(10)).await;
                            }
                        }
                        conn.close(0u32.into(), b"");
                        applied += 1;
                    }
                    ep.wait_idle().await;
                }
            }
            rep.mon("failed_handshakes_in_a_row_against_the_server", applied);
            tokio::time::sleep(Duration::from_millis(300)).await;
        }
        LocalManyUdpApplications => {
            // more applications than the client's binding table has places (64): 80 sockets, one exchange each, all kept open
            // while the canary - one more application - runs
            if let Some(tport) = e.udp_target.as_ref().map(|t| t.port) {
                let mut served = 0u64;
                let mut buf = vec![0u8; 4096];
                for k in 0..80u16 {
                    if let Ok(s) = UdpSocket::bind("127.0.0.1:0").await {
                        let p = make_payload(e.nonce, 61000 + k, 0, 0, 80, 0);
                        let _ = s.send_to(&socks5_udp("127.0.0.1", tport, &p), ("127.0.0.1", cp)).await;
                        if tokio::time::timeout(Duration::from_millis(400), s.recv_from(&mut buf)).await.is_ok() {
                            served += 1;
                        }
                        hold(&mut h, s);
                    }
                }
                rep.mon("udp_applications_opened_in_a_row", 80);
                rep.mon("udp_applications_opened_in_a_row_that_were_answered", served);
            }
        }
        LocalManyFailedFlows => {
            // 240 local flows that fail, one after the other; then 200 malformed and 100 undeliverable local datagrams
            let dead = free_port();
            let mut applied = 0u64;
            for k in 0..240usize {
                match k % 4 {
                    0 => drop(connect(cp).await),
                    1 => {
                        if let Some(mut s) = connect(cp).await {
                            let _ = s.write_all(&rng.bytes(10)).await;
                        }
                    }
                    2 => {
                        // eight flows at a time to a port that refuses (520 refused dials in all)
                        let mut hs = Vec::new();
                        for j in 0..8usize {
                            let kind = [LocalKind::Socks5V4, LocalKind::HttpConnect, LocalKind::Socks5Domain][(k / 4 + j) % 3];
                            hs.push(tokio::spawn(async move {
                                let _ = tokio::time::timeout(Duration::from_secs(6), app_flow_refused(cp, kind, if kind == LocalKind::Socks5V4 { "127.0.0.1" } else { "localhost" }, dead)).await;
                            }));
                        }
                        for h in hs {
                            let _ = h.await;
                        }
                        applied += 7;
                        if k % 40 == 2 {
                            let _ = tokio::time::timeout(Duration::from_secs(6), app_flow_expect_failure(cp, LocalKind::Socks5Domain, "no-such-host.invalid", 80)).await;
                        }
                    }
                    _ => {
                        if let Some(mut s) = connect(cp).await {
                            let _ = s.write_all(b"\x05\x01").await;
                            let _ = s.shutdown().await;
                        }
                    }
                }
                applied += 1;
            }
            if e.d.udp {
                if let Ok(s) = UdpSocket::bind("127.0.0.1:0").await {
                    for k in 0..200usize {
                        let b: Vec<u8> = match k % 5 {
                            0 => vec![0, 0, 0, 3, 200, b'a', b'b'],
                            1 => vec![0, 0, 1, 1, 127, 0, 0, 1, 0, 80, 1, 2, 3],
                            2 => vec![0, 0, 0, 9, 1, 2, 3, 4, 0, 80],
                            3 => rng.bytes(1 + k % 40),
                            _ => vec![0, 0, 0, 1, 127, 0, 0],
                        };
                        let _ = s.send_to(&b, ("127.0.0.1", cp)).await;
                        if k % 20 == 19 {
                            tokio::time::sleep(Duration::from_millis(5)).await;
                        }
                    }
                    for seq in 0..100u32 {
                        let p = make_payload(e.nonce, 60004, 0, seq, 100, 0);
                        let _ = s.send_to(&socks5_udp("127.0.0.1", dead, &p), ("127.0.0.1", cp)).await;
                        if seq % 10 == 9 {
                            tokio::time::sleep(Duration::from_millis(10)).await;
                        }
                    }
                    applied += 300;
                }
            }
            rep.mon("failed_local_flows_and_datagrams_in_a_row", applied);
            tokio::time::sleep(Duration::from_millis(300)).await;
        }
    }
    h
}

// ---------------------------------------------------------------------------------------------

fn witness(e: &Env, history: &[Fault], fault: Fault, symptom: &str) -> Value {
    json!({
        "seed": e.a.seed,
        "config": e.cfgname,
        "deploy": e.d.describe(),
        "history": history.iter().map(|f| f.name()).collect::<Vec<_>>(),
        "fault": fault.name(),
        "symptom": symptom,
        "client_log": e.pair.client.log_tail(12),
        "server_log": e.pair.server.log_tail(12),
    })
}

/// Fresh pair, only `faults`, then the service check. Ok(None) = service fine; Ok(Some(symptom)) = reproduced.
async fn isolated(a: &Args, idx: usize, sub: &str, proto: Proto, transport: Transport, udp: bool, faults: &[Fault], rep: &mut Report) -> Result<Option<(String, Value)>, String> {
    isolated_x(a, idx, sub, proto, transport, udp, faults, rep, false).await
}

/// `virgin`: the faults are the FIRST thing that happens to the two processes (no flow has gone through them before).
async fn isolated_x(a: &Args, idx: usize, sub: &str, proto: Proto, transport: Transport, udp: bool, faults: &[Fault], rep: &mut Report, virgin: bool) -> Result<Option<(String, Value)>, String> {
    let mut rng = Rng::derive(a.seed, 0xC08, idx as u64);
    let mut e = start_env(a, idx, sub, proto, transport, udp, &mut rng).await?;
    if !virgin {
        if let Err(s) = service_check(&mut e, 3, rep).await {
            return Err(format!("fresh pair is not serviceable: {s}"));
        }
    }
    let mut held_all: Vec<Held> = Vec::new();
    let mut last = *faults.last().unwrap();
    for f in faults {
        if !f.applicable(&e) {
            continue;
        }
        last = *f;
        let h = apply(*f, &mut e, &mut rng, rep).await;
        held_all.push(h);
    }
    let r = service_check(&mut e, 3, rep).await;
    let out = match r {
        Ok(()) => None,
        Err(s) => Some((s.clone(), witness(&e, faults, last, &s))),
    };
    drop(held_all);
    let dir = e.d.dir.clone();
    drop(e);
    let _ = std::fs::remove_dir_all(dir);
    Ok(out)
}

async fn one_config(a: Args, idx: usize, proto: Proto, transport: Transport, udp: bool, passes: usize) -> Report {
    let mut rep = Report::new();
    let mut rng = Rng::derive(a.seed, 0xC08, idx as u64);
    let mut e = match start_env(&a, idx, "main", proto, transport, udp, &mut rng).await {
        Ok(e) => e,
        Err(x) => {
            rep.inconclusive(format!("nodes do not start: {}", x.lines().next().unwrap_or("")));
            return rep;
        }
    };
    let cfgname = e.cfgname.clone();
    let udp = e.d.udp;
    if let Err(s) = service_check(&mut e, 3, &mut rep).await {
        rep.violation(format!("C08|{}|no-fault|{}", cfgname, s), format!("{cfgname}: the service does not work before any fault: {s}"), witness(&e, &[], Fault::SrvConnectClose, &s));
        return rep;
    }
    // a fault as the very first thing in the life of both processes (whatever a process sets up lazily at its first flow -
    // configurations, caches, pools - is set up under the fault): fresh pairs, no flow before the fault
    for f in [Fault::LocalDescriptorExhaustion, Fault::SrvDescriptorExhaustion, Fault::LinkStalledTcpFlows] {
        if !f.applicable(&e) {
            continue;
        }
        rep.mon("faults_applied_as_the_first_thing_in_the_life_of_the_processes", 1);
        rep.case(&(idx, "virgin", f.name()), true);
        if let Ok(Some((s1, w))) = isolated_x(&a, idx, "virgin", proto, transport, udp, &[f], &mut rep, true).await {
            // believed when it comes back on another fresh pair
            if let Ok(Some((s2, _))) = isolated_x(&a, idx, "virgin2", proto, transport, udp, &[f], &mut rep, true).await {
                let _ = s1;
                rep.violation(format!("C08|{}|first-thing-in-the-life-of-the-processes:{}|{}", cfgname, f.name(), symptom_class(&s2)), format!("{cfgname}: with {} as the first thing that happens to fresh processes the service stays impaired afterwards: {}", f.name(), s2), w);
            } else {
                rep.inconclusive(format!("a failing canary after {} on virgin processes did not come back on another fresh pair", f.name()));
            }
        }
    }
    let mut history: Vec<Fault> = Vec::new();
    let mut reported: HashSet<Fault> = HashSet::new();
    for pass in 0..passes {
        // every applicable fault once per pass, in a seed-chosen order: each prefix is a fault sequence
        let mut order: Vec<Fault> = ALL_FAULTS.iter().copied().filter(|f| f.applicable(&e)).collect();
        for i in (1..order.len()).rev() {
            let j = rng.below(i as u64 + 1) as usize;
            order.swap(i, j);
        }
        if idx == 0 && pass == 0 {
            rep.sample(json!({"config": cfgname, "fault_order": order.iter().map(|f| f.name()).collect::<Vec<_>>(), "after_each": "fresh TCP canary (3000 B request / 5000 B answer, positional-stream oracle), fresh UDP canary from a new application socket (2 datagrams), both processes alive, listening/bound sockets unchanged", "descriptor_limit": NOFILE}));
        }
        for f in order {
            if reported.contains(&f) {
                continue;
            }
            let t_fault = Instant::now();
            let held = apply(f, &mut e, &mut rng, &mut rep).await;
            rep.mon(&format!("ms_applying:{}", f.name()), t_fault.elapsed().as_millis() as u64);
            history.push(f);
            rep.mon("faults_applied", 1);
            rep.mon(&format!("fault:{}", f.name()), 1);
            let t_check = Instant::now();
            let r = service_check(&mut e, 3, &mut rep).await;
            rep.mon(&format!("ms_service_check_after:{}", f.name()), t_check.elapsed().as_millis() as u64);
            rep.case(&(idx, pass, f.name(), history.len()), true);
            drop(held);
            let Err(sym) = r else { continue };
            // retry in isolation before believing it
            let first_witness = witness(&e, &history, f, &sym);
            let mut confirmed = 0;
            let mut inconclusive = 0;
            let mut iso_sym = sym.clone();
            for k in 0..2 {
                match isolated(&a, idx, &format!("iso{k}"), proto, transport, udp, &[f], &mut rep).await {
                    Ok(Some((s, _))) => {
                        confirmed += 1;
                        iso_sym = s;
                    }
                    Ok(None) => {}
                    Err(_) => inconclusive += 1,
                }
            }
            if confirmed == 2 {
                reported.insert(f);
                rep.violation(format!("C08|{}|{}|{}", cfgname, f.name(), symptom_class(&iso_sym)), format!("{cfgname}: after fault {} the service is impaired for others: {}", f.name(), iso_sym), first_witness);
            } else if inconclusive == 0 {
                // not the fault alone: the whole history once more on a fresh pair
                match isolated(&a, idx, "hist", proto, transport, udp, &history, &mut rep).await {
                    Ok(Some((s, w))) => {
                        rep.violation(format!("C08|{}|sequence-ending-in:{}|{}", cfgname, f.name(), symptom_class(&s)), format!("{cfgname}: after the fault sequence {:?} the service is impaired for others: {}", history.iter().map(|x| x.name()).collect::<Vec<_>>(), s), w);
                        reported.insert(f);
                    }
                    Ok(None) => rep.inconclusive(format!("a failing canary after {} did not reproduce in isolation nor with its history", f.name())),
                    Err(x) => rep.inconclusive(format!("isolation run could not start: {x}")),
                }
            } else {
                rep.inconclusive(format!("isolation runs for {} could not start", f.name()));
            }
            // continue on a fresh pair
            let dir = e.d.dir.clone();
            drop(e);
            let _ = std::fs::remove_dir_all(dir);
            history.clear();
            e = match start_env(&a, idx, &format!("main{pass}"), proto, transport, udp, &mut rng).await {
                Ok(e) => e,
                Err(x) => {
                    rep.inconclusive(format!("nodes do not restart: {}", x.lines().next().unwrap_or("")));
                    return rep;
                }
            };
        }
    }
    // afterwards: nobody panicked, nobody exited
    for (who, node) in [("client", &mut e.pair.client), ("server", &mut e.pair.server)] {
        let n = node.panics().len();
        rep.mon("node_panics_recorded", n as u64);
        if !node.alive() {
            rep.violation(format!("C08|{}|end|{}-exited", cfgname, who), format!("{cfgname}: {who} exited"), json!({"log": node.log_tail(12)}));
        }
    }
    let dir = e.d.dir.clone();
    drop(e);
    let _ = std::fs::remove_dir_all(dir);
    rep
}

fn symptom_class(s: &str) -> String {
    // keep the kind of the symptom, drop run-specific detail
    let head: Vec<&str> = s.splitn(3, ':').collect();
    match head.len() {
        0 | 1 => s.to_string(),
        _ => format!("{}:{}", head[0], head[1].split(' ').next().unwrap_or("")),
    }
}

pub fn matrix(seed: u64, thorough: bool) -> Vec<(Proto, Transport, bool)> {
    use refimpl::ss::Method as M;
    let mut v: Vec<(Proto, Transport, bool)> = Vec::new();
    if thorough {
        for p in crate::real::all_protos() {
            for t in ALL_TRANSPORTS {
                // README: Trojan relays UDP over tls, wss and quic only
                let udp = !(p == Proto::Trojan && matches!(t, Transport::Tcp | Transport::Ws));
                v.push((p, t, udp));
            }
        }
        return v;
    }
    let ss22 = [M::B3Aes128Gcm, M::B3Aes256Gcm, M::B3ChaCha20Poly1305, M::B3ChaCha8Poly1305];
    let legacy = [M::Aes128Gcm, M::Aes256Gcm, M::ChaCha20IetfPoly1305];
    let s = seed as usize;
    v.push((Proto::Ss(ss22[s % 4]), Transport::Tcp, true));
    v.push((Proto::Ss(legacy[s % 3]), Transport::Tls, true));
    v.push((Proto::Ss(ss22[(s + 1) % 4]), Transport::Quic, false));
    v.push((Proto::Vmess(3 + (s % 2) as u8), Transport::Ws, true));
    v.push((Proto::Vmess(4 - (s % 2) as u8), Transport::Quic, true));
    v.push((Proto::Trojan, Transport::Wss, true));
    v.push((Proto::Trojan, Transport::Tls, true));
    v.push((Proto::Vmess(3), Transport::Tcp, true));
    v
}

pub async fn run(a: &Args) -> Report {
    let m = matrix(a.seed, a.thorough);
    let only: Option<usize> = a.sub.as_ref().and_then(|s| s.strip_prefix("only=").and_then(|x| x.parse().ok()));
    let sem = Arc::new(tokio::sync::Semaphore::new(8));
    let mut hs = Vec::new();
    let passes = if a.thorough { 3 } else { 1 };
    for (idx, (p, t, u)) in m.into_iter().enumerate() {
        if only.map_or(false, |o| o != idx) {
            continue;
        }
        let a = a.clone();
        let sem = sem.clone();
        hs.push(tokio::spawn(async move {
            let _g = sem.acquire_owned().await.unwrap();
            one_config(a, idx, p, t, u, passes).await
        }));
    }
    let mut rep = Report::new();
    for h in hs {
        match h.await {
            Ok(r) => rep.merge(r),
            Err(e) => rep.inconclusive(format!("configuration task failed: {e}")),
        }
    }
    rep
}
