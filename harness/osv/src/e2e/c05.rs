//! C05 at node level - bytes made up by somebody who is not the configured server are never released.
//!
//! Over tls / wss / quic the first line of defence against inserted and spliced bytes is the transport itself: the
//! client was configured with the certificate (authority) of ITS server and a server name. An impostor in the path
//! terminates the handshake itself with an identity of its own:
//!
//!   self-signed          a self-signed certificate for the right name
//!   unrelated-ca         a leaf for the right name under an unrelated authority (whose subject NAME equals the real one's)
//!   configured-appended  the same, with the client's configured certificate appended to the presented chain
//!   genuine-appended     the impostor's own leaf first, the genuine server's leaf (public anyway) behind it
//!   other-name           a certificate of the RIGHT authority, issued for another host name
//!
//! and, as the control without which the monitor has observed nothing, the genuine identity. Oracle: with an impostor
//! the handshake must not complete - no application data (Trojan: the password hash and the request in clear) may
//! arrive at the impostor and nothing it sends may reach the local application; with the genuine identity the
//! handshake completes and the request arrives.

use std::sync::atomic::{AtomicU64, Ordering};
use std::sync::Arc;
use std::time::Duration;

use serde_json::json;
use tokio::io::{AsyncReadExt, AsyncWriteExt};
use tokio_rustls::rustls::pki_types::pem::PemObject;
use tokio_rustls::rustls::pki_types::{CertificateDer, PrivateKeyDer};

use super::c01::work_dir;
use super::endpoints::{local_handshake, LocalKind};
use super::nodes::*;
use crate::checks::Args;
use crate::prng::Rng;
use crate::real::{Cfg, Proto};
use crate::report::Report;

const FORGED: &[u8] = b"HTTP/1.1 200 OK\r\nContent-Length: 13\r\n\r\nFORGED ANSWER";

#[derive(Clone, Copy, Debug, PartialEq)]
enum Identity {
    Genuine,
    SelfSigned,
    UnrelatedCa,
    ConfiguredAppended,
    GenuineAppended,
    OtherName,
    /// quic only: the QUIC endpoint never answers (every datagram is lost) while something accepts TCP on the same port
    /// number: a client that "falls back" would hand its request to whoever listens there, outside any authenticated transport
    SilentQuicTcpOpen,
}

fn identity_files(i: Identity) -> (Vec<&'static str>, &'static str) {
    match i {
        Identity::Genuine => (vec!["leaf.crt"], "leaf.key"),
        Identity::SelfSigned => (vec!["self.crt"], "self.key"),
        Identity::UnrelatedCa => (vec!["rogue-leaf.crt", "rogue-ca.crt"], "rogue-leaf.key"),
        Identity::ConfiguredAppended => (vec!["rogue-leaf.crt", "rogue-ca.crt", "ca.crt"], "rogue-leaf.key"),
        Identity::GenuineAppended => (vec!["rogue-leaf.crt", "leaf.crt", "ca.crt"], "rogue-leaf.key"),
        Identity::OtherName => (vec!["othername.crt"], "othername.key"),
        Identity::SilentQuicTcpOpen => (vec![], ""),
    }
}

fn server_config(i: Identity) -> Option<tokio_rustls::rustls::ServerConfig> {
    let _ = tokio_rustls::rustls::crypto::aws_lc_rs::default_provider().install_default();
    let dir = verif_root().join("certs");
    let (certs, key) = identity_files(i);
    let chain: Vec<CertificateDer<'static>> = certs.iter().map(|c| CertificateDer::from_pem_file(dir.join(c)).ok()).collect::<Option<Vec<_>>>()?;
    let key = PrivateKeyDer::from_pem_file(dir.join(key)).ok()?;
    let mut cfg = tokio_rustls::rustls::ServerConfig::builder().with_no_client_auth().with_single_cert(chain, key).ok()?;
    cfg.alpn_protocols = vec![b"http/1.1".to_vec()];
    Some(cfg)
}

struct Impostor {
    port: u16,
    /// handshakes that completed
    completed: Arc<AtomicU64>,
    /// application bytes read after a completed handshake
    app_bytes: Arc<AtomicU64>,
    task: tokio::task::JoinHandle<()>,
}

impl Drop for Impostor {
    fn drop(&mut self) {
        self.task.abort();
    }
}

async fn start_tls_impostor(i: Identity) -> Option<Impostor> {
    let cfg = Arc::new(server_config(i)?);
    let l = tokio::net::TcpListener::bind("127.0.0.1:0").await.ok()?;
    let port = l.local_addr().ok()?.port();
    let (completed, app_bytes) = (Arc::new(AtomicU64::new(0)), Arc::new(AtomicU64::new(0)));
    let (c2, a2) = (completed.clone(), app_bytes.clone());
    let task = tokio::spawn(async move {
        while let Ok((s, _)) = l.accept().await {
            let (cfg, c2, a2) = (cfg.clone(), c2.clone(), a2.clone());
            tokio::spawn(async move {
                let acc = tokio_rustls::TlsAcceptor::from(cfg);
                let Ok(Ok(mut t)) = tokio::time::timeout(Duration::from_secs(5), acc.accept(s)).await else { return };
                c2.fetch_add(1, Ordering::SeqCst);
                // whatever the client says next it says to the wrong party; answer with bytes of our own
                let mut b = vec![0u8; 8192];
                let _ = t.write_all(FORGED).await;
                let _ = t.flush().await;
                while let Ok(Ok(n)) = tokio::time::timeout(Duration::from_millis(1500), t.read(&mut b)).await {
                    if n == 0 {
                        break;
                    }
                    a2.fetch_add(n as u64, Ordering::SeqCst);
                }
            });
        }
    });
    Some(Impostor { port, completed, app_bytes, task })
}

async fn start_quic_impostor(i: Identity) -> Option<Impostor> {
    let cfg = server_config(i)?;
    let qc = quinn::crypto::rustls::QuicServerConfig::try_from(cfg).ok()?;
    let sock = std::net::UdpSocket::bind("127.0.0.1:0").ok()?;
    let port = sock.local_addr().ok()?.port();
    let ep = quinn::Endpoint::new(quinn::EndpointConfig::default(), Some(quinn::ServerConfig::with_crypto(Arc::new(qc))), sock, Arc::new(quinn::TokioRuntime)).ok()?;
    let (completed, app_bytes) = (Arc::new(AtomicU64::new(0)), Arc::new(AtomicU64::new(0)));
    let (c2, a2) = (completed.clone(), app_bytes.clone());
    let task = tokio::spawn(async move {
        while let Some(inc) = ep.accept().await {
            let (c2, a2) = (c2.clone(), a2.clone());
            tokio::spawn(async move {
                let Ok(Ok(conn)) = tokio::time::timeout(Duration::from_secs(5), async { inc.await }).await else { return };
                c2.fetch_add(1, Ordering::SeqCst);
                if let Ok(Ok((mut tx, mut rx))) = tokio::time::timeout(Duration::from_secs(3), conn.accept_bi()).await {
                    let _ = tx.write_all(FORGED).await;
                    let mut b = vec![0u8; 8192];
                    while let Ok(Ok(Some(n))) = tokio::time::timeout(Duration::from_millis(1500), rx.read(&mut b)).await {
                        a2.fetch_add(n as u64, Ordering::SeqCst);
                    }
                }
            });
        }
    });
    Some(Impostor { port, completed, app_bytes, task })
}

/// A UDP socket that swallows everything and a TCP listener on the same port number that reads whatever it is given.
async fn start_silent_quic_tcp_open() -> Option<Impostor> {
    for _ in 0..20 {
        let port = free_port();
        let Ok(u) = tokio::net::UdpSocket::bind(("127.0.0.1", port)).await else { continue };
        let Ok(l) = tokio::net::TcpListener::bind(("127.0.0.1", port)).await else { continue };
        let (completed, app_bytes) = (Arc::new(AtomicU64::new(0)), Arc::new(AtomicU64::new(0)));
        let (c2, a2) = (completed.clone(), app_bytes.clone());
        let task = tokio::spawn(async move {
            let swallow = tokio::spawn(async move {
                let mut b = vec![0u8; 4096];
                loop {
                    let _ = u.recv_from(&mut b).await;
                }
            });
            while let Ok((mut s, _)) = l.accept().await {
                let (c2, a2) = (c2.clone(), a2.clone());
                tokio::spawn(async move {
                    c2.fetch_add(1, Ordering::SeqCst);
                    let _ = s.write_all(FORGED).await;
                    let mut b = vec![0u8; 8192];
                    while let Ok(Ok(n)) = tokio::time::timeout(Duration::from_millis(3000), s.read(&mut b)).await {
                        if n == 0 {
                            break;
                        }
                        a2.fetch_add(n as u64, Ordering::SeqCst);
                    }
                });
            }
            swallow.abort();
        });
        return Some(Impostor { port, completed, app_bytes, task });
    }
    None
}

async fn one_config(a: Args, idx: usize, proto: Proto, transport: Transport) -> Report {
    let mut rep = Report::new();
    let mut rng = Rng::derive(a.seed, 0xC05E, idx as u64);
    let cfg = Cfg::random(&mut rng, proto, 0);
    let cfgname = format!("{}|{}", proto.name(), transport.name());
    let mut control_ok = false;
    // (identity, client configured with a server name?) - without one the client must hold the certificate against the
    // address it was given (the genuine leaf names 127.0.0.1 too; the other-name one does not)
    let mut ids = vec![(Identity::Genuine, true), (Identity::SelfSigned, true), (Identity::UnrelatedCa, true), (Identity::ConfiguredAppended, true), (Identity::GenuineAppended, true), (Identity::OtherName, true), (Identity::Genuine, false), (Identity::OtherName, false), (Identity::UnrelatedCa, false)];
    if transport == Transport::Quic {
        ids.push((Identity::SilentQuicTcpOpen, true));
    }
    for (k, (id, named)) in ids.iter().cloned().enumerate() {
        let imp = if id == Identity::SilentQuicTcpOpen { start_silent_quic_tcp_open().await } else if transport == Transport::Quic { start_quic_impostor(id).await } else { start_tls_impostor(id).await };
        let Some(imp) = imp else {
            rep.inconclusive(format!("impostor with identity {:?} does not start (certificates missing? run ./check --setup)", id));
            continue;
        };
        let dir = work_dir(&a, &format!("c05-{idx}-{k}"));
        let mut d = Deploy::new(cfg.clone(), transport, false, 2, &dir);
        d.server_port = imp.port;
        let mut cj = d.client_json();
        if !named {
            for sect in ["ssl", "quic"] {
                if let Some(o) = cj["servers"][0][sect].as_object_mut() {
                    o.remove("serverName");
                }
            }
        }
        let (dj, ddir, t, lvl, cport) = (cj.clone(), d.dir.clone(), format!("c05-{idx}-{k}"), d.log_level.clone(), d.client_port);
        let node = tokio::task::spawn_blocking(move || {
            let mut n = start_node("client", &dj, &ddir, &t, 2, &lvl, None, None).map_err(|e| e.to_string())?;
            wait_ready(&mut n, Some(cport), None, Duration::from_secs(15))?;
            Ok::<Node, String>(n)
        })
        .await
        .unwrap();
        let mut node = match node {
            Ok(n) => n,
            Err(e) => {
                rep.inconclusive(format!("{cfgname}: client does not start: {}", e.lines().next().unwrap_or("")));
                continue;
            }
        };
        // three applications: SOCKS5 by address, SOCKS5 by name, HTTP CONNECT; each sends a request and waits for whatever comes
        let mut delivered = 0usize;
        let mut forged_seen = false;
        for (j, kind) in [LocalKind::Socks5V4, LocalKind::Socks5Domain, LocalKind::HttpConnect].into_iter().enumerate() {
            rep.evaluations += 1;
            let Ok(mut s) = tokio::net::TcpStream::connect(("127.0.0.1", d.client_port)).await else { continue };
            if local_handshake(&mut s, kind, "service.example", 8000 + j as u16).await.is_err() {
                continue; // the client may refuse the flow outright once the server side cannot be reached
            }
            let _ = s.write_all(b"GET /secret HTTP/1.1\r\nHost: service.example\r\nAuthorization: Basic c2VjcmV0\r\n\r\n").await;
            let mut got = Vec::new();
            let mut b = vec![0u8; 4096];
            let patience = if id == Identity::SilentQuicTcpOpen { 4500 } else { 1200 };
            while let Ok(Ok(n)) = tokio::time::timeout(Duration::from_millis(patience), s.read(&mut b)).await {
                if n == 0 {
                    break;
                }
                got.extend_from_slice(&b[..n]);
            }
            delivered += got.len();
            if got.windows(13).any(|w| w == b"FORGED ANSWER") {
                forged_seen = true;
            }
        }
        tokio::time::sleep(Duration::from_millis(300)).await;
        let (completed, app_bytes) = (imp.completed.load(Ordering::SeqCst), imp.app_bytes.load(Ordering::SeqCst));
        rep.mon(&format!("handshakes_offered_with_identity:{:?}", id).to_lowercase(), 3);
        let ctx = json!({"seed": a.seed, "client": cj, "client_configured_with_a_server_name": named, "identity": format!("{:?}", id), "presented_chain": identity_files(id).0, "handshakes_completed": completed, "application_bytes_at_the_impostor": app_bytes, "bytes_delivered_to_the_application": delivered, "client_log": node.log_tail(6)});
        if id == Identity::Genuine {
            if !named {
                // second control: the genuine certificate names the address as well
                rep.mon("control_handshakes_completed_without_a_configured_server_name", completed);
                if completed == 0 {
                    rep.note(format!("{cfgname}: without a configured server name the genuine server is refused (the impostor cases of that variant then observe nothing)"));
                }
                drop(node);
                drop(imp);
                let _ = std::fs::remove_dir_all(&dir);
                continue;
            }
            control_ok = completed > 0 && app_bytes > 0;
            rep.mon("control_handshakes_completed_with_the_genuine_identity", completed);
            if !control_ok {
                rep.inconclusive(format!("{cfgname}: the control (genuine identity) did not complete a handshake: nothing observed for this configuration"));
                drop(node);
                let _ = std::fs::remove_dir_all(&dir);
                break;
            }
        } else {
            rep.mon("impostor_handshakes_refused", if completed == 0 { 3 } else { 0 });
            if completed > 0 || app_bytes > 0 {
                rep.violation(
                    format!("C05|impostor|{}|{:?}{}|{}", cfgname, id, if named { "" } else { "+no-server-name-configured" }, if id == Identity::SilentQuicTcpOpen { "request-handed-to-a-plain-tcp-listener-on-the-server's-port" } else { "handshake-completed-with-a-server-that-is-not-the-configured-one" }).to_lowercase(),
                    format!("{cfgname}: the client completed {completed} {} handshake(s) with a server presenting {:?} and sent it {app_bytes} bytes of application data", transport.name(), identity_files(id).0),
                    ctx.clone(),
                );
            }
            if forged_seen {
                rep.violation(format!("C05|impostor|{}|{:?}|forged-bytes-released-to-the-application", cfgname, id).to_lowercase(), format!("{cfgname}: bytes made up by the impostor reached the local application"), ctx);
            }
        }
        rep.case(&("impostor", idx, k), control_ok);
        if !node.alive() {
            rep.violation(format!("C05|impostor|{}|client-exited", cfgname), "client exited", json!({"log": node.log_tail(8)}));
        }
        drop(node);
        drop(imp);
        if std::env::var("OSV_KEEP_LOGS").is_err() {
            let _ = std::fs::remove_dir_all(&dir);
        }
    }
    rep
}

pub async fn run(a: &Args) -> Report {
    let sem = Arc::new(tokio::sync::Semaphore::new(6));
    let mut hs = Vec::new();
    let protos = [Proto::Trojan, Proto::Vmess(3), Proto::Ss(refimpl::ss::Method::B3Aes128Gcm), Proto::Ss(refimpl::ss::Method::Aes256Gcm)];
    for (i, p) in protos.into_iter().enumerate() {
        for (k, t) in [Transport::Tls, Transport::Wss, Transport::Quic].into_iter().enumerate() {
            // quick: Trojan (whose only protection is the transport) over all three, the others over one each
            if !a.thorough && i > 0 && (i + k + a.seed as usize) % 3 != 0 {
                continue;
            }
            let (a, sem) = (a.clone(), sem.clone());
            hs.push(tokio::spawn(async move {
                let _g = sem.acquire_owned().await.unwrap();
                one_config(a, i * 4 + k, p, t).await
            }));
        }
    }
    let mut rep = Report::new();
    for h in hs {
        if let Ok(r) = h.await {
            rep.merge(r);
        }
    }
    rep.sample(json!({"step": "impostor-nodes", "identities": ["genuine (control)", "self-signed", "unrelated authority with the same subject name", "unrelated chain + the configured certificate appended", "impostor leaf + genuine leaf appended", "right authority, other host name"], "oracle": "no completed handshake, no application data at the impostor, nothing of the impostor's at the application"}));
    rep
}
