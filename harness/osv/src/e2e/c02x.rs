//! C02, two further histories at node level.
//!
//! (1) The copier. A datagram man-in-the-middle sits between a real client and a real Shadowsocks server; the echo
//!     target answers late. While an answer is pending, a third party re-sends a captured client->server datagram,
//!     verbatim, from an address of its own. It holds no key: nothing may ever arrive at its address, and the owner's
//!     answers must keep arriving at the owner ("never to a different ... client session or user").
//!
//! (2) Labels and sizes against a reference server. A real client talks to a REFERENCE datagram server (VMess and
//!     Trojan datagram-in-stream over tcp, Shadowsocks UDP) that answers as the application's datagram tells it to:
//!     with a source address of every kind (IPv4, IPv6, names of 1 .. 255 bytes) and with sizes around every place
//!     where "fits into one datagram once the SOCKS5-UDP header is in front" flips. Each answer must arrive whole,
//!     unchanged and labelled with exactly that address - or not at all; and whatever happened to it, the NEXT small
//!     answer (same application, and a fresh one) must still arrive.

use std::sync::atomic::{AtomicU64, Ordering};
use std::sync::{Arc, Mutex};
use std::time::Duration;

use refimpl::addr::Addr;
use refimpl::ss;
use serde_json::json;
use tokio::io::{AsyncReadExt, AsyncWriteExt};
use tokio::net::{TcpListener, UdpSocket};

use super::c01::work_dir;
use super::c02::{check_payload, make_payload, socks5_udp};
use super::nodes::*;
use crate::checks::Args;
use crate::peer::{RefServer, ServerOpts};
use crate::prng::Rng;
use crate::real::{Cfg, Proto};
use crate::report::Report;

fn now_s() -> u64 {
    std::time::SystemTime::now().duration_since(std::time::UNIX_EPOCH).unwrap().as_secs()
}

// ------------------------------------------------------------------------------------------------------------
// (1) the copier

async fn copier(a: Args, idx: usize, m: ss::Method, users: usize) -> Report {
    let mut rep = Report::new();
    let mut rng = Rng::derive(a.seed, 0xC02C, idx as u64);
    let cfg = Cfg::random(&mut rng, Proto::Ss(m), users);
    let dir = work_dir(&a, &format!("c02x-{idx}"));
    let mut d = Deploy::new(cfg.clone(), Transport::Tcp, true, 2, &dir);
    d.server_mode = Some("tcp_and_udp".into());
    let cfgname = format!("{}|udp|users={}", m.name(), users);
    // the man-in-the-middle needs the port number the client is told
    let mut fwd = None;
    for _ in 0..20 {
        let p = free_port();
        if let Ok(u) = super::udpfwd::start(p, d.server_port).await {
            fwd = Some(u);
            break;
        }
    }
    let Some(fwd) = fwd else {
        rep.inconclusive("no port for the datagram forwarder");
        return rep;
    };
    let (dd, tag, link) = (d.clone(), format!("c02x-{idx}"), fwd.port);
    let pair = tokio::task::spawn_blocking(move || {
        let mut server = start_node("server", &dd.server_json(), &dd.dir, &tag, 2, &dd.log_level, None, None).map_err(|e| e.to_string())?;
        wait_ready(&mut server, Some(dd.server_port), Some(dd.server_port), Duration::from_secs(15))?;
        let mut dc = dd.clone();
        dc.server_port = link;
        // only the datagram relay goes through the forwarder (mode udp: no TCP listener needed at the link port)
        dc.client_mode = "udp".into();
        let mut client = start_node("client", &dc.client_json(), &dd.dir, &tag, 2, &dd.log_level, None, None).map_err(|e| e.to_string())?;
        wait_ready(&mut client, None, Some(dd.client_port), Duration::from_secs(15))?;
        Ok::<(Node, Node), String>((server, client))
    })
    .await
    .unwrap();
    let (mut server, mut client) = match pair {
        Ok(p) => p,
        Err(e) => {
            rep.inconclusive(format!("{cfgname}: nodes do not start: {}", e.lines().next().unwrap_or("")));
            return rep;
        }
    };
    // echo target answering after 150 ms
    let nonce = rng.next_u64();
    let t = Arc::new(UdpSocket::bind("127.0.0.1:0").await.unwrap());
    let tport = t.local_addr().unwrap().port();
    let t2 = t.clone();
    let echo = tokio::spawn(async move {
        let mut b = vec![0u8; 70000];
        while let Ok((n, from)) = t2.recv_from(&mut b).await {
            let (p, t3) = (b[..n].to_vec(), t2.clone());
            tokio::spawn(async move {
                tokio::time::sleep(Duration::from_millis(150)).await;
                if let Ok(id) = check_payload(nonce, &p) {
                    let len = u32::from_be_bytes(p[16..20].try_into().unwrap()) as usize;
                    let _ = t3.send_to(&make_payload(nonce, id.app, 0, id.seq, len, 1), from).await;
                }
            });
        }
    });
    let rounds = if a.thorough { 20 } else { 6 };
    for round in 0..rounds {
        let app = UdpSocket::bind("127.0.0.1:0").await.unwrap();
        let thief = UdpSocket::bind("127.0.0.1:0").await.unwrap();
        let appid = 300 + round as u16;
        let before = fwd.recorded.lock().unwrap().to_server.len();
        // the owner opens its session (answer after 150 ms) ...
        let mut expected = 0u32;
        for seq in 0..2u32 {
            let p = make_payload(nonce, appid, 0, seq, 200, 0);
            let _ = app.send_to(&socks5_udp("127.0.0.1", tport, &p), ("127.0.0.1", d.client_port)).await;
            expected += 1;
            rep.evaluations += 1;
        }
        tokio::time::sleep(Duration::from_millis(40)).await;
        // ... and while the answers are pending a third party re-sends what it captured, from an address of its own
        let captured: Vec<Vec<u8>> = fwd.recorded.lock().unwrap().to_server[before..].iter().map(|x| x.1.clone()).collect();
        if captured.is_empty() {
            rep.inconclusive(format!("{cfgname}: nothing captured on the path"));
            continue;
        }
        for c in captured.iter() {
            let _ = thief.send_to(c, ("127.0.0.1", d.server_port)).await;
            rep.mon("captured_datagrams_resent_from_another_address", 1);
        }
        // a later datagram of the owner, answered late as well
        tokio::time::sleep(Duration::from_millis(20)).await;
        if round % 2 == 0 {
            for c in captured.iter().take(1) {
                let _ = thief.send_to(c, ("127.0.0.1", d.server_port)).await;
            }
        }
        let mut got_app = 0u32;
        let mut got_thief = 0u32;
        let t0 = std::time::Instant::now();
        let (mut b1, mut b2) = (vec![0u8; 70000], vec![0u8; 70000]);
        while t0.elapsed() < Duration::from_millis(900) && (got_app < expected || t0.elapsed() < Duration::from_millis(450)) {
            tokio::select! {
                r = app.recv_from(&mut b1) => if r.is_ok() { got_app += 1 },
                r = thief.recv_from(&mut b2) => if r.is_ok() { got_thief += 1 },
                _ = tokio::time::sleep(Duration::from_millis(50)) => {}
            }
        }
        rep.mon("answers_at_the_owner", got_app as u64);
        rep.case(&("copier", idx, round), got_app > 0 || got_thief > 0);
        let w = json!({"seed": a.seed, "config": cfgname, "round": round, "answers_at_the_owner": got_app, "expected": expected, "datagrams_at_the_copier": got_thief, "deploy": d.describe()});
        if got_thief > 0 {
            rep.violation(format!("C02|{}|copier:answers-delivered-to-an-address-that-only-replayed-a-captured-datagram", cfgname), format!("{cfgname}: {got_thief} datagram(s) of the owner's session arrived at the address of a third party that had re-sent a captured datagram"), w.clone());
        }
        if got_app == 0 {
            // believed only together with the diversion or when it repeats: counted per configuration below
            rep.mon("rounds_in_which_the_owner_got_no_answer", 1);
            if got_thief > 0 {
                continue;
            }
            rep.violation(format!("C02|{}|copier:owner-not-answered-after-a-replay-from-another-address", cfgname), format!("{cfgname}: after a captured datagram was re-sent from another address the owner's pending answers never arrived"), w);
        }
    }
    // a binding that is re-opened: something undecodable arrives at the binding's socket from the server's address (its
    // reply task ends), and the application's NEXT datagram goes to ANOTHER target: it must arrive there, and only there
    {
        let nonce2 = rng.next_u64();
        if let (Ok(ta), Ok(tb)) = (super::c02::start_udp_target(nonce2, 0, 1, false).await, super::c02::start_udp_target(nonce2, 1, 1, false).await) {
            for round in 0..if a.thorough { 6u16 } else { 2 } {
                let app = UdpSocket::bind("127.0.0.1:0").await.unwrap();
                let appid = 900 + round;
                let mut buf = vec![0u8; 70000];
                let mut ask = |target: u16, port: u16, seq: u32| socks5_udp("127.0.0.1", port, &make_payload(nonce2, appid, target, seq, 300, 0));
                let _ = app.send_to(&ask(0, ta.port, 0), ("127.0.0.1", d.client_port)).await;
                let first = tokio::time::timeout(Duration::from_millis(1500), app.recv_from(&mut buf)).await.is_ok();
                let injected = fwd.inject_to_clients(&rng.bytes(40 + round as usize)).await;
                tokio::time::sleep(Duration::from_millis(150)).await;
                // up to three datagrams for the other target (the first may be the one that only re-opens the binding)
                let mut labelled: Option<(String, u16)> = None;
                for seq in 1..=3u32 {
                    let _ = app.send_to(&ask(1, tb.port, seq), ("127.0.0.1", d.client_port)).await;
                    if let Ok(Ok((n, _))) = tokio::time::timeout(Duration::from_millis(800), app.recv_from(&mut buf)).await {
                        labelled = super::c02::socks5_udp_parse(&buf[..n]).map(|(h, p, _)| (h, p));
                        break;
                    }
                }
                rep.evaluations += 1;
                rep.mon("bindings_reopened_for_another_target", if first && injected > 0 { 1 } else { 0 });
                rep.case(&("rebind", idx, round), first);
                let (pa, pb): (Vec<String>, Vec<String>) = (ta.log.lock().unwrap().problems.clone(), tb.log.lock().unwrap().problems.clone());
                let w = json!({"seed": a.seed, "config": cfgname, "round": round, "first_exchange_answered": first, "garbage_datagrams_injected_towards_the_client": injected, "problems_at_first_target": pa, "problems_at_second_target": pb, "label_of_the_answer": labelled, "second_target_port": tb.port});
                if let Some(p) = pa.iter().chain(pb.iter()).next() {
                    rep.violation(format!("C02|{}|rebind:{}", cfgname, crate::panicmon::normalise(p)), format!("{cfgname}: after the binding was re-opened: {p}"), w.clone());
                    break;
                }
                // the datagram that re-opens the binding is one datagram
                tokio::time::sleep(Duration::from_millis(150)).await;
                let twice: Vec<(u16, u32)> = tb.log.lock().unwrap().seen.iter().filter(|(k, c)| k.0 == appid && **c > 1).map(|(k, _)| *k).collect();
                if !twice.is_empty() {
                    rep.violation(format!("C02|{}|rebind:datagram-delivered-twice", cfgname), format!("{cfgname}: the datagram that re-opened the binding reached its target more than once: {:?}", twice), w.clone());
                    break;
                }
                if let Some((h, p)) = &labelled {
                    if h != "127.0.0.1" || *p != tb.port {
                        rep.violation(format!("C02|{}|rebind:answer-labelled-with-another-target", cfgname), format!("{cfgname}: the answer of 127.0.0.1:{} is labelled {h}:{p}", tb.port), w);
                    }
                } else if first {
                    rep.violation(format!("C02|{}|rebind:not-served-after-the-binding-was-reopened", cfgname), format!("{cfgname}: three datagrams to a second target after an undecodable datagram had reached the binding: none answered"), w);
                }
            }
        }
    }
    // one application socket, first a target addressed by NAME, then another host that answers from the SAME port number:
    // each answer is labelled with the address of the target that sent it
    {
        let nonce3 = rng.next_u64();
        if let Ok(ta) = super::c02::start_udp_target(nonce3, 0, 1, false).await {
            if let Ok(tb) = UdpSocket::bind(("127.0.0.2", ta.port)).await {
                let tb = Arc::new(tb);
                let tb2 = tb.clone();
                let echo_b = tokio::spawn(async move {
                    let mut b = vec![0u8; 70000];
                    while let Ok((n, from)) = tb2.recv_from(&mut b).await {
                        if let Ok(id) = check_payload(nonce3, &b[..n]) {
                            let len = u32::from_be_bytes(b[16..20].try_into().unwrap()) as usize;
                            let _ = tb2.send_to(&make_payload(nonce3, id.app, 1, id.seq, len, 1), from).await;
                        }
                    }
                });
                let app = UdpSocket::bind("127.0.0.1:0").await.unwrap();
                let mut buf = vec![0u8; 70000];
                let mut labels: Vec<(String, String, u16)> = Vec::new();
                for (seq, (host, tidx)) in [("localhost", 0u16), ("127.0.0.2", 1), ("localhost", 0), ("127.0.0.2", 1)].into_iter().enumerate() {
                    let p = make_payload(nonce3, 950, tidx, seq as u32, 120, 0);
                    for _attempt in 0..2 {
                        let _ = app.send_to(&socks5_udp(host, ta.port, &p), ("127.0.0.1", d.client_port)).await;
                        if let Ok(Ok((n, _))) = tokio::time::timeout(Duration::from_millis(1000), app.recv_from(&mut buf)).await {
                            if let Some((h, port, payload)) = super::c02::socks5_udp_parse(&buf[..n]) {
                                if let Ok(id) = check_payload(nonce3, payload) {
                                    if id.seq == seq as u32 {
                                        labels.push((host.to_string(), h, port));
                                    }
                                }
                            }
                            break;
                        }
                    }
                }
                rep.evaluations += 1;
                rep.mon("answers_from_two_hosts_on_one_port_number", labels.len() as u64);
                rep.case(&("same-port", idx), !labels.is_empty());
                for (asked, h, port) in &labels {
                    let ok = *port == ta.port && if asked == "127.0.0.2" { h == "127.0.0.2" } else { h == "127.0.0.1" || h == "localhost" };
                    if !ok {
                        rep.violation(format!("C02|{}|same-port:answer-labelled-with-another-host", cfgname), format!("{cfgname}: the answer of {asked}:{} is labelled {h}:{port}", ta.port), json!({"seed": a.seed, "config": cfgname, "labels (asked, label host, label port)": labels, "deploy": d.describe()}));
                        break;
                    }
                }
                echo_b.abort();
            }
        }
    }
    for (who, node) in [("client", &mut client), ("server", &mut server)] {
        if !node.alive() {
            rep.violation(format!("C02|{}|{}-exited", cfgname, who), format!("{who} exited"), json!({"log": node.log_tail(8)}));
        }
    }
    echo.abort();
    drop(client);
    drop(server);
    let _ = std::fs::remove_dir_all(&dir);
    rep
}

// ------------------------------------------------------------------------------------------------------------
// (2) labels and sizes against a reference server

/// The instruction an application datagram carries for the reference server (behind the payload's id header):
/// label kind, label length, answer size.
const INSTR: usize = 1 + 2 + 4;

fn label_of(kind: u8, len: usize, port: u16) -> Addr {
    match kind {
        0 => Addr::V4([127, 0, 0, 1], port),
        1 => Addr::V6([0x20, 1, 0xd, 0xb8, 0, 0, 0, 0, 0, 0, 0, 0, 0, 0, 0, 7], port),
        _ => Addr::Domain((0..len).map(|i| b"abcdefghijklmnopqrstuvwxyz0123456789"[i % 36]).collect(), port),
    }
}

fn label_text(a: &Addr) -> (String, u16) {
    match a {
        Addr::V4(ip, p) => (format!("{}.{}.{}.{}", ip[0], ip[1], ip[2], ip[3]), *p),
        Addr::V6(ip, p) => (std::net::Ipv6Addr::from(*ip).to_string(), *p),
        Addr::Domain(n, p) => (String::from_utf8_lossy(n).to_string(), *p),
    }
}

fn socks5_label_len(a: &Addr) -> usize {
    3 + match a {
        Addr::V4(..) => 1 + 4 + 2,
        Addr::V6(..) => 1 + 16 + 2,
        Addr::Domain(n, _) => 1 + 1 + n.len() + 2,
    }
}

/// Parse a SOCKS5-UDP datagram from the client: (address, payload).
fn parse_reply(b: &[u8]) -> Option<(Addr, &[u8])> {
    if b.len() < 4 || b[2] != 0 {
        return None;
    }
    let (a, used) = refimpl::addr::socks_decode(&b[3..]).ok()?;
    Some((a, &b[3 + used..]))
}

fn tls_acceptor() -> Option<tokio_rustls::TlsAcceptor> {
    use tokio_rustls::rustls::pki_types::pem::PemObject;
    use tokio_rustls::rustls::pki_types::{CertificateDer, PrivateKeyDer};
    let _ = tokio_rustls::rustls::crypto::aws_lc_rs::default_provider().install_default();
    let c = verif_root().join("certs");
    let cert = CertificateDer::from_pem_file(c.join("leaf.crt")).ok()?;
    let key = PrivateKeyDer::from_pem_file(c.join("leaf.key")).ok()?;
    let cfg = tokio_rustls::rustls::ServerConfig::builder().with_no_client_auth().with_single_cert(vec![cert], key).ok()?;
    Some(tokio_rustls::TlsAcceptor::from(Arc::new(cfg)))
}

struct RefDgramServer {
    port: u16,
    answered: Arc<AtomicU64>,
    tasks: Vec<tokio::task::JoinHandle<()>>,
}

impl Drop for RefDgramServer {
    fn drop(&mut self) {
        for t in &self.tasks {
            t.abort();
        }
    }
}

/// What the reference server answers to the application datagram `p` (None: not one of ours).
fn answer_for(nonce: u64, p: &[u8]) -> Option<(Addr, Vec<u8>)> {
    let hdr = super::c02::HDR;
    // the id header only: the instruction overwrites part of the PRNG filler of a request
    if p.len() < hdr + INSTR || p[..8] != nonce.to_be_bytes() || p[20] != 0 {
        return None;
    }
    let id = super::c02::Id { app: u16::from_be_bytes([p[8], p[9]]), target: u16::from_be_bytes([p[10], p[11]]), seq: u32::from_be_bytes(p[12..16].try_into().unwrap()), kind: 0 };
    let kind = p[hdr];
    let llen = u16::from_be_bytes([p[hdr + 1], p[hdr + 2]]) as usize;
    let size = u32::from_be_bytes(p[hdr + 3..hdr + 7].try_into().unwrap()) as usize;
    Some((label_of(kind, llen, 4000 + (id.seq % 1000) as u16), make_payload(nonce, id.app, id.target, id.seq, size, 1)))
}

async fn start_ref_dgram_server(cfg: &Cfg, nonce: u64, seed: u64) -> std::io::Result<RefDgramServer> {
    let port = free_port();
    let answered = Arc::new(AtomicU64::new(0));
    let mut tasks = Vec::new();
    match cfg.proto {
        Proto::Ss(m) => {
            let u = UdpSocket::bind(("127.0.0.1", port)).await?;
            let (cfg, ans) = (cfg.clone(), answered.clone());
            tasks.push(tokio::spawn(async move {
                let mut rng = Rng::new(seed);
                let mut buf = vec![0u8; 70000];
                let psk = cfg.ref_server_psk();
                let users = cfg.ref_users();
                let mut spid = 0u64;
                loop {
                    let Ok((n, from)) = u.recv_from(&mut buf).await else { continue };
                    let (csid, payload, user) = if m.is_2022() {
                        match ss::s22_udp_server_decode(m, &psk, &users, &buf[..n]) {
                            Ok((p, user)) => (p.session_id, p.payload, user),
                            Err(_) => continue,
                        }
                    } else {
                        match ss::sip004_udp_decode(m, &psk, &buf[..n]) {
                            Ok((_, p)) => (0, p, None),
                            Err(_) => continue,
                        }
                    };
                    let Some((label, body)) = answer_for(nonce, &payload) else { continue };
                    let key = match user {
                        Some(i) => users[i].upsk.clone(),
                        None => psk.clone(),
                    };
                    spid += 1;
                    let w = if m.is_2022() {
                        let p = ss::S22UdpPacket { session_id: 0x5E55_0000 ^ csid, packet_id: spid, type_byte: 1, timestamp: now_s(), client_session_id: Some(csid), padding: vec![], addr: label, payload: body };
                        ss::s22_udp_server_encode(m, &key, &p, &rng.arr())
                    } else {
                        ss::sip004_udp_encode(m, &psk, &rng.bytes(m.key_len()), &label, &body)
                    };
                    if w.len() <= 65507 && u.send_to(&w, from).await.is_ok() {
                        ans.fetch_add(1, Ordering::SeqCst);
                    }
                }
            }));
        }
        _ => {
            let l = TcpListener::bind(("127.0.0.1", port)).await?;
            let (cfg, ans) = (cfg.clone(), answered.clone());
            // Trojan is offered over tls only
            let acceptor = if cfg.proto == Proto::Trojan { tls_acceptor() } else { None };
            tasks.push(tokio::spawn(async move {
                let mut serial = 0u64;
                loop {
                    let Ok((s, _)) = l.accept().await else { continue };
                    let _ = s.set_nodelay(true);
                    serial += 1;
                    let (cfg, ans) = (cfg.clone(), ans.clone());
                    let acceptor = acceptor.clone();
                    tokio::spawn(async move {
                        let mut s: Box<dyn super::pipe::AsyncStream> = match acceptor {
                            Some(acc) => match tokio::time::timeout(Duration::from_secs(4), acc.accept(s)).await {
                                Ok(Ok(t)) => Box::new(t),
                                _ => return,
                            },
                            None => Box::new(s),
                        };
                        let mut rng = Rng::new(seed ^ serial);
                        let mut srv = RefServer::new(&cfg, now_s(), ServerOpts::default());
                        let mut b = vec![0u8; 70000];
                        loop {
                            let Ok(Ok(n)) = tokio::time::timeout(Duration::from_secs(30), s.read(&mut b)).await else { return };
                            if n == 0 {
                                return;
                            }
                            let Ok(units) = srv.read_units(&b[..n]) else { return };
                            if !srv.dgram {
                                continue;
                            }
                            for u in units {
                                let Some((label, body)) = answer_for(nonce, &u) else { continue };
                                let w = match cfg.proto {
                                    Proto::Trojan => {
                                        let mut w = Vec::new();
                                        if body.len() > 0xFFFF {
                                            continue;
                                        }
                                        refimpl::trojan::udp_encode(&label, &body, &mut w);
                                        w
                                    }
                                    // VMess answers carry no address: the client labels them with the address of the binding
                                    _ => {
                                        if body.len() > 0xFFFF - 16 - 64 {
                                            continue; // more than one VMess chunk can hold
                                        }
                                        srv.write(&body, &mut rng)
                                    }
                                };
                                if s.write_all(&w).await.is_err() {
                                    return;
                                }
                                ans.fetch_add(1, Ordering::SeqCst);
                            }
                        }
                    });
                }
            }));
        }
    }
    Ok(RefDgramServer { port, answered, tasks })
}

fn request(nonce: u64, app: u16, seq: u32, kind: u8, label_len: usize, answer_size: usize) -> Vec<u8> {
    let hdr = super::c02::HDR;
    // a request of HDR + INSTR + a little: its own filler is overwritten by the instruction, so the id check is made on a
    // payload built the same way on both sides
    let mut p = make_payload(nonce, app, 0, seq, hdr + INSTR + 9, 0);
    p[hdr] = kind;
    p[hdr + 1..hdr + 3].copy_from_slice(&(label_len as u16).to_be_bytes());
    p[hdr + 3..hdr + 7].copy_from_slice(&(answer_size as u32).to_be_bytes());
    p
}

async fn labels(a: Args, idx: usize, proto: Proto) -> Report {
    let mut rep = Report::new();
    let mut rng = Rng::derive(a.seed, 0xC02D, idx as u64);
    let users = match proto {
        Proto::Ss(m) if m.supports_eih() => *rng.pick(&[0usize, 2]),
        Proto::Vmess(_) => 1,
        _ => 0,
    };
    let cfg = Cfg::random(&mut rng, proto, users);
    let cfgname = format!("{}|reference-server", proto.name());
    let dir = work_dir(&a, &format!("c02l-{idx}"));
    let nonce = rng.next_u64();
    let srv = match start_ref_dgram_server(&cfg, nonce, rng.next_u64()).await {
        Ok(s) => s,
        Err(e) => {
            rep.inconclusive(format!("reference datagram server: {e}"));
            return rep;
        }
    };
    let mut d = Deploy::new(cfg.clone(), if proto == Proto::Trojan { Transport::Tls } else { Transport::Tcp }, true, 2, &dir);
    d.server_port = srv.port;
    d.client_mode = "udp".into();
    let (dj, ddir, t, lvl, cport) = (d.client_json(), d.dir.clone(), format!("c02l-{idx}"), d.log_level.clone(), d.client_port);
    let node = tokio::task::spawn_blocking(move || {
        let mut n = start_node("client", &dj, &ddir, &t, 2, &lvl, None, None).map_err(|e| e.to_string())?;
        wait_ready(&mut n, None, Some(cport), Duration::from_secs(15))?;
        Ok::<Node, String>(n)
    })
    .await
    .unwrap();
    let mut node = match node {
        Ok(n) => n,
        Err(e) => {
            rep.inconclusive(format!("{cfgname}: client does not start: {}", e.lines().next().unwrap_or("")));
            return rep;
        }
    };
    let vmess = matches!(proto, Proto::Vmess(_));
    let kinds: Vec<(u8, usize)> = if vmess { vec![(0, 0)] } else { vec![(0, 0), (1, 0), (2, 1), (2, 15), (2, 16), (2, 17), (2, 63), (2, 200), (2, 255)] };
    let problems: Arc<Mutex<Vec<(String, String)>>> = Arc::new(Mutex::new(Vec::new()));
    let mut seq = 0u32;
    let mut largest_whole = 0usize;
    let app = UdpSocket::bind("127.0.0.1:0").await.unwrap();
    let appid = 7u16;
    // one exchange: returns Some(true) whole and rightly labelled, Some(false) nothing came, None = problem recorded
    async fn exchange(app: &UdpSocket, cport: u16, nonce: u64, appid: u16, seq: u32, kind: u8, llen: usize, size: usize, vmess: bool, problems: &Arc<Mutex<Vec<(String, String)>>>, wait: Duration) -> Option<bool> {
        let req = request(nonce, appid, seq, kind, llen, size);
        let _ = app.send_to(&socks5_udp("127.0.0.1", 5300, &req), ("127.0.0.1", cport)).await;
        let mut buf = vec![0u8; 70000];
        let t0 = std::time::Instant::now();
        loop {
            let left = wait.saturating_sub(t0.elapsed());
            if left.is_zero() {
                return Some(false);
            }
            let Ok(Ok((n, _))) = tokio::time::timeout(left, app.recv_from(&mut buf)).await else { return Some(false) };
            let Some((addr, payload)) = parse_reply(&buf[..n]) else {
                problems.lock().unwrap().push(("answer-without-a-valid-socks5-udp-header".into(), format!("{} bytes", n)));
                return None;
            };
            match check_payload(nonce, payload) {
                Ok(id) if id.seq != seq => continue, // a late answer of an earlier exchange
                Ok(id) => {
                    let want = if vmess { Addr::V4([127, 0, 0, 1], 5300) } else { label_of(kind, llen, 4000 + (seq % 1000) as u16) };
                    if payload.len() != size.max(super::c02::HDR) || id.kind != 1 || id.app != appid {
                        problems.lock().unwrap().push(("answer-altered".into(), format!("asked for {size} bytes, got {}", payload.len())));
                        return None;
                    }
                    if label_text(&addr) != label_text(&want) {
                        problems.lock().unwrap().push((format!("answer-labelled-with-another-address:kind={kind}"), format!("server said {:?}, the application was told {:?}", label_text(&want), label_text(&addr))));
                        return None;
                    }
                    return Some(true);
                }
                Err(e) => {
                    problems.lock().unwrap().push((format!("answer-{}", crate::panicmon::normalise(&e)), format!("asked for {size} bytes with label kind {kind}/{llen}")));
                    return None;
                }
            }
        }
    }
    // sanity: the path works at all
    let ok = exchange(&app, cport, nonce, appid, seq, 0, 0, 300, vmess, &problems, Duration::from_secs(3)).await;
    seq += 1;
    if ok != Some(true) {
        rep.inconclusive(format!("{cfgname}: a 300-byte exchange does not work ({:?} {:?}); judged by the main C02 step", ok, problems.lock().unwrap().first()));
        return rep;
    }
    for (kind, llen) in kinds.iter().cloned() {
        let label = label_of(kind, llen, 4000);
        let h = socks5_label_len(&label);
        // sizes: ordinary ones, and the places where an answer stops fitting: exactly with THIS label, with the shortest
        // and the longest header a label can have, and the maximum of a UDP datagram itself
        let mut sizes: Vec<usize> = vec![64, 1472, 20_000];
        for edge in [65507 - h, 65507 - 10, 65507 - 22, 65507 - 262] {
            for dlt in [-2i64, -1, 0, 1, 2] {
                let s = edge as i64 + dlt;
                if s > 100 && s <= 65507 {
                    sizes.push(s as usize);
                }
            }
        }
        if !a.thorough {
            let keep: Vec<usize> = sizes.iter().cloned().enumerate().filter(|(i, _)| i % 2 == (idx + llen) % 2 || *i < 3).map(|x| x.1).collect();
            sizes = keep;
        }
        sizes.sort();
        sizes.dedup();
        for size in sizes {
            rep.evaluations += 1;
            rep.mon("answers_requested_from_the_reference_server", 1);
            let r = exchange(&app, cport, nonce, appid, seq, kind, llen, size, vmess, &problems, Duration::from_millis(if size > 60_000 { 450 } else { 1500 })).await;
            seq += 1;
            match r {
                Some(true) => {
                    rep.mon("answers_whole_and_rightly_labelled", 1);
                    largest_whole = largest_whole.max(size);
                }
                Some(false) => rep.mon("answers_not_delivered", 1),
                None => {}
            }
            if size > 60_000 || r != Some(true) {
                // whatever became of that answer: the next small one must arrive, at this application and at a fresh one
                let mut alive = false;
                for _ in 0..3 {
                    if exchange(&app, cport, nonce, appid, seq, 0, 0, 100, vmess, &problems, Duration::from_millis(1500)).await == Some(true) {
                        alive = true;
                        seq += 1;
                        break;
                    }
                    seq += 1;
                }
                let mut fresh_alive = false;
                if !alive {
                    if let Ok(s2) = UdpSocket::bind("127.0.0.1:0").await {
                        for _ in 0..3 {
                            if exchange(&s2, cport, nonce, appid, seq, 0, 0, 100, vmess, &problems, Duration::from_millis(1500)).await == Some(true) {
                                fresh_alive = true;
                            }
                            seq += 1;
                            if fresh_alive {
                                break;
                            }
                        }
                    }
                    problems.lock().unwrap().push((format!("answers-stop-after-one-that-could-not-be-delivered:{}", if fresh_alive { "this-application" } else { "every-application" }), format!("after an answer of {size} bytes labelled kind {kind}/{llen} (SOCKS5-UDP header of {h} bytes)")));
                    if !fresh_alive {
                        break;
                    }
                }
            }
        }
        rep.case(&("labels", idx, kind, llen), true);
    }
    let ps = problems.lock().unwrap().clone();
    let mut seen = std::collections::BTreeMap::new();
    for (k, dsc) in ps {
        let e = seen.entry(k).or_insert((0u32, dsc));
        e.0 += 1;
    }
    for (k, (n, dsc)) in seen {
        rep.violation(format!("C02|{}|{}", cfgname, k), format!("{cfgname}: {k}: {dsc} (x{n})"), json!({"seed": a.seed, "client": d.client_json(), "count": n, "client_log": node.log_tail(6)}));
    }
    rep.extra.insert(format!("largest_answer_relayed_from_a_reference_server:{}", proto.name()), json!(largest_whole));
    rep.mon("answers_the_reference_server_sent", srv.answered.load(Ordering::SeqCst));
    if !node.alive() {
        rep.violation(format!("C02|{}|client-exited", cfgname), "client exited".to_string(), json!({"log": node.log_tail(8)}));
    }
    for p in node.panics() {
        rep.violation(format!("C02|{}|client-panic|{}|{}", cfgname, p["frame"].as_str().unwrap_or("?"), crate::panicmon::normalise(p["message"].as_str().unwrap_or(""))), format!("client task panicked: {}", p["message"]), json!({"panic": p}));
    }
    drop(node);
    let _ = std::fs::remove_dir_all(&dir);
    rep
}

/// (3) A binding is being opened (its transport handshake is held up for 700 ms by the path) while replies for ANOTHER
/// application keep arriving: the datagram that opens the binding must still go out once the handshake is through.
/// (4) SOCKS5-UDP fragments (FRAG != 0) of two applications, interleaved: dropped or reassembled per application - never
/// a datagram made of two applications' bytes.
async fn opening_and_fragments(a: Args, idx: usize, proto: Proto, transport: Transport) -> Report {
    let mut rep = Report::new();
    let mut rng = Rng::derive(a.seed, 0xC02F, idx as u64);
    let cfg = Cfg::random(&mut rng, proto, if matches!(proto, Proto::Vmess(_)) { 1 } else { 0 });
    let dir = work_dir(&a, &format!("c02x-o{idx}"));
    let d = Deploy::new(cfg, transport, true, 2, &dir);
    let cfgname = format!("{}|{}", proto.name(), if matches!(proto, Proto::Ss(_)) { "udp" } else { transport.name() });
    let is_ss = matches!(proto, Proto::Ss(_));
    // datagram-in-stream protocols: the client reaches the server through a path that holds every new connection for
    // 700 ms after its first 3 bytes
    let slow = if is_ss { None } else { super::pipe::slow_path(d.server_port, 3, Duration::from_millis(700)).await };
    let link = slow.as_ref().map(|s| s.0);
    let (dd, tag) = (d.clone(), format!("c02x-o{idx}"));
    let pair = tokio::task::spawn_blocking(move || match link {
        Some(p) => start_pair_via(&dd, &tag, p),
        None => start_pair(&dd, &tag),
    })
    .await
    .unwrap();
    let mut pair = match pair {
        Ok(p) => p,
        Err(e) => {
            rep.inconclusive(format!("{cfgname}: nodes do not start: {}", e.lines().next().unwrap_or("")));
            return rep;
        }
    };
    let nonce = rng.next_u64();
    // echo target; a datagram with seq 777 also starts 60 further replies, 50 ms apart
    let t = Arc::new(UdpSocket::bind("127.0.0.1:0").await.unwrap());
    let tport = t.local_addr().unwrap().port();
    let problems: Arc<Mutex<Vec<String>>> = Arc::new(Mutex::new(Vec::new()));
    let (t2, p2) = (t.clone(), problems.clone());
    let target = tokio::spawn(async move {
        let mut b = vec![0u8; 70000];
        while let Ok((n, from)) = t2.recv_from(&mut b).await {
            match check_payload(nonce, &b[..n]) {
                Ok(id) => {
                    let len = u32::from_be_bytes(b[16..20].try_into().unwrap()) as usize;
                    let _ = t2.send_to(&make_payload(nonce, id.app, 0, id.seq, len, 1), from).await;
                    if id.seq == 777 {
                        let t3 = t2.clone();
                        tokio::spawn(async move {
                            for k in 0..60u32 {
                                tokio::time::sleep(Duration::from_millis(50)).await;
                                let _ = t3.send_to(&make_payload(nonce, id.app, 0, 10_000 + k, 80, 1), from).await;
                            }
                        });
                    }
                }
                Err(e) => p2.lock().unwrap().push(e),
            }
        }
    });
    let client_addr = ("127.0.0.1", d.client_port);
    let mut buf = vec![0u8; 70000];
    // ---- (3)
    if !is_ss {
        for round in 0..if a.thorough { 4u16 } else { 2 } {
            let b = UdpSocket::bind("127.0.0.1:0").await.unwrap();
            let _ = b.send_to(&socks5_udp("127.0.0.1", tport, &make_payload(nonce, 100 + round, 0, 777, 60, 0)), client_addr).await;
            // B's binding opens (700 ms), then its replies stream in for 3 s
            let streaming = tokio::time::timeout(Duration::from_millis(2500), b.recv_from(&mut buf)).await.is_ok();
            tokio::time::sleep(Duration::from_millis(300)).await;
            let asock = UdpSocket::bind("127.0.0.1:0").await.unwrap();
            let _ = asock.send_to(&socks5_udp("127.0.0.1", tport, &make_payload(nonce, 200 + round, 0, 1, 60, 0)), client_addr).await;
            let answered = tokio::time::timeout(Duration::from_millis(4000), asock.recv_from(&mut buf)).await.is_ok();
            rep.evaluations += 1;
            rep.mon("bindings_opened_while_replies_for_another_application_arrive", if streaming { 1 } else { 0 });
            rep.case(&("opening", idx, round), streaming);
            if streaming && !answered {
                // once more with a fresh socket and nothing else going on: is the relay serving at all?
                tokio::time::sleep(Duration::from_millis(3000)).await;
                let c = UdpSocket::bind("127.0.0.1:0").await.unwrap();
                let _ = c.send_to(&socks5_udp("127.0.0.1", tport, &make_payload(nonce, 300 + round, 0, 1, 60, 0)), client_addr).await;
                let quiet_ok = tokio::time::timeout(Duration::from_millis(4000), c.recv_from(&mut buf)).await.is_ok();
                if quiet_ok {
                    rep.violation(format!("C02|{}|opening:the-datagram-that-opens-a-binding-is-lost-while-replies-for-another-application-arrive", cfgname), format!("{cfgname}: an application's first datagram (its binding's handshake takes 700 ms) was never answered while another application's replies arrived every 50 ms; the same datagram from a fresh socket in a quiet moment is answered"), json!({"seed": a.seed, "round": round, "deploy": d.describe()}));
                    break;
                } else {
                    rep.inconclusive(format!("{cfgname}: the relay does not answer in a quiet moment either"));
                }
            }
        }
    }
    // ---- (4) fragments: each application's datagram cut in two (FRAG 1, then FRAG 0x82 = last, position 2), interleaved B1 A1 B2 A2
    {
        let before = problems.lock().unwrap().len();
        let (sa, sb) = (UdpSocket::bind("127.0.0.1:0").await.unwrap(), UdpSocket::bind("127.0.0.1:0").await.unwrap());
        for round in 0..3u32 {
            let (pa, pb) = (make_payload(nonce, 400, 0, round, 200, 0), make_payload(nonce, 401, 0, round, 200, 0));
            let frag = |p: &[u8], f: u8| {
                let mut d = socks5_udp("127.0.0.1", tport, p);
                d[2] = f;
                d
            };
            let _ = sb.send_to(&frag(&pb[..100], 1), client_addr).await;
            let _ = sa.send_to(&frag(&pa[..100], 1), client_addr).await;
            let _ = sb.send_to(&frag(&pb[100..], 0x82), client_addr).await;
            let _ = sa.send_to(&frag(&pa[100..], 0x82), client_addr).await;
            tokio::time::sleep(Duration::from_millis(120)).await;
            rep.evaluations += 1;
        }
        tokio::time::sleep(Duration::from_millis(300)).await;
        rep.mon("fragmented_datagrams_of_two_applications_interleaved", 3);
        rep.case(&("fragments", idx), true);
        let new: Vec<String> = problems.lock().unwrap()[before..].to_vec();
        if let Some(p) = new.first() {
            rep.violation(format!("C02|{}|fragments:{}", cfgname, crate::panicmon::normalise(p).split(':').next().unwrap_or("")), format!("{cfgname}: fragments of two applications' datagrams, interleaved: the target received a datagram that none of them sent ({p})"), json!({"seed": a.seed, "problems": new, "deploy": d.describe()}));
        }
        // and the relay still serves
        let c = UdpSocket::bind("127.0.0.1:0").await.unwrap();
        let mut ok = false;
        for seq in 0..3u32 {
            let _ = c.send_to(&socks5_udp("127.0.0.1", tport, &make_payload(nonce, 402, 0, seq, 60, 0)), client_addr).await;
            if tokio::time::timeout(Duration::from_millis(2500), c.recv_from(&mut buf)).await.is_ok() {
                ok = true;
                break;
            }
        }
        if !ok {
            rep.violation(format!("C02|{}|fragments:relay-does-not-serve-afterwards", cfgname), format!("{cfgname}: after fragmented datagrams a fresh application is not served"), json!({"seed": a.seed, "deploy": d.describe()}));
        }
    }
    for (who, node) in [("client", &mut pair.client), ("server", &mut pair.server)] {
        if !node.alive() {
            rep.violation(format!("C02|{}|{}-exited", cfgname, who), format!("{who} exited"), json!({"log": node.log_tail(8)}));
        }
    }
    target.abort();
    if let Some(s) = slow {
        s.1.abort();
    }
    drop(pair);
    let _ = std::fs::remove_dir_all(&dir);
    rep
}

pub async fn run(a: &Args) -> Report {
    use refimpl::ss::Method as M;
    let sem = Arc::new(tokio::sync::Semaphore::new(6));
    let mut hs = Vec::new();
    // (SIP004 datagrams carry neither session nor packet id: a re-sent copy is a datagram like any other there)
    let mut copiers: Vec<(M, usize)> = vec![(M::B3Aes128Gcm, 0), (M::B3ChaCha20Poly1305, 0), (M::B3Aes128Gcm, 2)];
    if a.thorough {
        copiers.extend([(M::B3Aes256Gcm, 2), (M::B3ChaCha8Poly1305, 0), (M::B3Aes256Gcm, 0)]);
    } else if a.seed % 2 == 0 {
        copiers[0] = (M::B3Aes256Gcm, 2);
    }
    for (k, (m, u)) in copiers.into_iter().enumerate() {
        let (a, sem) = (a.clone(), sem.clone());
        hs.push(tokio::spawn(async move {
            let _g = sem.acquire_owned().await.unwrap();
            copier(a, k, m, u).await
        }));
    }
    let mut protos = vec![Proto::Trojan, Proto::Vmess(3), Proto::Ss(M::B3Aes128Gcm), Proto::Ss(M::Aes128Gcm)];
    if a.thorough {
        protos.extend([Proto::Vmess(4), Proto::Ss(M::B3ChaCha20Poly1305), Proto::Ss(M::B3Aes256Gcm), Proto::Ss(M::ChaCha20IetfPoly1305)]);
    }
    for (k, p) in protos.into_iter().enumerate() {
        let (a, sem) = (a.clone(), sem.clone());
        hs.push(tokio::spawn(async move {
            let _g = sem.acquire_owned().await.unwrap();
            labels(a, 50 + k, p).await
        }));
    }
    let mut of = vec![(Proto::Trojan, Transport::Tls), (Proto::Vmess(3), Transport::Ws), (Proto::Ss(M::B3Aes128Gcm), Transport::Tcp)];
    if a.thorough {
        of.extend([(Proto::Trojan, Transport::Wss), (Proto::Vmess(4), Transport::Tcp), (Proto::Vmess(3), Transport::Tls), (Proto::Ss(M::Aes256Gcm), Transport::Tcp)]);
    }
    for (k, (p, t)) in of.into_iter().enumerate() {
        let (a, sem) = (a.clone(), sem.clone());
        hs.push(tokio::spawn(async move {
            let _g = sem.acquire_owned().await.unwrap();
            opening_and_fragments(a, 80 + k, p, t).await
        }));
    }
    let mut rep = Report::new();
    for h in hs {
        if let Ok(r) = h.await {
            rep.merge(r);
        }
    }
    rep.sample(json!({"copier": "real client -> datagram man-in-the-middle -> real Shadowsocks server; answers delayed 150 ms; a captured datagram re-sent from another address while answers are pending; oracle: nothing arrives at the copier, the owner is answered", "labels": "real client -> REFERENCE datagram server (Trojan / VMess in-stream, Shadowsocks UDP) answering with IPv4 / IPv6 / domain labels of 1..255 bytes and sizes around every 'fits into one datagram' edge; oracle: whole and rightly labelled or not at all; the next small answer still arrives"}));
    rep
}
