//! Long silences and idle expiry in REAL time (thorough tiers only). Every other node-level step finishes within a
//! minute or two, so state that only changes after minutes - the server's datagram associations (300 s), the client's
//! datagram bindings (600 s), cipher caches (30 s), per-session windows (60 s), idle timers of transports - is never
//! seen to expire there. One node pair per configuration lives through this timeline (seconds):
//!
//!   0      applications W (chatter: one exchange every 4 s until the end), A, B, C, D exchange datagrams with an echo
//!          target; B "subscribes": the target keeps sending it one datagram every 10 s although B sends nothing more;
//!          a TCP application T (SOCKS5) exchanges 2 KiB with an echo target and then keeps its connection silent
//!   100, 200, 300   C exchanges one datagram (a session that is used rarely, but never idle for 300 s)
//!   300..  the server's associations of A and D have been idle for 300 s: their sockets must go (C15)
//!   322    A, B, C exchange again, T sends and must be echoed (C01); every tick so far must have reached B exactly once
//!   600..  (sub c15 only) the client's binding of D has been idle for 600 s: its socket / connection must go (C15)
//!
//! Oracles: unique-id datagram histories (c02's payload format), byte comparison for T, /proc/<pid>/fd counts by kind
//! sampled every second. `--sub c01|c02|c15` selects whose signatures are reported (the workload is the same; c15 runs
//! to 650 s, the others to 342 s).

use std::collections::HashMap;
use std::net::SocketAddr;
use std::sync::{Arc, Mutex};
use std::time::{Duration, Instant};

use serde_json::json;
use tokio::io::{AsyncReadExt, AsyncWriteExt};
use tokio::net::{TcpListener, TcpStream, UdpSocket};

use super::c01::work_dir;
use super::c02::{check_payload, make_payload, socks5_udp, socks5_udp_parse};
use super::endpoints::{local_handshake, LocalKind};
use super::nodes::*;
use super::procfs::fd_count;
use crate::checks::Args;
use crate::prng::Rng;
use crate::real::{Cfg, Proto};
use crate::report::Report;

const SUBSCRIBE: u32 = 1_000_000;
const TICK: u32 = 2_000_000;
const TICK_EVERY: Duration = Duration::from_secs(10);

struct TargetLog {
    /// app -> source ports its datagrams arrived from, in order of first appearance
    from_ports: HashMap<u16, Vec<u16>>,
    problems: Vec<String>,
    ticks_sent: HashMap<u16, Vec<(u32, Instant)>>,
    subscribed: std::collections::HashSet<u16>,
}

/// Echo target that also serves subscriptions: a datagram with seq = SUBSCRIBE + n makes it send n ticks, one every 10 s.
async fn start_target(nonce: u64) -> std::io::Result<(u16, Arc<Mutex<TargetLog>>, tokio::task::JoinHandle<()>)> {
    let s = Arc::new(UdpSocket::bind("127.0.0.1:0").await?);
    let port = s.local_addr()?.port();
    let log = Arc::new(Mutex::new(TargetLog { from_ports: HashMap::new(), problems: vec![], ticks_sent: HashMap::new(), subscribed: Default::default() }));
    let l = log.clone();
    let task = tokio::spawn(async move {
        let mut buf = vec![0u8; 70000];
        loop {
            let Ok((n, from)) = s.recv_from(&mut buf).await else { continue };
            match check_payload(nonce, &buf[..n]) {
                Ok(id) => {
                    {
                        let mut g = l.lock().unwrap();
                        let v = g.from_ports.entry(id.app).or_default();
                        if v.last() != Some(&from.port()) {
                            v.push(from.port());
                        }
                    }
                    let len = u32::from_be_bytes(buf[16..20].try_into().unwrap()) as usize;
                    let _ = s.send_to(&make_payload(nonce, id.app, 0, id.seq, len, 1), from).await;
                    // one subscription per application (a repeated attempt must not start a second series)
                    if id.seq >= SUBSCRIBE && id.seq < TICK && l.lock().unwrap().subscribed.insert(id.app) {
                        let n_ticks = id.seq - SUBSCRIBE;
                        let (s, l) = (s.clone(), l.clone());
                        tokio::spawn(async move {
                            for k in 0..n_ticks {
                                tokio::time::sleep(TICK_EVERY).await;
                                let _ = s.send_to(&make_payload(nonce, id.app, 0, TICK + k, 80, 1), from).await;
                                l.lock().unwrap().ticks_sent.entry(id.app).or_default().push((k, Instant::now()));
                            }
                        });
                    }
                }
                Err(e) => l.lock().unwrap().problems.push(e),
            }
        }
    });
    Ok((port, log, task))
}

/// One local application socket with a reader that logs everything that arrives.
struct App {
    app: u16,
    sock: Arc<UdpSocket>,
    seq: u32,
    /// (seq, kind) -> arrival times
    got: Arc<Mutex<HashMap<(u32, u8), Vec<Instant>>>>,
    problems: Arc<Mutex<Vec<String>>>,
    reader: tokio::task::JoinHandle<()>,
}

impl Drop for App {
    fn drop(&mut self) {
        self.reader.abort();
    }
}

impl App {
    async fn new(nonce: u64, app: u16, target_port: u16) -> App {
        let sock = Arc::new(UdpSocket::bind("127.0.0.1:0").await.expect("bind"));
        let got: Arc<Mutex<HashMap<(u32, u8), Vec<Instant>>>> = Arc::new(Mutex::new(HashMap::new()));
        let problems = Arc::new(Mutex::new(Vec::new()));
        let (s, g, p) = (sock.clone(), got.clone(), problems.clone());
        let reader = tokio::spawn(async move {
            let mut buf = vec![0u8; 70000];
            loop {
                let Ok((n, _)) = s.recv_from(&mut buf).await else { continue };
                let Some((host, port, payload)) = socks5_udp_parse(&buf[..n]) else {
                    p.lock().unwrap().push("reply without a valid SOCKS5-UDP header".into());
                    continue;
                };
                match check_payload(nonce, payload) {
                    Ok(id) if id.app != app => p.lock().unwrap().push(format!("datagram of application {} delivered to application {}", id.app, app)),
                    Ok(id) if id.kind == 0 => p.lock().unwrap().push("a request datagram came back as a reply".into()),
                    Ok(id) => {
                        if host != "127.0.0.1" || port != target_port {
                            p.lock().unwrap().push(format!("reply labelled {host}:{port}, the target is 127.0.0.1:{target_port}"));
                        }
                        g.lock().unwrap().entry((id.seq, id.kind)).or_default().push(Instant::now());
                    }
                    Err(e) => p.lock().unwrap().push(format!("reply {e}")),
                }
            }
        });
        App { app, sock, seq: 0, got, problems, reader }
    }

    /// One exchange: up to 3 attempts (each a datagram of its own), 2.5 s each. Ok(attempts used) or Err.
    async fn exchange(&mut self, nonce: u64, client_port: u16, target_port: u16, seq_base: u32) -> Result<u32, ()> {
        let client: SocketAddr = format!("127.0.0.1:{client_port}").parse().unwrap();
        for attempt in 1..=3u32 {
            self.seq += 1;
            let seq = seq_base + self.seq;
            let p = make_payload(nonce, self.app, 0, seq, 100 + (self.seq as usize % 7) * 100, 0);
            let _ = self.sock.send_to(&socks5_udp("127.0.0.1", target_port, &p), client).await;
            let t0 = Instant::now();
            while t0.elapsed() < Duration::from_millis(2500) {
                if self.got.lock().unwrap().contains_key(&(seq, 1)) {
                    return Ok(attempt);
                }
                tokio::time::sleep(Duration::from_millis(20)).await;
            }
        }
        Err(())
    }
}

async fn start_tcp_echo() -> std::io::Result<(u16, tokio::task::JoinHandle<()>)> {
    let l = TcpListener::bind("127.0.0.1:0").await?;
    let port = l.local_addr()?.port();
    let t = tokio::spawn(async move {
        loop {
            let Ok((mut s, _)) = l.accept().await else { continue };
            tokio::spawn(async move {
                let mut buf = vec![0u8; 16384];
                loop {
                    match s.read(&mut buf).await {
                        Ok(0) | Err(_) => break,
                        Ok(n) => {
                            if s.write_all(&buf[..n]).await.is_err() {
                                break;
                            }
                        }
                    }
                }
            });
        }
    });
    Ok((port, t))
}

async fn tcp_round(s: &mut TcpStream, data: &[u8], wait: Duration) -> Result<(), String> {
    s.write_all(data).await.map_err(|e| format!("write: {e}"))?;
    let mut got = vec![0u8; data.len()];
    match tokio::time::timeout(wait, s.read_exact(&mut got)).await {
        Err(_) => Err("no-echo-within-bound".into()),
        Ok(Err(e)) => Err(format!("connection-ended-before-the-echo: {e}")),
        Ok(Ok(_)) if got == data => Ok(()),
        Ok(Ok(_)) => Err("echo-differs-from-what-was-sent".into()),
    }
}

#[derive(Clone, Copy, Debug)]
struct Sample {
    t: u64,
    s_udp: i64,
    s_tcp: i64,
    c_udp: i64,
    c_tcp: i64,
}

async fn one_config(a: Args, idx: usize, proto: Proto, transport: Transport, users: usize, long: bool) -> Report {
    let mut rep = Report::new();
    let mut rng = Rng::derive(a.seed, 0x1D1E, idx as u64);
    let cfg = Cfg::random(&mut rng, proto, users);
    let dir = work_dir(&a, &format!("idle-{idx}"));
    let d = Deploy::new(cfg, transport, true, 2, &dir);
    let is_ss = matches!(proto, Proto::Ss(_));
    let cfgname = format!("{}|{}|users={}", proto.name(), if is_ss { "udp" } else { transport.name() }, users);
    let (dd, tag) = (d.clone(), format!("idle-{idx}"));
    let mut pair = match tokio::task::spawn_blocking(move || start_pair(&dd, &tag)).await.unwrap() {
        Ok(p) => p,
        Err(e) => {
            rep.inconclusive(format!("{cfgname}: nodes do not start: {}", e.lines().next().unwrap_or("")));
            return rep;
        }
    };
    let nonce = rng.next_u64();
    let Ok((tport, tlog, ttask)) = start_target(nonce).await else {
        rep.inconclusive("udp target");
        return rep;
    };
    let Ok((echo_port, echo_task)) = start_tcp_echo().await else {
        rep.inconclusive("tcp echo target");
        return rep;
    };
    let cport = d.client_port;
    let t0 = Instant::now();
    let at = |secs: u64| t0 + Duration::from_secs(secs);
    let witness = |what: &str, extra: serde_json::Value| json!({"seed": a.seed, "deploy": d.describe(), "what": what, "observed": extra});

    // ---- second 0
    // the chatter W: keeps both nodes' tables being looked at (expiry is lazy) and is the bystander whose service must go on
    let end_s: u64 = if long { 650 } else { 342 };
    let w_fail = Arc::new(Mutex::new(Vec::<u64>::new()));
    let w_ok = Arc::new(std::sync::atomic::AtomicU64::new(0));
    let chatter = {
        let (w_fail, w_ok) = (w_fail.clone(), w_ok.clone());
        tokio::spawn(async move {
            let mut w = App::new(nonce, 1, tport).await;
            loop {
                match w.exchange(nonce, cport, tport, 0).await {
                    Ok(_) => {
                        w_ok.fetch_add(1, std::sync::atomic::Ordering::Relaxed);
                    }
                    Err(()) => w_fail.lock().unwrap().push(t0.elapsed().as_secs()),
                }
                tokio::time::sleep(Duration::from_secs(4)).await;
            }
        })
    };
    let mut app_a = App::new(nonce, 2, tport).await;
    let mut app_b = App::new(nonce, 3, tport).await;
    let mut app_c = App::new(nonce, 4, tport).await;
    let mut app_d = App::new(nonce, 5, tport).await;
    let mut first_ok = true;
    for app in [&mut app_a, &mut app_c, &mut app_d] {
        for _ in 0..2 {
            first_ok &= app.exchange(nonce, cport, tport, 0).await.is_ok();
        }
    }
    // B subscribes to 33 ticks (330 s) and sends nothing more until second 322
    let n_ticks: u32 = 34;
    // (exchange adds its attempt counter, 1.., to the base: the target sees SUBSCRIBE + n_ticks or a little more)
    first_ok &= app_b.exchange(nonce, cport, tport, SUBSCRIBE + n_ticks - 1).await.is_ok();
    if !first_ok {
        // that datagrams are relayed at all is C02's ordinary business
        rep.inconclusive(format!("{cfgname}: the datagram relay does not work at second 0 (judged by C02's other steps)"));
        chatter.abort();
        return rep;
    }
    let last_use_a = Instant::now();
    // T: a TCP flow that goes silent
    let tcp_data: Vec<u8> = rng.bytes(2048);
    let mut tcp = match TcpStream::connect(("127.0.0.1", cport)).await {
        Ok(mut s) => match local_handshake(&mut s, LocalKind::Socks5V4, "127.0.0.1", echo_port).await {
            Ok(()) => match tcp_round(&mut s, &tcp_data, Duration::from_secs(10)).await {
                Ok(()) => Some(s),
                Err(_) => None,
            },
            Err(_) => None,
        },
        Err(_) => None,
    };
    if tcp.is_none() {
        rep.inconclusive(format!("{cfgname}: the TCP relay does not work at second 0 (judged by C01's other steps)"));
    }
    tokio::time::sleep(Duration::from_secs(3)).await;
    let usage = |pair: &Pair| {
        let (s, c) = (fd_count(pair.server.pid), fd_count(pair.client.pid));
        Sample { t: t0.elapsed().as_secs(), s_udp: s.udp as i64, s_tcp: s.tcp as i64, c_udp: c.udp as i64, c_tcp: c.tcp as i64 }
    };
    let with_all = usage(&pair);
    let mut series: Vec<Sample> = vec![with_all];
    rep.mon("idle_configurations_started", 1);

    // ---- the long wait, sampling once a second; C speaks at 100, 200, 300
    let mut c_fail: Vec<u64> = Vec::new();
    let mut next_c = 100u64;
    // first second at which the server had released (at least) the two idle associations
    let mut server_released_at: Option<u64> = None;
    let mut resumed = false;
    let mut resumed_problems: Vec<String> = Vec::new();
    let mut client_released_at: Option<u64> = None;
    let mut a_resumed_sample: Option<Sample> = None;
    // seconds at which this very loop was held up for more than 6 s (the machine, not the nodes)
    let mut stalls: Vec<(u64, u64)> = Vec::new();
    loop {
        let now = t0.elapsed().as_secs();
        if now >= end_s {
            break;
        }
        let before_sleep = Instant::now();
        tokio::time::sleep_until(tokio::time::Instant::from_std(at(now + 1))).await;
        if before_sleep.elapsed() > Duration::from_secs(6) {
            stalls.push((now, before_sleep.elapsed().as_secs()));
        }
        let u = usage(&pair);
        series.push(u);
        let now = u.t;
        if now >= next_c && next_c <= 300 {
            next_c += 100;
            if app_c.exchange(nonce, cport, tport, 0).await.is_err() {
                c_fail.push(now);
            }
            rep.mon("exchanges_of_the_rarely_used_session", 1);
        }
        // what the idle sessions held at the server: Shadowsocks: one UDP socket per association; datagram-in-stream
        // protocols have no server-side idle timer of their own (the client's binding decides), nothing to expect at 300 s
        if is_ss && !resumed && server_released_at.is_none() && last_use_a.elapsed() >= Duration::from_secs(300) && u.s_udp <= with_all.s_udp - 2 {
            server_released_at = Some(now);
        }
        if !resumed && now >= 322 {
            resumed = true;
            // A after 320 s of silence (its association at the server is gone or about to go): must be served again
            if app_a.exchange(nonce, cport, tport, 0).await.is_err() {
                resumed_problems.push("silent-for-320s-then-not-served".into());
            }
            if app_b.exchange(nonce, cport, tport, 0).await.is_err() {
                resumed_problems.push("subscriber-not-served-when-it-speaks-again".into());
            }
            if app_c.exchange(nonce, cport, tport, 0).await.is_err() {
                c_fail.push(now);
            }
            rep.mon("sessions_resumed_after_320s", 3);
            if let Some(s) = tcp.as_mut() {
                rep.mon("tcp_flows_resumed_after_320s_of_silence", 1);
                if let Err(e) = tcp_round(s, &tcp_data, Duration::from_secs(10)).await {
                    rep.violation(format!("C01|{}|silent-for-320s|{}", format!("{}|{}", proto.name(), transport.name()), e.split(':').next().unwrap_or("")), format!("{cfgname}: a TCP flow that stayed silent for 320 s: {e}"), witness("tcp flow: 2 KiB echoed at second 0, silence, 2 KiB at second 322", json!({"error": e})));
                }
            }
            a_resumed_sample = Some(usage(&pair));
        }
        // D's binding at the client: idle since second ~1; the client's table forgets it after 600 s
        if long && client_released_at.is_none() && now >= 600 {
            let base = a_resumed_sample.unwrap_or(with_all);
            let released = if is_ss { u.c_udp <= base.c_udp - 1 } else if transport == Transport::Quic { u.c_udp <= base.c_udp - 1 } else { u.c_tcp <= base.c_tcp - 1 };
            if released {
                client_released_at = Some(now);
            }
        }
    }
    chatter.abort();

    // ---- judgement
    let series_json: Vec<serde_json::Value> = series.iter().filter(|s| s.t % 60 == 0 || (299..=303).contains(&s.t) || (322..=324).contains(&s.t) || (599..=606).contains(&s.t)).map(|s| json!([s.t, s.s_udp, s.s_tcp, s.c_udp, s.c_tcp])).collect();
    // C02: the bystander
    let wf = w_fail.lock().unwrap().clone();
    rep.mon("bystander_exchanges_answered", w_ok.load(std::sync::atomic::Ordering::Relaxed));
    if !wf.is_empty() {
        rep.violation(format!("C02|{cfgname}|idle-expiry|bystander-not-served"), format!("{cfgname}: an application that sends one datagram every 4 s got no answer to 3 datagrams in a row at second(s) {:?}", wf), witness("chatter application", json!({"failed_at_s": wf})));
    }
    if !c_fail.is_empty() {
        rep.violation(format!("C02|{cfgname}|idle-expiry|rarely-used-session-not-served"), format!("{cfgname}: a session used every 100 s got no answer at second(s) {:?}", c_fail), witness("application C", json!({"failed_at_s": c_fail})));
    }
    for p in &resumed_problems {
        rep.violation(format!("C02|{cfgname}|idle-expiry|{p}"), format!("{cfgname}: {p}"), witness("applications A / B at second 322", json!({"series [t, server udp, server tcp, client udp, client tcp]": series_json})));
    }
    // B's ticks: everything the target sent at least 2 s before the end must have arrived exactly once
    {
        let g = tlog.lock().unwrap();
        let sent = g.ticks_sent.get(&3).cloned().unwrap_or_default();
        let got = app_b.got.lock().unwrap();
        let mut missing = Vec::new();
        let mut dup = Vec::new();
        let mut counted = 0u64;
        for (k, when) in &sent {
            if when.elapsed() < Duration::from_secs(2) {
                continue;
            }
            counted += 1;
            match got.get(&(TICK + k, 1)).map(|v| v.len()).unwrap_or(0) {
                0 => missing.push(*k),
                1 => {}
                _ => dup.push(*k),
            }
        }
        rep.mon("ticks_sent_to_a_silent_subscriber", counted);
        rep.mon("ticks_that_reached_it", counted - missing.len() as u64);
        if !dup.is_empty() {
            rep.violation(format!("C02|{cfgname}|idle-expiry|tick-delivered-twice"), format!("{cfgname}: ticks {:?} reached the subscriber more than once", dup), witness("subscriber B", json!({"duplicated": dup})));
        }
        // two or more consecutive ticks up to the last one missing = the flow has died; sporadic loss is only noted
        let tail_missing = sent.iter().rev().filter(|(_, w)| w.elapsed() >= Duration::from_secs(2)).take_while(|(k, _)| missing.contains(k)).count();
        if tail_missing >= 2 {
            let first = sent.len() - tail_missing;
            rep.violation(format!("C02|{cfgname}|idle-expiry|replies-stop-while-the-target-keeps-sending"), format!("{cfgname}: the target sent one datagram every 10 s to an application that had sent one datagram at second 0; from tick {first} (second {}) on none arrived", (first + 1) * 10), witness("subscriber B", json!({"ticks_sent": counted, "missing": missing})));
        } else if !missing.is_empty() {
            rep.note(format!("{cfgname}: sporadic loss of ticks {:?} (not judged)", missing));
        }
        for p in g.problems.iter().take(3) {
            rep.violation(format!("C02|{cfgname}|idle-expiry|target-received:{}", p.split(':').next().unwrap_or("")), format!("{cfgname}: target received: {p}"), witness("target", json!({"problem": p})));
        }
        rep.extra.insert(format!("idle:{cfgname}:source_ports_seen_by_the_target"), json!({"A (silent 320 s)": g.from_ports.get(&2), "B (subscriber)": g.from_ports.get(&3), "C (every 100 s)": g.from_ports.get(&4)}));
    }
    for (name, app) in [("A", &app_a), ("B", &app_b), ("C", &app_c), ("D", &app_d)] {
        for p in app.problems.lock().unwrap().iter().take(3) {
            rep.violation(format!("C02|{cfgname}|idle-expiry|{}", p.split(|c: char| c.is_ascii_digit()).next().unwrap_or("").trim()), format!("{cfgname}: application {name}: {p}"), witness("application", json!({"problem": p})));
        }
    }
    // C15: the server's side of sessions idle for 300 s
    if is_ss {
        match server_released_at {
            Some(t) => {
                rep.mon("idle_associations_released_by_the_server", 2);
                rep.note(format!("{cfgname}: the server released the sockets of two idle associations at second {t}"));
            }
            None => {
                // expiry may legitimately wait for the next clean-up tick (another 300 s): only the long run can tell
                let late = series.iter().find(|s| s.t > 322 && a_resumed_sample.map_or(false, |b| s.s_udp <= b.s_udp - 1));
                if long && late.is_none() {
                    rep.violation(format!("C15|{cfgname}|idle-expiry|server-keeps-the-sockets-of-associations-idle-for-more-than-600s"), format!("{cfgname}: two associations unused since second 2: the server's UDP sockets never went below {} (with them {}) in 650 s", series.iter().map(|s| s.s_udp).min().unwrap_or(0), with_all.s_udp), witness("server descriptors", json!({"series [t, server udp, server tcp, client udp, client tcp]": series_json})));
                } else if long {
                    rep.note(format!("{cfgname}: idle associations released only at second {}", late.unwrap().t));
                    rep.mon("idle_associations_released_by_the_server", 1);
                } else {
                    rep.inconclusive(format!("{cfgname}: idle associations not released within 335 s (the long run of C15 decides)"));
                }
            }
        }
    }
    if long {
        match client_released_at {
            Some(t) => {
                rep.mon("idle_bindings_released_by_the_client", 1);
                rep.note(format!("{cfgname}: the client released the idle binding at second {t}"));
            }
            // released only by the next clean-up tick (second 1200) would still be bounded: out of reach of this run
            None => rep.inconclusive(format!("{cfgname}: the client's binding idle since second 2 still holds its descriptor at second 650 (a release by the next 600 s clean-up tick is beyond this run)")),
        }
    }
    rep.extra.insert(format!("idle:{cfgname}:descriptors [t, server udp, server tcp, client udp, client tcp]"), json!(series_json));
    if !stalls.is_empty() {
        rep.note(format!("{cfgname}: the harness itself was held up (second, for seconds): {:?}", stalls));
    }
    rep.case(&(idx, "idle", long), true);
    for (who, node) in [("client", &mut pair.client), ("server", &mut pair.server)] {
        for p in node.panics() {
            rep.violation(format!("C15|{}|idle-expiry|{}-panic|{}", cfgname, who, p["frame"].as_str().unwrap_or("?")), format!("{who} task panicked: {}", p["message"]), json!({"panic": p}));
        }
        if !node.alive() {
            rep.violation(format!("C15|{}|idle-expiry|{}-exited", cfgname, who), format!("{who} exited"), json!({"log": node.log_tail(10)}));
        }
    }
    if idx == 0 {
        rep.sample(json!({"config": cfgname, "timeline_s": {"0": "W chatter starts (every 4 s); A, C, D exchange; B subscribes to one tick per 10 s; TCP flow T echoes 2 KiB", "100/200/300": "C exchanges", "322": "A, B, C exchange again; T sends again", "600+": "client forgets D's binding (long run)"}, "descriptors": series_json}));
    }
    ttask.abort();
    echo_task.abort();
    drop(tcp.take());
    drop(pair);
    let _ = std::fs::remove_dir_all(&dir);
    rep
}

pub async fn run(a: &Args) -> Report {
    let sub = a.sub.clone().unwrap_or_else(|| "c02".into());
    let long = sub == "c15";
    use refimpl::ss::Method::*;
    let cfgs: Vec<(Proto, Transport, usize)> = vec![
        (Proto::Ss(B3Aes128Gcm), Transport::Tcp, 0),
        (Proto::Ss(B3Aes256Gcm), Transport::Tcp, 2),
        (Proto::Ss(B3ChaCha20Poly1305), Transport::Tcp, 0),
        (Proto::Ss(Aes256Gcm), Transport::Tcp, 0),
        (Proto::Vmess(3), Transport::Tcp, 1),
        (Proto::Vmess(4), Transport::Ws, 1),
        (Proto::Vmess(3), Transport::Quic, 1),
        (Proto::Trojan, Transport::Tls, 0),
        (Proto::Trojan, Transport::Wss, 0),
        (Proto::Trojan, Transport::Quic, 0),
    ];
    // only the signatures of the property this step was asked for
    let prefix = format!("{}|", sub.to_uppercase());
    let mut hs = Vec::new();
    for (idx, (p, t, u)) in cfgs.iter().cloned().enumerate() {
        let a = a.clone();
        hs.push(tokio::spawn(async move { one_config(a, idx, p, t, u, long).await }));
    }
    let mut all = Report::new();
    let mut suspects: Vec<(usize, Report)> = Vec::new();
    for (idx, h) in hs.into_iter().enumerate() {
        if let Ok(mut r) = h.await {
            r.violations.retain(|k, _| k.starts_with(&prefix));
            if r.violations.is_empty() {
                all.merge(r);
            } else {
                suspects.push((idx, r));
            }
        }
    }
    // DESIGN section 5: a witness against running nodes is executed once more before it is believed. Minutes of real time
    // are long enough for the machine itself to hiccup (a frozen or throttled virtual machine lets every QUIC connection
    // run into its idle timer at once): a configuration that showed a symptom lives through the whole timeline again, alone;
    // only a symptom that comes back is a violation, the rest is inconclusive.
    let mut again = Vec::new();
    for (idx, _) in suspects.iter() {
        let (p, t, u) = cfgs[*idx];
        let a = a.clone();
        let idx = *idx;
        again.push(tokio::spawn(async move { one_config(a, idx + 100, p, t, u, long).await }));
    }
    for ((_, mut r), h) in suspects.into_iter().zip(again) {
        let second = h.await.unwrap_or_default();
        all.mon("configurations_that_lived_through_the_timeline_a_second_time", 1);
        let sigs: Vec<String> = r.violations.keys().cloned().collect();
        for sig in sigs {
            if !second.violations.contains_key(&sig) {
                r.violations.remove(&sig);
                all.inconclusive(format!("seen once, not reproduced when the configuration lived through the timeline again: {sig}"));
            }
        }
        all.merge(r);
    }
    all
}
