//! C07 at node level - no input from the network can crash a task or the process.
//!
//! The codec-level check feeds hostile input to every decoder; this one feeds it to RUNNING nodes, so that the glue
//! behind the decoders is reached as well (accept loops, TLS / WebSocket / QUIC adapters, relay pumps, target dialling,
//! the UDP loops and association tasks, the client's reply paths):
//!
//!  * part A, the server under attack: through the transport the server listens on (tcp / tls / ws / wss / quic) a
//!    peer writes random bytes, valid requests that are bit-flipped / truncated / continued with garbage, the
//!    well-authenticated-but-malformed requests of the codec-level generators (made with the reference implementation
//!    under the RIGHT credential, so they pass authentication), and valid requests for unusual targets (names that are
//!    not UTF-8, empty and 255-byte names, port 0, unresolvable names, refused ports) - in random pieces, ending with
//!    FIN, reset or silence; Shadowsocks UDP ports get the datagram generators and valid datagrams for the same targets;
//!  * part B, the client under attack: a hostile "server" (reference implementation, plain tcp or websocket, and a UDP
//!    socket for Shadowsocks) answers a real client's flows and datagram bindings with nothing, resets, random bytes,
//!    valid answers that are bit-flipped / truncated / continued with garbage, and authenticated-but-malformed answers
//!    (response headers of every shape, chunk lengths at the boundaries, malformed datagram frames).
//!
//! Monitors: the panic recorder inside osv-node (hook: location, message, innermost in-repo frame), process
//! liveness, and after each part a canary flow (and datagram) that must still be relayed.

use std::sync::atomic::{AtomicBool, AtomicU64, Ordering};
use std::sync::Arc;
use std::time::Duration;

use refimpl::addr::Addr;
use refimpl::ss;
use refimpl::vmess;
use serde_json::json;
use tokio::io::{AsyncReadExt, AsyncWriteExt};
use tokio::net::{TcpListener, TcpStream, UdpSocket};

use super::c01::work_dir;
use super::c02::{make_payload, socks5_udp, socks5_udp_parse, start_udp_target};
use super::endpoints::*;
use super::nodes::*;
use super::pipe::Pipe;
use super::tcpflows::*;
use crate::hostile::{address_variants, boundary_u16s, server_malformed_wires, ss_udp_hostile_datagrams, with_tail_variants};
use crate::checks::Args;
use crate::gen;
use crate::peer::{ClientOpts, RefClient, RefServer, ServerOpts};
use crate::prng::Rng;
use crate::real::{all_protos, Cfg, Proto};
use crate::report::Report;

fn now_s() -> u64 {
    std::time::SystemTime::now().duration_since(std::time::UNIX_EPOCH).unwrap().as_secs()
}

/// Targets a well-authenticated peer may name: most of them cannot be dialled, some cannot even be represented as text.
fn unusual_targets(echo_port: u16, rng: &mut Rng) -> Vec<(&'static str, Addr)> {
    vec![
        ("name-not-utf8", Addr::Domain(vec![0xff, 0xfe, 0xc0, 0x80], 80)),
        ("name-with-nul", Addr::Domain(b"a\0b.example".to_vec(), 80)),
        ("name-255-bytes", Addr::Domain(gen::ldh_name(rng, 255), 80)),
        ("unresolvable-name", Addr::Domain(b"no-such-host.invalid".to_vec(), 80)),
        ("name-with-colon", Addr::Domain(b"127.0.0.1:1".to_vec(), 80)),
        ("name-with-spaces", Addr::Domain(b" localhost ".to_vec(), echo_port)),
        ("port-zero", Addr::V4([127, 0, 0, 1], 0)),
        ("refused-port", Addr::V4([127, 0, 0, 1], 1)),
        ("unspecified-v4", Addr::V4([0, 0, 0, 0], 0)),
        ("broadcast", Addr::V4([255, 255, 255, 255], 9)),
        ("v6-loopback-refused", Addr::V6([0, 0, 0, 0, 0, 0, 0, 0, 0, 0, 0, 0, 0, 0, 0, 1], 1)),
        ("v6-unspecified", Addr::V6([0; 16], 0)),
        ("echo-by-name", Addr::Domain(b"localhost".to_vec(), echo_port)),
    ]
}

#[derive(Clone, Copy, Debug)]
enum Ending {
    FinThenRead,
    AbortAtOnce,
    AbortLater,
    FinThenHold,
}

/// Write `wire` to the server over its transport in random pieces, end the connection as asked.
async fn deliver(transport: Transport, port: u16, wire: Vec<u8>, cuts: Vec<usize>, ending: Ending) -> Result<(), String> {
    let mut p = Pipe::connect(transport, port).await?;
    for (s, e) in gen::pieces(wire.len(), &cuts) {
        if p.send(&wire[s..e]).await.is_err() {
            break;
        }
        if cuts.len() > 1 {
            tokio::time::sleep(Duration::from_millis(2)).await;
        }
    }
    match ending {
        Ending::FinThenRead => {
            p.finish().await;
            let _ = tokio::time::timeout(Duration::from_millis(300), async {
                while let Ok(Some(_)) = p.recv().await {}
            })
            .await;
        }
        Ending::AbortAtOnce => {}
        Ending::AbortLater => {
            let _ = tokio::time::timeout(Duration::from_millis(150), p.recv()).await;
        }
        Ending::FinThenHold => {
            p.finish().await;
            tokio::time::sleep(Duration::from_millis(250)).await;
        }
    }
    p.abort();
    Ok(())
}

fn report_node(rep: &mut Report, cfgname: &str, part: &str, who: &str, node: &mut Node, seen: &mut usize, d: &Deploy, seed: u64) {
    let ps = node.panics();
    for p in ps.iter().skip(*seen) {
        rep.violation(
            format!("C07|nodes|{}|{}|{}|{}", who, part, p["frame"].as_str().unwrap_or("?"), crate::panicmon::normalise(p["message"].as_str().unwrap_or(""))),
            format!("{cfgname}: a {who} task panicked while {part}: {} (at {})", p["message"], p["location"]),
            json!({"seed": seed, "deploy": d.describe(), "panic": p, "part": part}),
        );
    }
    *seen = ps.len();
    if !node.alive() {
        rep.violation(format!("C07|nodes|{}|{}|process-exited", who, part), format!("{cfgname}: the {who} process exited while {part}"), json!({"seed": seed, "deploy": d.describe(), "log": node.log_tail(12)}));
    }
}

// ------------------------------------------------------------------------------------------------------------
// part B: the hostile server

#[derive(Clone, Debug)]
enum Behave {
    CloseAtOnce,
    ResetAtOnce,
    SilentThenClose,
    ResetAfterRequest,
    Random(usize),
    ValidBitFlip,
    ValidTruncated,
    ValidPlusGarbage,
    /// protocol-specific authenticated-but-malformed answer number k
    Malformed(usize),
    /// datagram-in-stream associations: malformed frames
    DgramMalformed(usize),
    GoodEcho,
}

fn behaviours(n_malformed: usize, thorough: bool) -> Vec<Behave> {
    let mut v = vec![Behave::CloseAtOnce, Behave::ResetAtOnce, Behave::SilentThenClose, Behave::ResetAfterRequest];
    for l in [1usize, 2, 15, 16, 17, 33, 34, 50, 100, 3000] {
        v.push(Behave::Random(l));
    }
    for _ in 0..if thorough { 12 } else { 4 } {
        v.push(Behave::ValidBitFlip);
        v.push(Behave::ValidTruncated);
    }
    v.push(Behave::ValidPlusGarbage);
    for k in 0..n_malformed {
        v.push(Behave::Malformed(k));
    }
    v
}

/// Authenticated-but-malformed answers to the request `srv` has read (stream mode). Each is a complete byte string.
fn malformed_answers(cfg: &Cfg, srv: &mut RefServer, rng: &mut Rng) -> Vec<(&'static str, Vec<u8>)> {
    let mut out: Vec<(&'static str, Vec<u8>)> = Vec::new();
    let now = now_s();
    match cfg.proto {
        Proto::Ss(m) if m.is_2022() => {
            let Some(rsalt) = srv.ss2022_request_salt() else { return out };
            let key = match cfg.client_user {
                Some(u) => cfg.users[u].1.clone(),
                None => cfg.server_psk.clone(),
            };
            let mut hdr = |type_byte: u8, ts: u64, echo: &[u8], first: &[u8], rng: &mut Rng| ss::s22_response_encode(m, &key, &rng.bytes(m.key_len()), type_byte, ts, echo, first);
            for t in [0u8, 2, 0x7f, 0xff] {
                out.push(("ss2022-response-type", hdr(t, now, &rsalt, b"x", rng).0));
            }
            for ts in [0u64, now - 1000, now + 1000, u64::MAX] {
                out.push(("ss2022-response-timestamp", hdr(1, ts, &rsalt, b"x", rng).0));
            }
            for echo in [vec![], vec![0u8; 5], rng.bytes(m.key_len()), vec![0u8; m.key_len() + 7], vec![0u8; 200]] {
                out.push(("ss2022-response-salt-echo", hdr(1, now, &echo, b"x", rng).0));
            }
            // first-payload length field vs. what follows; then chunk length fields at the boundaries
            for l in boundary_u16s() {
                let salt = rng.bytes(m.key_len());
                let sub = refimpl::crypto::blake3_derive("shadowsocks 2022 session subkey", &[&key[..], &salt[..]].concat(), m.key_len());
                let mut cc = ss::ChunkCipher::new(m.stream_aead(), sub);
                let mut fixed = vec![1u8];
                fixed.extend_from_slice(&now.to_be_bytes());
                fixed.extend_from_slice(&rsalt);
                fixed.extend_from_slice(&l.to_be_bytes());
                let mut w = salt.clone();
                w.extend_from_slice(&cc.seal(&fixed, "s22-fixed"));
                w.extend_from_slice(&rng.bytes((l as usize).min(400) + 16));
                out.push(("ss2022-response-first-length", w));
                let (mut w, mut cc) = hdr(1, now, &rsalt, b"ok", rng);
                w.extend_from_slice(&cc.seal(&l.to_be_bytes(), "ss-len"));
                w.extend_from_slice(&rng.bytes((l as usize).min(400) + 16));
                out.push(("ss2022-response-chunk-length", w));
            }
            // a fixed header that is too short / too long, correctly sealed
            for n in [0usize, 1, 9, 10, 40, 300] {
                let salt = rng.bytes(m.key_len());
                let sub = refimpl::crypto::blake3_derive("shadowsocks 2022 session subkey", &[&key[..], &salt[..]].concat(), m.key_len());
                let mut cc = ss::ChunkCipher::new(m.stream_aead(), sub);
                let mut w = salt.clone();
                w.extend_from_slice(&cc.seal(&rng.bytes(n), "s22-fixed"));
                w.extend_from_slice(&rng.bytes(40));
                out.push(("ss2022-response-fixed-header-size", w));
            }
        }
        Proto::Ss(m) => {
            let master = cfg.ref_server_psk();
            for l in boundary_u16s() {
                let salt = rng.bytes(m.key_len());
                let sub = refimpl::crypto::ss_subkey(&master, &salt);
                let mut cc = ss::ChunkCipher::new(m.stream_aead(), sub);
                let mut w = salt.clone();
                w.extend_from_slice(&cc.seal(&l.to_be_bytes(), "ss-len"));
                w.extend_from_slice(&rng.bytes((l as usize).min(400) + 16));
                out.push(("sip004-response-chunk-length", w));
                // a good first chunk, then the boundary length
                let mut wr = ss::Sip004Writer::new(m, &master, rng.bytes(m.key_len()));
                let mut w = Vec::new();
                wr.write(b"ok", 0x3FFF, &mut w);
                out.push(("sip004-response-then-garbage", [w, rng.bytes(l as usize % 300 + 1)].concat()));
            }
        }
        Proto::Vmess(_) => {
            let Some(o) = srv.vmess_opened() else { return out };
            let h = o.header.clone();
            let (rk, ri) = vmess::response_keys(&h.body_key, &h.body_iv);
            let v = h.resp_v;
            let contents: Vec<Vec<u8>> = vec![
                vec![],
                vec![v],
                vec![v, h.option],
                vec![v, h.option, 0],
                vec![v ^ 1, h.option, 0, 0],
                vec![v, h.option, 1, 200],
                vec![v, h.option, 1, 4, 1, 2, 3, 4],
                vec![v, h.option, 1, 0],
                vec![v, 0xff, 0xff, 0xff],
                [vec![v, h.option, 1, 40], rng.bytes(40)].concat(),
                [vec![v, h.option, 0, 0], rng.bytes(300)].concat(),
            ];
            for c in contents {
                let mut w = vmess::seal_response_header(&rk, &ri, &c);
                w.extend_from_slice(&rng.bytes(48));
                out.push(("vmess-response-header", w));
            }
            // a good header, then chunk length fields of every small value and the boundaries (masked as the request's
            // option says; with AuthenticatedLength the field is sealed, so these are unauthenticated garbage there)
            for l in (0..=40u16).chain(boundary_u16s()) {
                let mut w = vmess::seal_response_header(&rk, &ri, &[v, h.option, 0, 0]);
                let mut shake = refimpl::crypto::Shake::new(&ri);
                if h.option & vmess::OPT_GLOBAL_PADDING != 0 {
                    let _ = shake.next_u16();
                }
                let field = if h.option & vmess::OPT_CHUNK_MASKING != 0 { l ^ shake.next_u16() } else { l };
                w.extend_from_slice(&field.to_be_bytes());
                w.extend_from_slice(&rng.bytes((l as usize).min(300) + 20));
                out.push(("vmess-response-chunk-length", w));
            }
        }
        Proto::Trojan => {
            // the Trojan stream is raw after the request: nothing is parsed on the way back
            out.push(("trojan-raw-bytes", rng.bytes(100)));
        }
    }
    out
}

/// Malformed datagram-in-stream answers (VMess command 2 / Trojan command 3), each a complete byte string.
fn malformed_dgram_answers(cfg: &Cfg, srv: &mut RefServer, rng: &mut Rng) -> Vec<(&'static str, Vec<u8>)> {
    let mut out: Vec<(&'static str, Vec<u8>)> = Vec::new();
    match cfg.proto {
        Proto::Vmess(_) => {
            for n in [0usize, 1, 2, 16, 17, 2000, 5000] {
                let d = rng.bytes(n);
                out.push(("vmess-dgram-reply-size", srv.write(&d, rng)));
            }
        }
        Proto::Trojan => {
            for a in address_variants(rng).into_iter().step_by(5) {
                for body in with_tail_variants(&a, rng).into_iter().take(6) {
                    out.push(("trojan-dgram-reply-frame", body));
                }
            }
        }
        _ => {}
    }
    out
}

struct Hostile {
    port: u16,
    good: Arc<AtomicBool>,
    served: Arc<AtomicU64>,
    by_class: Arc<std::sync::Mutex<std::collections::BTreeMap<String, u64>>>,
    tasks: Vec<tokio::task::JoinHandle<()>>,
}

impl Drop for Hostile {
    fn drop(&mut self) {
        for t in &self.tasks {
            t.abort();
        }
    }
}

pub(super) enum SrvConn {
    Tcp(TcpStream),
    Ws(tokio_websockets::WebSocketStream<TcpStream>),
}

impl SrvConn {
    pub(super) async fn recv(&mut self) -> Option<Vec<u8>> {
        use futures::StreamExt;
        match self {
            SrvConn::Tcp(s) => {
                let mut b = vec![0u8; 16384];
                match s.read(&mut b).await {
                    Ok(0) | Err(_) => None,
                    Ok(n) => Some(b[..n].to_vec()),
                }
            }
            SrvConn::Ws(s) => loop {
                match s.next().await {
                    Some(Ok(m)) if m.is_binary() => return Some(m.into_payload().to_vec()),
                    Some(Ok(m)) if m.is_close() => return None,
                    Some(Ok(_)) => continue,
                    _ => return None,
                }
            },
        }
    }
    pub(super) async fn send(&mut self, b: &[u8]) {
        use futures::SinkExt;
        match self {
            SrvConn::Tcp(s) => {
                let _ = s.write_all(b).await;
            }
            SrvConn::Ws(s) => {
                let _ = s.send(tokio_websockets::Message::binary(bytes::Bytes::from(b.to_vec()))).await;
            }
        }
    }
    fn reset(self) {
        if let SrvConn::Tcp(s) = self {
            #[allow(deprecated)]
            let _ = s.set_linger(Some(Duration::from_secs(0)));
        }
    }
}

async fn hostile_conn(mut c: SrvConn, cfg: Cfg, serial: u64, seed: u64, good: bool, thorough: bool, by_class: Arc<std::sync::Mutex<std::collections::BTreeMap<String, u64>>>) {
    let mut rng = Rng::derive(seed, 0xB07, serial);
    let count = |k: &str| {
        *by_class.lock().unwrap().entry(k.to_string()).or_insert(0) += 1;
    };
    // behaviours that do not wait for the request
    let pre = [Behave::CloseAtOnce, Behave::ResetAtOnce, Behave::SilentThenClose];
    if !good && serial % 11 < 3 {
        match &pre[(serial % 11) as usize] {
            Behave::CloseAtOnce => count("close-at-once"),
            Behave::ResetAtOnce => {
                count("reset-at-once");
                c.reset();
                return;
            }
            _ => {
                count("silent-then-close");
                tokio::time::sleep(Duration::from_millis(300)).await;
            }
        }
        return;
    }
    // read the request with the reference implementation
    let mut srv = RefServer::new(&cfg, now_s(), ServerOpts::default());
    let mut got: Vec<u8> = Vec::new();
    let t0 = std::time::Instant::now();
    let mut ok = false;
    while t0.elapsed() < Duration::from_secs(3) {
        let Ok(Some(b)) = tokio::time::timeout(Duration::from_secs(2), c.recv()).await else { break };
        match srv.read_units(&b) {
            Ok(units) => {
                for u in units {
                    got.extend_from_slice(&u);
                }
                if srv.addr.is_some() && !got.is_empty() {
                    ok = true;
                    break;
                }
            }
            Err(_) => break,
        }
    }
    if !ok {
        count("request-not-readable-by-the-reference");
        return;
    }
    if good {
        count("good-echo");
        let w = srv.write(&got, &mut rng);
        c.send(&w).await;
        // keep echoing for a moment
        let t1 = std::time::Instant::now();
        while t1.elapsed() < Duration::from_secs(3) {
            let Ok(Some(b)) = tokio::time::timeout(Duration::from_millis(1500), c.recv()).await else { break };
            if let Ok(p) = srv.read(&b) {
                if !p.is_empty() {
                    let w = srv.write(&p, &mut rng);
                    c.send(&w).await;
                }
            }
        }
        return;
    }
    if srv.dgram {
        let answers = malformed_dgram_answers(&cfg, &mut srv, &mut rng);
        if answers.is_empty() {
            return;
        }
        // several malformed frames on one association, then garbage
        for k in 0..4 {
            let (class, w) = &answers[((serial as usize) * 4 + k) % answers.len()];
            count(class);
            c.send(w).await;
            tokio::time::sleep(Duration::from_millis(10)).await;
        }
        c.send(&rng.bytes(33)).await;
        tokio::time::sleep(Duration::from_millis(100)).await;
        return;
    }
    let mal = malformed_answers(&cfg, &mut srv, &mut rng);
    let bs = behaviours(mal.len(), thorough);
    let b = bs[3 + (serial as usize) % (bs.len() - 3)].clone();
    let valid = |srv: &mut RefServer, rng: &mut Rng| {
        let n = *rng.pick(&[1usize, 40, 600, 5000]);
        let b = rng.bytes(n);
        srv.write(&b, rng)
    };
    let wire: Vec<u8> = match b {
        Behave::ResetAfterRequest => {
            count("reset-after-request");
            c.reset();
            return;
        }
        Behave::Random(n) => {
            count("random-bytes");
            rng.bytes(n)
        }
        Behave::ValidBitFlip => {
            count("valid-answer-bit-flipped");
            let mut w = valid(&mut srv, &mut rng);
            let pos = rng.below(w.len().min(200) as u64) as usize;
            w[pos] ^= 1 << rng.below(8);
            w
        }
        Behave::ValidTruncated => {
            count("valid-answer-truncated");
            let mut w = valid(&mut srv, &mut rng);
            let cut = rng.below(w.len() as u64) as usize;
            w.truncate(cut);
            w
        }
        Behave::ValidPlusGarbage => {
            count("valid-answer-then-garbage");
            let mut w = valid(&mut srv, &mut rng);
            w.extend_from_slice(&rng.bytes(70));
            w
        }
        Behave::Malformed(k) => {
            let (class, w) = mal[k % mal.len().max(1)].clone();
            count(class);
            w
        }
        _ => return,
    };
    let cuts = if rng.chance(1, 2) { gen::random_cuts(&mut rng, wire.len(), 3) } else { vec![] };
    for (s, e) in gen::pieces(wire.len(), &cuts) {
        c.send(&wire[s..e]).await;
        tokio::time::sleep(Duration::from_millis(3)).await;
    }
    match serial % 3 {
        0 => {}
        1 => tokio::time::sleep(Duration::from_millis(200)).await,
        _ => {
            tokio::time::sleep(Duration::from_millis(30)).await;
            c.reset();
        }
    }
}

async fn start_hostile(cfg: &Cfg, ws: bool, seed: u64, thorough: bool) -> std::io::Result<Hostile> {
    let port = free_port();
    let l = TcpListener::bind(("127.0.0.1", port)).await?;
    let good = Arc::new(AtomicBool::new(false));
    let served = Arc::new(AtomicU64::new(0));
    let by_class = Arc::new(std::sync::Mutex::new(std::collections::BTreeMap::new()));
    let (g, sv, bc, cfg2) = (good.clone(), served.clone(), by_class.clone(), cfg.clone());
    let mut tasks = Vec::new();
    tasks.push(tokio::spawn(async move {
        loop {
            let Ok((s, _)) = l.accept().await else { continue };
            let _ = s.set_nodelay(true);
            let serial = sv.fetch_add(1, Ordering::SeqCst);
            let (g, bc, cfg) = (g.load(Ordering::SeqCst), bc.clone(), cfg2.clone());
            tokio::spawn(async move {
                let c = if ws {
                    match tokio::time::timeout(Duration::from_secs(3), tokio_websockets::ServerBuilder::new().accept(s)).await {
                        Ok(Ok((_req, w))) => SrvConn::Ws(w),
                        _ => return,
                    }
                } else {
                    SrvConn::Tcp(s)
                };
                hostile_conn(c, cfg, serial, seed, g, thorough, bc).await;
            });
        }
    }));
    // Shadowsocks: a hostile datagram relay on the same port number
    if let Some(m) = cfg.method() {
        let u = UdpSocket::bind(("127.0.0.1", port)).await?;
        let (g, bc, cfg2) = (good.clone(), by_class.clone(), cfg.clone());
        tasks.push(tokio::spawn(async move {
            let mut rng = Rng::derive(seed, 0xB07D, 0);
            let mut buf = vec![0u8; 70000];
            let psk = cfg2.ref_server_psk();
            let users = cfg2.ref_users();
            let mut n = 0usize;
            loop {
                let Ok((len, from)) = u.recv_from(&mut buf).await else { continue };
                let pkt = &buf[..len];
                let (csid, addr, payload, user) = if m.is_2022() {
                    match ss::s22_udp_server_decode(m, &psk, &users, pkt) {
                        Ok((p, user)) => (p.session_id, p.addr, p.payload, user),
                        Err(_) => continue,
                    }
                } else {
                    match ss::sip004_udp_decode(m, &psk, pkt) {
                        Ok((a, p)) => (0, a, p, None),
                        Err(_) => continue,
                    }
                };
                let reply_key = match user {
                    Some(i) => users[i].upsk.clone(),
                    None => psk.clone(),
                };
                if g.load(Ordering::SeqCst) {
                    *bc.lock().unwrap().entry("udp:good-echo".into()).or_insert(0) += 1;
                    let w = if m.is_2022() {
                        let p = ss::S22UdpPacket { session_id: 0x600D_0000 + csid % 1000, packet_id: rng.next_u32() as u64 + 1, type_byte: 1, timestamp: now_s(), client_session_id: Some(csid), padding: vec![], addr: addr.clone(), payload: payload.clone() };
                        ss::s22_udp_server_encode(m, &reply_key, &p, &rng.arr())
                    } else {
                        ss::sip004_udp_encode(m, &psk, &rng.bytes(m.key_len()), &addr, &payload)
                    };
                    let _ = u.send_to(&w, from).await;
                    continue;
                }
                // hostile replies: a slice of the generator's output per request, sealed under the key this client reads
                let mut kc = cfg2.clone();
                kc.users.clear();
                kc.client_user = None;
                if m.is_2022() {
                    kc.server_psk = reply_key.clone();
                }
                let all = ss_udp_hostile_datagrams(&kc, m, now_s(), csid, &mut rng, n % 3);
                let replies: Vec<&(&'static str, bool, Vec<u8>)> = all.iter().filter(|d| !d.1).collect();
                for k in 0..24 {
                    let (class, _, w) = replies[(n * 24 + k) % replies.len()];
                    *bc.lock().unwrap().entry(format!("udp:{class}")).or_insert(0) += 1;
                    let _ = u.send_to(w, from).await;
                }
                n += 1;
            }
        }));
    }
    Ok(Hostile { port, good, served, by_class, tasks })
}


// ------------------------------------------------------------------------------------------------------------
// hand-written WebSocket clients (part A on ws / wss listeners)

fn ws_frame(opcode: u8, fin: bool, rsv: u8, mask: Option<[u8; 4]>, payload: &[u8], declared: Option<u64>) -> Vec<u8> {
    let mut f = vec![(if fin { 0x80 } else { 0 }) | (rsv << 4) | (opcode & 0x0f)];
    let n = declared.unwrap_or(payload.len() as u64);
    let m = if mask.is_some() { 0x80u8 } else { 0 };
    if declared.is_none() && n < 126 {
        f.push(m | n as u8);
    } else if declared.is_none() && n <= 0xffff {
        f.push(m | 126);
        f.extend_from_slice(&(n as u16).to_be_bytes());
    } else {
        f.push(m | 127);
        f.extend_from_slice(&n.to_be_bytes());
    }
    match mask {
        Some(k) => {
            f.extend_from_slice(&k);
            f.extend(payload.iter().enumerate().map(|(i, b)| b ^ k[i % 4]));
        }
        None => f.extend_from_slice(payload),
    }
    f
}

/// (class, upgrade request, frames to send once the server has answered 101)
fn ws_raw_scripts(port: u16, request: &[u8], rng: &mut Rng) -> Vec<(String, Vec<u8>, Vec<Vec<u8>>)> {
    let key = refimpl::crypto::b64_encode(&rng.bytes(16));
    let host = format!("localhost:{port}");
    let std_headers = |with_host: Option<&str>, extra: &str| {
        let mut h = String::new();
        if let Some(x) = with_host {
            h.push_str(&format!("Host: {x}\r\n"));
        }
        h.push_str(&format!("Upgrade: websocket\r\nConnection: Upgrade\r\nSec-WebSocket-Key: {key}\r\nSec-WebSocket-Version: 13\r\n{extra}\r\n"));
        h
    };
    let mut upgrades: Vec<(&'static str, Vec<u8>)> = vec![
        ("plain", format!("GET /ws HTTP/1.1\r\n{}", std_headers(Some(&host), "")).into_bytes()),
        ("no-host-header", format!("GET /ws HTTP/1.1\r\n{}", std_headers(None, "")).into_bytes()),
        ("http-1.0", format!("GET /ws HTTP/1.0\r\n{}", std_headers(None, "")).into_bytes()),
        ("empty-host", format!("GET /ws HTTP/1.1\r\n{}", std_headers(Some(""), "")).into_bytes()),
        ("two-host-headers", format!("GET /ws HTTP/1.1\r\nHost: a\r\n{}", std_headers(Some("b"), "")).into_bytes()),
        ("lower-case-names", format!("GET /ws HTTP/1.1\r\nhost: {host}\r\nupgrade: websocket\r\nconnection: upgrade\r\nsec-websocket-key: {key}\r\nsec-websocket-version: 13\r\n\r\n").into_bytes()),
        ("extensions-and-protocols", format!("GET /ws HTTP/1.1\r\n{}", std_headers(Some(&host), "Origin: null\r\nSec-WebSocket-Protocol: a, b\r\nSec-WebSocket-Extensions: permessage-deflate; client_max_window_bits\r\nCookie: x=y\r\n")).into_bytes()),
        ("huge-header", format!("GET /ws HTTP/1.1\r\n{}", std_headers(Some(&host), &format!("X-Fill: {}\r\n", "a".repeat(16000)))).into_bytes()),
        ("path-root", format!("GET / HTTP/1.1\r\n{}", std_headers(Some(&host), "")).into_bytes()),
        ("path-with-query", format!("GET /ws?x=1&y=%00 HTTP/1.1\r\n{}", std_headers(Some(&host), "")).into_bytes()),
        ("path-other", format!("GET /other/../ws HTTP/1.1\r\n{}", std_headers(Some(&host), "")).into_bytes()),
        ("absolute-uri", format!("GET http://{host}/ws HTTP/1.1\r\n{}", std_headers(Some(&host), "")).into_bytes()),
        ("asterisk", format!("GET * HTTP/1.1\r\n{}", std_headers(Some(&host), "")).into_bytes()),
        ("no-key", format!("GET /ws HTTP/1.1\r\nHost: {host}\r\nUpgrade: websocket\r\nConnection: Upgrade\r\nSec-WebSocket-Version: 13\r\n\r\n").into_bytes()),
        ("short-key", format!("GET /ws HTTP/1.1\r\nHost: {host}\r\nUpgrade: websocket\r\nConnection: Upgrade\r\nSec-WebSocket-Key: AA==\r\nSec-WebSocket-Version: 13\r\n\r\n").into_bytes()),
        ("version-12", format!("GET /ws HTTP/1.1\r\nHost: {host}\r\nUpgrade: websocket\r\nConnection: Upgrade\r\nSec-WebSocket-Key: {key}\r\nSec-WebSocket-Version: 12\r\n\r\n").into_bytes()),
        ("no-version", format!("GET /ws HTTP/1.1\r\nHost: {host}\r\nUpgrade: websocket\r\nConnection: Upgrade\r\nSec-WebSocket-Key: {key}\r\n\r\n").into_bytes()),
        ("connection-list", format!("GET /ws HTTP/1.1\r\nHost: {host}\r\nUpgrade: websocket\r\nConnection: keep-alive, Upgrade\r\nSec-WebSocket-Key: {key}\r\nSec-WebSocket-Version: 13\r\n\r\n").into_bytes()),
        ("no-upgrade-header", format!("GET /ws HTTP/1.1\r\nHost: {host}\r\nConnection: Upgrade\r\nSec-WebSocket-Key: {key}\r\nSec-WebSocket-Version: 13\r\n\r\n").into_bytes()),
        ("post", format!("POST /ws HTTP/1.1\r\n{}", std_headers(Some(&host), "Content-Length: 0\r\n")).into_bytes()),
        ("obs-fold", format!("GET /ws HTTP/1.1\r\nHost: {host}\r\nUpgrade: websocket\r\nConnection:\r\n Upgrade\r\nSec-WebSocket-Key: {key}\r\nSec-WebSocket-Version: 13\r\n\r\n").into_bytes()),
        ("bare-lf", format!("GET /ws HTTP/1.1\nHost: {host}\nUpgrade: websocket\nConnection: Upgrade\nSec-WebSocket-Key: {key}\nSec-WebSocket-Version: 13\n\n").into_bytes()),
        ("http-2-preface", b"PRI * HTTP/2.0\r\n\r\nSM\r\n\r\n".to_vec()),
    ];
    let mut nonutf = format!("GET /ws HTTP/1.1\r\nHost: {host}\r\nX-Bin: ").into_bytes();
    nonutf.extend_from_slice(&[0xff, 0xfe, 0x80, 0x00, 0x01]);
    nonutf.extend_from_slice(format!("\r\nUpgrade: websocket\r\nConnection: Upgrade\r\nSec-WebSocket-Key: {key}\r\nSec-WebSocket-Version: 13\r\n\r\n").as_bytes());
    upgrades.push(("header-value-not-text", nonutf));
    let mut hostbin = b"GET /ws HTTP/1.1\r\nHost: ".to_vec();
    hostbin.extend_from_slice(&[0xe9, 0x80, 0xff]);
    hostbin.extend_from_slice(format!("\r\nUpgrade: websocket\r\nConnection: Upgrade\r\nSec-WebSocket-Key: {key}\r\nSec-WebSocket-Version: 13\r\n\r\n").as_bytes());
    upgrades.push(("host-value-not-text", hostbin));
    let k = || -> [u8; 4] { [0x11, 0x22, 0x33, 0x44] };
    let half = request.len() / 2;
    let frame_scripts: Vec<(&'static str, Vec<Vec<u8>>)> = vec![
        ("request-in-one-binary-frame", vec![ws_frame(2, true, 0, Some(k()), request, None)]),
        ("request-fragmented", vec![ws_frame(2, false, 0, Some(k()), &request[..half], None), ws_frame(0, true, 0, Some(k()), &request[half..], None)]),
        ("ping-then-request", vec![ws_frame(9, true, 0, Some(k()), b"0123456789", None), ws_frame(2, true, 0, Some(k()), request, None)]),
        ("request-as-text", vec![ws_frame(1, true, 0, Some(k()), request, None)]),
        ("unmasked-frame", vec![ws_frame(2, true, 0, None, request, None)]),
        ("reserved-bits", vec![ws_frame(2, true, 5, Some(k()), request, None)]),
        ("giant-declared-length", vec![ws_frame(2, true, 0, Some(k()), &request[..half.min(20)], Some(1 << 40))]),
        ("close-with-reason", vec![ws_frame(8, true, 0, Some(k()), &[3, 232, b'b', b'y', b'e'], None)]),
        ("close-with-one-byte", vec![ws_frame(8, true, 0, Some(k()), &[3], None)]),
        ("oversized-control-frame", vec![ws_frame(9, true, 0, Some(k()), &[0u8; 200], None)]),
        ("empty-frame-then-request", vec![ws_frame(2, true, 0, Some(k()), &[], None), ws_frame(2, true, 0, Some(k()), request, None)]),
        ("continuation-without-start", vec![ws_frame(0, true, 0, Some(k()), request, None)]),
        ("unknown-opcode", vec![ws_frame(0xb, true, 0, Some(k()), request, None)]),
        ("pong-flood-then-request", (0..40).map(|_| ws_frame(0xa, true, 0, Some(k()), b"x", None)).chain([ws_frame(2, true, 0, Some(k()), request, None)]).collect()),
        ("byte-per-frame", request.iter().take(80).map(|b| ws_frame(2, true, 0, Some(k()), &[*b], None)).collect()),
    ];
    let mut out = Vec::new();
    for (i, (uc, u)) in upgrades.iter().enumerate() {
        let (fc, f) = &frame_scripts[i % frame_scripts.len()];
        out.push((format!("ws-upgrade:{uc}+{fc}"), u.clone(), f.clone()));
    }
    for (fc, f) in frame_scripts.iter() {
        out.push((format!("ws-frames:{fc}"), upgrades[0].1.clone(), f.clone()));
    }
    // the first frame in the segment of the upgrade request
    let mut u = upgrades[0].1.clone();
    u.extend_from_slice(&ws_frame(2, true, 0, Some(k()), request, None));
    out.push(("ws-upgrade:frame-in-the-segment-of-the-request".into(), u, vec![]));
    out
}

async fn deliver_ws_raw(tls: bool, port: u16, upgrade: Vec<u8>, frames: Vec<Vec<u8>>) -> Result<bool, String> {
    let mut p = Pipe::connect(if tls { Transport::Tls } else { Transport::Tcp }, port).await?;
    p.send(&upgrade).await?;
    let mut head = Vec::new();
    let got_101 = tokio::time::timeout(Duration::from_millis(1200), async {
        loop {
            match p.recv().await {
                Ok(Some(b)) => {
                    head.extend_from_slice(&b);
                    if head.windows(4).any(|w| w == b"\r\n\r\n") {
                        return head.starts_with(b"HTTP/1.1 101");
                    }
                }
                _ => return false,
            }
        }
    })
    .await
    .unwrap_or(false);
    if got_101 {
        for f in frames {
            if p.send(&f).await.is_err() {
                break;
            }
            tokio::time::sleep(Duration::from_millis(2)).await;
        }
        let _ = tokio::time::timeout(Duration::from_millis(250), async { while let Ok(Some(_)) = p.recv().await {} }).await;
    }
    p.abort();
    Ok(got_101)
}

// ------------------------------------------------------------------------------------------------------------
// part C: hostile local applications

fn odd_names() -> Vec<Vec<u8>> {
    let mut v: Vec<Vec<u8>> = [".", "..", "...", "a.", ".a", "a..b", " ", "a b", "-", "_", "0", "00", "1.2.3", "127.0.0.1.", "0x7f.1", "999.999.999.999", "localhost.", "localhost..", "LOCALHOST", "xn--", "[::1]", "::1", "[", "]", "@", "a@b", "%00", "a%2eb", "*", "?", "#", "/", "\\", "a/b", "a:b", "localhost:80", "\t", "\r\n", "'", "\""].iter().map(|s| s.as_bytes().to_vec()).collect();
    v.push(vec![0]);
    v.push(b"a\0b".to_vec());
    v.push(vec![0xff, 0xfe]);
    v.push(vec![0xc3]);
    v.push("é.例".as_bytes().to_vec());
    v.push(vec![b'a'; 255]);
    v.push([vec![b'a'; 63], vec![b'.'], vec![b'b'; 63], vec![b'.'], vec![b'c'; 63], vec![b'.'], vec![b'd'; 62]].concat());
    v.push(vec![b'.'; 255]);
    v
}

async fn odd_socks5_connect(client_port: u16, name: &[u8], port: u16) {
    let Ok(mut s) = TcpStream::connect(("127.0.0.1", client_port)).await else { return };
    let _ = s.write_all(&[5, 1, 0]).await;
    let mut b = [0u8; 512];
    if !matches!(tokio::time::timeout(Duration::from_millis(800), s.read(&mut b)).await, Ok(Ok(2))) {
        return;
    }
    let mut req = vec![5, 1, 0, 3, name.len() as u8];
    req.extend_from_slice(name);
    req.extend_from_slice(&port.to_be_bytes());
    let _ = s.write_all(&req).await;
    let _ = tokio::time::timeout(Duration::from_millis(600), s.read(&mut b)).await;
    let _ = s.write_all(b"hello through an odd name").await;
    let _ = tokio::time::timeout(Duration::from_millis(300), s.read(&mut b)).await;
}

async fn odd_http(client_port: u16, name: &[u8], port: u16, connect: bool) {
    let Ok(mut s) = TcpStream::connect(("127.0.0.1", client_port)).await else { return };
    let mut req = Vec::new();
    if connect {
        req.extend_from_slice(b"CONNECT ");
        req.extend_from_slice(name);
        req.extend_from_slice(format!(":{port} HTTP/1.1\r\nHost: ").as_bytes());
        req.extend_from_slice(name);
        req.extend_from_slice(b"\r\n\r\n");
    } else {
        req.extend_from_slice(b"GET http://");
        req.extend_from_slice(name);
        req.extend_from_slice(format!(":{port}/x HTTP/1.1\r\nHost: ").as_bytes());
        req.extend_from_slice(name);
        req.extend_from_slice(b"\r\n\r\n");
    }
    let _ = s.write_all(&req).await;
    let mut b = [0u8; 512];
    let _ = tokio::time::timeout(Duration::from_millis(600), s.read(&mut b)).await;
    let _ = s.write_all(b"hello").await;
    let _ = tokio::time::timeout(Duration::from_millis(300), s.read(&mut b)).await;
}

// ------------------------------------------------------------------------------------------------------------

async fn app_flow_unjudged(client_port: u16, kind: LocalKind, n: usize, rng_seed: u64) {
    let mut rng = Rng::new(rng_seed);
    let Ok(mut s) = TcpStream::connect(("127.0.0.1", client_port)).await else { return };
    if local_handshake(&mut s, kind, "victim.example", 80).await.is_err() {
        return;
    }
    let _ = s.write_all(&rng.bytes(n)).await;
    let mut b = vec![0u8; 8192];
    let t0 = std::time::Instant::now();
    while t0.elapsed() < Duration::from_millis(1500) {
        match tokio::time::timeout(Duration::from_millis(500), s.read(&mut b)).await {
            Ok(Ok(0)) | Ok(Err(_)) => break,
            _ => {}
        }
    }
}

/// A flow through `client_port` that must be echoed by the (now well-behaved) hostile server.
async fn echo_canary(client_port: u16, seed: u64) -> Result<(), String> {
    let mut rng = Rng::new(seed);
    for attempt in 0..3 {
        let r: Result<(), String> = async {
            let mut s = TcpStream::connect(("127.0.0.1", client_port)).await.map_err(|e| format!("connect to the client: {e}"))?;
            local_handshake(&mut s, LocalKind::Socks5Domain, "canary.example", 4242).await.map_err(|e| format!("local handshake: {:?}", e))?;
            let p = rng.bytes(300);
            s.write_all(&p).await.map_err(|e| e.to_string())?;
            let mut back = vec![0u8; 300];
            match tokio::time::timeout(Duration::from_secs(6), s.read_exact(&mut back)).await {
                Ok(Ok(_)) if back == p => Ok(()),
                Ok(Ok(_)) => Err("echo differs".into()),
                Ok(Err(e)) => Err(format!("no echo through the client: {e}")),
                Err(_) => Err("no echo through the client within 6 s".into()),
            }
        }
        .await;
        match r {
            Ok(()) => return Ok(()),
            Err(e) if attempt == 2 => return Err(e),
            Err(_) => tokio::time::sleep(Duration::from_millis(300)).await,
        }
    }
    Err("unreachable".into())
}

async fn udp_canary(client_port: u16, target_port: u16, nonce: u64, app: u16) -> Result<(), String> {
    let s = UdpSocket::bind("127.0.0.1:0").await.map_err(|e| e.to_string())?;
    let mut buf = vec![0u8; 70000];
    for seq in 0..4u32 {
        let p = make_payload(nonce, app, 0, seq, 200, 0);
        let _ = s.send_to(&socks5_udp("127.0.0.1", target_port, &p), ("127.0.0.1", client_port)).await;
        if let Ok(Ok((n, _))) = tokio::time::timeout(Duration::from_millis(2500), s.recv_from(&mut buf)).await {
            if socks5_udp_parse(&buf[..n]).is_some() {
                return Ok(());
            }
        }
    }
    Err("no reply to four fresh datagrams of a new application socket".into())
}

async fn one_config(a: Args, idx: usize, proto: Proto, transport: Transport) -> Report {
    let mut rep = Report::new();
    let mut rng = Rng::derive(a.seed, 0xC07E, idx as u64);
    let users = match proto {
        Proto::Ss(m) if m.supports_eih() => {
            let r = *rng.pick(&[0usize, 2]);
            // datagram listeners always with a user table (16..31-byte datagrams take another path there)
            if transport != Transport::Quic { 2 } else { r }
        }
        Proto::Vmess(_) => 2,
        _ => 0,
    };
    let cfg = Cfg::random(&mut rng, proto, users);
    let udp = match proto {
        Proto::Ss(_) => transport != Transport::Quic,
        Proto::Vmess(_) => true,
        Proto::Trojan => matches!(transport, Transport::Tls | Transport::Wss | Transport::Quic),
    };
    let dir = work_dir(&a, &format!("c07-{idx}"));
    let d = Deploy::new(cfg.clone(), transport, udp, 2, &dir);
    let cfgname = format!("{}|{}", proto.name(), transport.name());
    let tag = format!("c07-{idx}");
    let dd = d.clone();
    let mut pair = match tokio::task::spawn_blocking(move || start_pair(&dd, &tag)).await.unwrap() {
        Ok(p) => p,
        Err(e) => {
            rep.inconclusive(format!("{cfgname}: nodes do not start: {}", e.lines().next().unwrap_or("")));
            return rep;
        }
    };
    let nonce = rng.next_u64();
    let reg = Registry::new(nonce);
    let Ok(target) = start_target(reg.clone()).await else {
        rep.inconclusive("target does not start");
        return rep;
    };
    let udp_target = if udp { start_udp_target(nonce, 0, 1, false).await.ok() } else { None };
    let spec = |id: u64, kind: LocalKind| FlowSpec { id, kind, c2s: 3000, s2c: 3000, write_c: 900, write_s: 900, pause_ms: 0, pattern: Pattern::RequestResponse, closer: Closer::TargetAfterAnswer };
    let base = (idx as u64) << 20;
    let r = run_batch(reg.clone(), &d, target.port, vec![spec(base + 1, LocalKind::Socks5V4)], 1, Duration::from_secs(15)).await;
    if r.iter().any(|(_, v)| v.symptom.is_some()) {
        rep.inconclusive(format!("{cfgname}: the control flow is not relayed before any hostile input (judged by C01)"));
        return rep;
    }
    let (mut seen_c, mut seen_s) = (0usize, 0usize);

    // ---------------- part D (opened first, judged last): peers that begin a handshake and then say nothing more, held
    // open until every handshake timer of client and server has fired (the client gives a local handshake 30 s)
    let stalled_since = tokio::time::Instant::now();
    let mut stalled: Vec<tokio::net::TcpStream> = Vec::new();
    {
        use tokio::io::AsyncWriteExt;
        let local: Vec<Vec<u8>> = vec![
            vec![],
            vec![5],
            vec![5, 1],
            vec![5, 1, 0, 5, 1, 0, 3, 9, b'l', b'o'],
            vec![5, 1, 0, 5, 1, 0, 1, 127, 0],
            b"G".to_vec(),
            b"GET http://localhost:80/ HTTP/1.1\r\nHost: loc".to_vec(),
            b"GET http://localhost:80/ HTTP/1.1\r\nHost: localhost\r\n".to_vec(),
            b"CONNECT localhost:80 HTTP/1.1\r\n".to_vec(),
            b"CONNECT localhost:80 HTTP/1.1\r\nHost: localhost:80\r\n\r".to_vec(),
            vec![4, 1, 0, 80],
        ];
        for w in local {
            if let Ok(mut c) = tokio::net::TcpStream::connect(("127.0.0.1", d.client_port)).await {
                let _ = c.set_nodelay(true);
                let _ = c.write_all(&w).await;
                stalled.push(c);
                rep.evaluations += 1;
                rep.mon("stalled-handshakes-held-until-the-timers-fire:local-application", 1);
            }
        }
        // towards the server (raw TCP to the listening port: a TLS / WebSocket / protocol handshake that never goes on)
        if !matches!(transport, Transport::Quic) {
            let mut c0 = RefClient::new(&cfg, &Addr::V4([127, 0, 0, 1], target.port), &mut rng, now_s(), ClientOpts::default());
            let first = c0.write(b"never finished", &mut rng);
            let server_side: Vec<Vec<u8>> = vec![vec![], vec![0x16, 3, 1], b"GET /ws HTTP/1.1\r\nHost: localhost\r\nUpgrade: websocket\r\n".to_vec(), first[..first.len().min(10)].to_vec(), first[..first.len() / 2].to_vec()];
            for w in server_side {
                if let Ok(mut c) = tokio::net::TcpStream::connect(("127.0.0.1", d.server_port)).await {
                    let _ = c.write_all(&w).await;
                    stalled.push(c);
                    rep.evaluations += 1;
                    rep.mon("stalled-handshakes-held-until-the-timers-fire:server-peer", 1);
                }
            }
        }
    }

    // ---------------- part A: hostile streams to the server
    let now = now_s();
    let mut wires: Vec<(String, Vec<u8>)> = Vec::new();
    for len in [0usize, 1, 2, 15, 16, 17, 31, 32, 33, 47, 48, 49, 50, 55, 56, 57, 58, 59, 60, 61, 62, 63, 64, 65, 100, 300, 2000, 70000] {
        wires.push(("random-bytes".into(), rng.bytes(len)));
    }
    // requests the server accepts must get an answer to encode: a target that speaks first (200 bytes) and echoes,
    // and for datagram associations the UDP echo target
    let greeter = super::c12::start_greeter().await;
    let echo_addr = Addr::V4([127, 0, 0, 1], greeter.as_ref().map(|g| g.0).unwrap_or(target.port));
    // ---------------- part D': peers that are SLOW, not silent - the path holds the transport handshake (or, over plain tcp,
    // the request) for 12 s after its first bytes, then everything goes on and a perfectly valid request follows. Opened
    // now, judged with part D.
    let mut slow: Vec<tokio::task::JoinHandle<Option<usize>>> = Vec::new();
    let mut slow_paths = Vec::new();
    if !matches!(transport, Transport::Quic) {
        for after in [3usize, 40] {
            let Some((pport, h)) = super::pipe::slow_path(d.server_port, after, Duration::from_secs(12)).await else { continue };
            slow_paths.push(h);
            let mut c = RefClient::new(&cfg, &echo_addr, &mut rng, now_s() + 12, ClientOpts::default());
            let w = c.write(b"a valid request behind a slow handshake", &mut rng);
            rep.evaluations += 1;
            rep.mon("slow-handshakes-held-for-12-s-then-completed:opened", 1);
            slow.push(tokio::spawn(async move {
                let mut p = Pipe::connect_within(transport, pport, Duration::from_secs(20)).await.ok()?;
                p.send(&w).await.ok()?;
                let mut got = 0usize;
                while let Ok(Ok(Some(b))) = tokio::time::timeout(Duration::from_secs(16), p.recv()).await {
                    got += b.len();
                    if got > 0 {
                        break;
                    }
                }
                p.abort();
                Some(got)
            }));
        }
    }
    let dgram_addr = Addr::V4([127, 0, 0, 1], udp_target.as_ref().map(|t| t.port).unwrap_or(target.port));
    let n_mut = if a.thorough { 60 } else { 16 };
    for k in 0..n_mut {
        let vopt = *rng.pick(&vmess::VALID_OPTION_MASKS);
        let mut c = RefClient::new(&cfg, &echo_addr, &mut rng, now, ClientOpts { vmess_option: vopt, ..Default::default() });
        let n1 = *rng.pick(&[1usize, 60, 900]);
        let (b1, b2) = (rng.bytes(n1), rng.bytes(50));
        let mut w = c.write(&b1, &mut rng);
        w.extend_from_slice(&c.write(&b2, &mut rng));
        match k % 3 {
            0 => {
                let pos = rng.below(w.len() as u64) as usize;
                w[pos] ^= 1 << rng.below(8);
                wires.push(("valid-request-bit-flipped".into(), w));
            }
            1 => {
                let cut = rng.below(w.len() as u64) as usize;
                w.truncate(cut);
                wires.push(("valid-request-truncated".into(), w));
            }
            _ => {
                w.extend_from_slice(&rng.bytes(90));
                wires.push(("valid-request-then-garbage".into(), w));
            }
        }
    }
    for (label, t) in unusual_targets(target.port, &mut rng) {
        let mut c = RefClient::new(&cfg, &t, &mut rng, now, ClientOpts::default());
        let b = rng.bytes(120);
        let w = c.write(&b, &mut rng);
        wires.push((format!("valid-request-for-{label}"), w));
        if !matches!(proto, Proto::Ss(_)) {
            let mut c = RefClient::new(&cfg, &t, &mut rng, now, ClientOpts { dgram: true, ..Default::default() });
            let (b1, b2) = (rng.bytes(60), rng.bytes(3000));
            let mut w = c.write(&b1, &mut rng);
            w.extend_from_slice(&c.write(&[], &mut rng));
            w.extend_from_slice(&c.write(&b2, &mut rng));
            wires.push((format!("valid-datagram-association-for-{label}"), w));
        }
    }
    {
        let one_in = if a.thorough { 4 } else { 24 };
        let mut r2 = Rng::derive(a.seed, 0xC07F, idx as u64);
        let mut push = |what: &str, w: Vec<u8>| {
            if r2.chance(1, one_in) {
                wires.push((format!("authenticated-malformed:{what}"), w));
            }
        };
        server_malformed_wires(&cfg, false, &echo_addr, now, &mut rng, &mut push);
        if !matches!(proto, Proto::Ss(_)) {
            server_malformed_wires(&cfg, true, &dgram_addr, now, &mut rng, &mut push);
        }
    }
    // VMess: requests that are valid in every respect but carry an unusual option mask (none of the known bits, unknown
    // bits only, all bits) - always presented, not sampled: the server accepts them, dials the greeter and has to encode
    // an answer for a request whose options it has never been shown by its own client
    if let Proto::Vmess(sec) = proto {
        let ck = cfg.ref_cmd_keys()[cfg.client_uuid];
        for opt in [0x00u8, 0x20, 0x40, 0x80, 0xE0, 0x02, 0x03, 0x08, 0x10, 0x1F, 0xFF] {
            for cmd in [vmess::CMD_TCP, vmess::CMD_UDP] {
                let addr = if cmd == vmess::CMD_UDP { dgram_addr.clone() } else { echo_addr.clone() };
                let h = vmess::RequestHeader { version: 1, body_iv: rng.arr(), body_key: rng.arr(), resp_v: 9, option: opt, padding: rng.bytes(3), security: sec, reserved: 0, command: cmd, addr };
                let aid = vmess::make_auth_id(&ck, now as i64, rng.next_u32());
                let mut w = vmess::seal_request_header(&ck, &h, &aid, &rng.arr());
                w.extend_from_slice(&rng.bytes(40));
                wires.push(("valid-request-with-unusual-option-mask".into(), w));
            }
        }
    }
    let sem = Arc::new(tokio::sync::Semaphore::new(8));
    let mut hs = Vec::new();
    for (k, (class, w)) in wires.iter().enumerate() {
        let cuts = match k % 3 {
            0 => vec![],
            1 => gen::random_cuts(&mut rng, w.len(), 3),
            _ => (1..w.len().min(24)).collect(),
        };
        let ending = [Ending::FinThenRead, Ending::AbortAtOnce, Ending::AbortLater, Ending::FinThenHold][rng.below(4) as usize];
        let (sem, w, port) = (sem.clone(), w.clone(), d.server_port);
        rep.evaluations += 1;
        rep.mon(&format!("to-server:{}", class.split(':').next().unwrap_or(class).split("-for-").next().unwrap_or(class)), 1);
        hs.push(tokio::spawn(async move {
            let _g = sem.acquire_owned().await.unwrap();
            tokio::time::timeout(Duration::from_secs(8), deliver(transport, port, w, cuts, ending)).await.map_err(|_| "watchdog".to_string()).and_then(|r| r)
        }));
    }
    let mut undelivered = 0u64;
    for h in hs {
        if !matches!(h.await, Ok(Ok(()))) {
            undelivered += 1;
        }
    }
    rep.mon("hostile_streams_written_to_a_server", wires.len() as u64 - undelivered);
    rep.mon("hostile_streams_whose_transport_could_not_be_opened", undelivered);
    // WebSocket listeners: hand-written upgrade requests and frames (what no client library would send)
    if matches!(transport, Transport::Ws | Transport::Wss) {
        let mut c = RefClient::new(&cfg, &echo_addr, &mut rng, now_s(), ClientOpts::default());
        let b = rng.bytes(200);
        let request = c.write(&b, &mut rng);
        let scripts = ws_raw_scripts(d.server_port, &request, &mut rng);
        let mut hs = Vec::new();
        for (class, up, frames) in scripts {
            let sem = sem.clone();
            let port = d.server_port;
            rep.evaluations += 1;
            hs.push(tokio::spawn(async move {
                let _g = sem.acquire_owned().await.unwrap();
                let r = tokio::time::timeout(Duration::from_secs(6), deliver_ws_raw(transport == Transport::Wss, port, up, frames)).await;
                (class, matches!(r, Ok(Ok(true))))
            }));
        }
        for h in hs {
            if let Ok((_class, upgraded)) = h.await {
                rep.mon("to-server:hand-written-websocket-clients", 1);
                if upgraded {
                    rep.mon("to-server:hand-written-websocket-clients-that-were-upgraded", 1);
                }
            }
        }
    }
    // Shadowsocks: the datagram relay of the server
    if let (Proto::Ss(m), true) = (proto, udp) {
        let s = UdpSocket::bind("127.0.0.1:0").await.unwrap();
        let keys = cfg.ref_client_keys();
        let mut n = 0u64;
        for (_class, to_server, dg) in ss_udp_hostile_datagrams(&cfg, m, now, rng.next_u64(), &mut rng, idx % 3) {
            if to_server && dg.len() <= 65000 {
                let _ = s.send_to(&dg, ("127.0.0.1", d.server_port)).await;
                n += 1;
                if n % 64 == 0 {
                    tokio::time::sleep(Duration::from_millis(5)).await;
                }
            }
        }
        let ut = udp_target.as_ref().map(|t| t.port).unwrap_or(9);
        for (_label, t) in unusual_targets(ut, &mut rng) {
            for pl in [0usize, 1, 1200] {
                let w = if m.is_2022() {
                    let p = ss::S22UdpPacket { session_id: rng.next_u64(), packet_id: 1, type_byte: 0, timestamp: now_s(), client_session_id: None, padding: rng.bytes(pl % 7), addr: t.clone(), payload: rng.bytes(pl) };
                    ss::s22_udp_client_encode(m, &keys, &p, &rng.arr())
                } else {
                    ss::sip004_udp_encode(m, &keys.psk, &rng.bytes(m.key_len()), &t, &rng.bytes(pl))
                };
                let _ = s.send_to(&w, ("127.0.0.1", d.server_port)).await;
                n += 1;
            }
        }
        rep.evaluations += n;
        rep.mon("hostile_datagrams_sent_to_a_server", n);
        tokio::time::sleep(Duration::from_millis(300)).await;
    }
    tokio::time::sleep(Duration::from_millis(300)).await;
    report_node(&mut rep, &cfgname, "serving-hostile-peers", "server", &mut pair.server, &mut seen_s, &d, a.seed);
    // the service goes on
    let r = run_batch(reg.clone(), &d, target.port, vec![spec(base + 2, LocalKind::HttpConnect)], 1, Duration::from_secs(15)).await;
    rep.mon("canary_flows_after_the_hostile_input", 1);
    if let Some((_, v)) = r.iter().find(|(_, v)| v.symptom.is_some()) {
        // believed only if it reproduces
        let r2 = run_batch(reg.clone(), &d, target.port, vec![spec(base + 3, LocalKind::Socks5V4)], 1, Duration::from_secs(15)).await;
        if r2.iter().any(|(_, v)| v.symptom.is_some()) {
            rep.violation(format!("C07|nodes|server|{}|no-service-after-hostile-input", cfgname), format!("{cfgname}: after the hostile input a fresh flow is not relayed: {}", v.symptom.clone().unwrap_or_default()), json!({"seed": a.seed, "deploy": d.describe()}));
        }
    }
    if let (true, Some(t)) = (udp, &udp_target) {
        rep.mon("canary_datagram_exchanges_after_the_hostile_input", 1);
        if let Err(e) = udp_canary(d.client_port, t.port, nonce, 700).await {
            if udp_canary(d.client_port, t.port, nonce, 701).await.is_err() {
                rep.violation(format!("C07|nodes|server|{}|no-datagram-service-after-hostile-input", cfgname), format!("{cfgname}: after the hostile input datagrams of a fresh application are not relayed: {e}"), json!({"seed": a.seed, "deploy": d.describe()}));
            }
        }
    }
    report_node(&mut rep, &cfgname, "serving-hostile-peers", "server", &mut pair.server, &mut seen_s, &d, a.seed);
    report_node(&mut rep, &cfgname, "relaying-next-to-hostile-peers", "client", &mut pair.client, &mut seen_c, &d, a.seed);
    rep.case(&(idx, "server-under-attack"), true);

    // ---------------- part C: local applications that name odd targets (SOCKS5 CONNECT, HTTP CONNECT, plain HTTP, SOCKS5 UDP)
    {
        let names = odd_names();
        let mut hs = Vec::new();
        for (k, n) in names.iter().enumerate() {
            let (n, sem, cport) = (n.clone(), sem.clone(), d.client_port);
            let port = [80u16, 0, target.port][k % 3];
            rep.evaluations += 3;
            hs.push(tokio::spawn(async move {
                let _g = sem.acquire_owned().await.unwrap();
                odd_socks5_connect(cport, &n, port).await;
                odd_http(cport, &n, port, true).await;
                odd_http(cport, &n, port, false).await;
            }));
        }
        for h in hs {
            let _ = h.await;
        }
        rep.mon("from-local-applications:odd-target-names-over-socks5-and-http", 3 * names.len() as u64);
        if udp {
            if let Ok(s) = UdpSocket::bind("127.0.0.1:0").await {
                let mut n = 0u64;
                for name in names.iter() {
                    for port in [53u16, 0] {
                        let mut dg = vec![0u8, 0, 0, 3, name.len() as u8];
                        dg.extend_from_slice(name);
                        dg.extend_from_slice(&port.to_be_bytes());
                        dg.extend_from_slice(b"odd");
                        let _ = s.send_to(&dg, ("127.0.0.1", d.client_port)).await;
                        n += 1;
                    }
                    tokio::time::sleep(Duration::from_millis(4)).await;
                }
                for dg in [vec![0u8, 0, 0, 1, 0, 0, 0, 0, 0, 0, b'x'], vec![0, 0, 0, 1, 255, 255, 255, 255, 0, 9, b'x'], [vec![0u8, 0, 0, 4], vec![0u8; 16], vec![0, 0, b'x']].concat(), [vec![0u8, 0, 0, 4], vec![0xffu8; 16], vec![0, 53, b'x']].concat()] {
                    let _ = s.send_to(&dg, ("127.0.0.1", d.client_port)).await;
                    n += 1;
                }
                // names that are the raw octets of an address literal (a table keyed by the target must not take the name
                // "\x7f\0\0\x01" for 127.0.0.1), mixed with that literal on the same port and with datagrams whose sending fails
                // (too large to be wrapped), from ONE application socket - and then the application goes on
                if let Ok(s2) = UdpSocket::bind("127.0.0.1:0").await {
                    let port = udp_target.as_ref().map(|t| t.port).unwrap_or(9);
                    let raw_name = |octets: &[u8], payload: &[u8]| {
                        let mut dg = vec![0u8, 0, 0, 3, octets.len() as u8];
                        dg.extend_from_slice(octets);
                        dg.extend_from_slice(&port.to_be_bytes());
                        dg.extend_from_slice(payload);
                        dg
                    };
                    let big = vec![0x55u8; 65450];
                    let script: Vec<Vec<u8>> = vec![
                        socks5_udp("127.0.0.1", port, b"literal first"),
                        raw_name(&[127, 0, 0, 1], &big),
                        socks5_udp("127.0.0.1", port, b"literal again"),
                        raw_name(&[127, 0, 0, 1], b"octets as a name"),
                        socks5_udp("127.0.0.1", port, &big),
                        raw_name(&[0, 0, 0, 0, 0, 0, 0, 0, 0, 0, 0, 0, 0, 0, 0, 1], &big),
                        [vec![0u8, 0, 0, 4], vec![0u8; 15], vec![1], port.to_be_bytes().to_vec(), b"v6 literal".to_vec()].concat(),
                        raw_name(&[0, 0, 0, 0, 0, 0, 0, 0, 0, 0, 0, 0, 0, 0, 0, 1], b"v6 octets as a name"),
                        socks5_udp("127.0.0.1", port, b"and on"),
                        socks5_udp("127.0.0.1", port, b"and on"),
                    ];
                    for dg in script {
                        let _ = s2.send_to(&dg, ("127.0.0.1", d.client_port)).await;
                        tokio::time::sleep(Duration::from_millis(40)).await;
                        n += 1;
                    }
                    // ... and goes on to 70 further targets: more than the binding table holds, so that whatever the history
                    // above left behind in the table travels to its oldest end and is looked at when room is made
                    for k in 0..70u16 {
                        let _ = s2.send_to(&socks5_udp("127.0.0.1", 20000 + k, b"next target"), ("127.0.0.1", d.client_port)).await;
                        tokio::time::sleep(Duration::from_millis(5)).await;
                        n += 1;
                    }
                    tokio::time::sleep(Duration::from_millis(200)).await;
                    rep.mon("from-local-applications:literal-octets-as-names-and-failing-sends-from-one-socket", 80);
                }
                rep.evaluations += n;
                rep.mon("from-local-applications:odd-target-names-over-socks5-udp", n);
                tokio::time::sleep(Duration::from_millis(500)).await;
            }
        }
        report_node(&mut rep, &cfgname, "serving-applications-that-name-odd-targets", "client", &mut pair.client, &mut seen_c, &d, a.seed);
        report_node(&mut rep, &cfgname, "relaying-for-odd-targets", "server", &mut pair.server, &mut seen_s, &d, a.seed);
        let r = run_batch(reg.clone(), &d, target.port, vec![spec(base + 4, LocalKind::Socks5Domain)], 1, Duration::from_secs(15)).await;
        rep.mon("canary_flows_after_the_hostile_input", 1);
        if let Some((_, v)) = r.iter().find(|(_, v)| v.symptom.is_some()) {
            let r2 = run_batch(reg.clone(), &d, target.port, vec![spec(base + 5, LocalKind::Socks5V4)], 1, Duration::from_secs(15)).await;
            if r2.iter().any(|(_, v)| v.symptom.is_some()) {
                rep.violation(format!("C07|nodes|client|{}|no-service-after-odd-target-names", cfgname), format!("{cfgname}: after applications named odd targets a fresh flow is not relayed: {}", v.symptom.clone().unwrap_or_default()), json!({"seed": a.seed, "deploy": d.describe()}));
            }
        }
        if let (true, Some(t)) = (udp, &udp_target) {
            rep.mon("canary_datagram_exchanges_after_the_hostile_input", 1);
            if let Err(e) = udp_canary(d.client_port, t.port, nonce, 710).await {
                if udp_canary(d.client_port, t.port, nonce, 711).await.is_err() {
                    rep.violation(format!("C07|nodes|client|{}|no-datagram-service-after-odd-target-names", cfgname), format!("{cfgname}: after applications named odd targets datagrams of a fresh application are not relayed: {e}"), json!({"seed": a.seed, "deploy": d.describe(), "client_log": pair.client.log_tail(10)}));
                }
            }
        }
        report_node(&mut rep, &cfgname, "serving-applications-that-name-odd-targets", "client", &mut pair.client, &mut seen_c, &d, a.seed);
        rep.case(&(idx, "odd-local-applications"), true);
    }

    // ---------------- part B: the client behind a hostile server (plain tcp, or websocket when the configuration uses one)
    let ws = matches!(transport, Transport::Ws | Transport::Wss);
    match start_hostile(&cfg, ws, a.seed ^ (idx as u64) << 8, a.thorough).await {
        Err(e) => rep.inconclusive(format!("hostile server does not start: {e}")),
        Ok(h) => {
            let mut d2 = d.clone();
            d2.transport = if ws { Transport::Ws } else { Transport::Tcp };
            d2.server_port = h.port;
            d2.client_port = free_port();
            d2.udp = true;
            d2.client_mode = "tcp_and_udp".into();
            let (dj, ddir, t, lvl, cport) = (d2.client_json(), d2.dir.clone(), format!("c07-{idx}-victim"), d2.log_level.clone(), d2.client_port);
            let node = tokio::task::spawn_blocking(move || {
                let mut n = start_node("client", &dj, &ddir, &t, 2, &lvl, None, None).map_err(|e| e.to_string())?;
                wait_ready(&mut n, Some(cport), Some(cport), Duration::from_secs(15))?;
                Ok::<Node, String>(n)
            })
            .await
            .unwrap();
            match node {
                Err(e) => rep.inconclusive(format!("{cfgname}: second client does not start: {}", e.lines().next().unwrap_or(""))),
                Ok(mut victim) => {
                    let mut seen_v = 0usize;
                    let n_flows = if a.thorough { 160 } else { 56 };
                    let sem = Arc::new(tokio::sync::Semaphore::new(8));
                    let mut hs = Vec::new();
                    for k in 0..n_flows {
                        let sem = sem.clone();
                        let kind = [LocalKind::Socks5V4, LocalKind::Socks5Domain, LocalKind::HttpConnect][k % 3];
                        let sd = rng.next_u64();
                        hs.push(tokio::spawn(async move {
                            let _g = sem.acquire_owned().await.unwrap();
                            app_flow_unjudged(cport, kind, [1usize, 200, 5000][k % 3], sd).await
                        }));
                    }
                    for hnd in hs {
                        let _ = hnd.await;
                    }
                    rep.evaluations += n_flows as u64;
                    // datagrams: Shadowsocks goes to the hostile UDP socket, VMess / Trojan open datagram-in-stream associations
                    let n_apps = if a.thorough { 12 } else { 5 };
                    for app in 0..n_apps {
                        if let Ok(s) = UdpSocket::bind("127.0.0.1:0").await {
                            for seq in 0..3u32 {
                                let p = make_payload(nonce, 800 + app as u16, 0, seq, 100, 0);
                                let _ = s.send_to(&socks5_udp(if seq == 1 { "victim.example" } else { "127.0.0.1" }, 5353, &p), ("127.0.0.1", cport)).await;
                                tokio::time::sleep(Duration::from_millis(30)).await;
                            }
                            // whatever comes back is not judged here (C02 / C05 do); the client must survive it
                            let mut buf = vec![0u8; 70000];
                            let _ = tokio::time::timeout(Duration::from_millis(250), s.recv_from(&mut buf)).await;
                            rep.evaluations += 3;
                        }
                    }
                    tokio::time::sleep(Duration::from_millis(400)).await;
                    for (k, v) in h.by_class.lock().unwrap().iter() {
                        rep.mon(&format!("from-hostile-server:{k}"), *v);
                    }
                    rep.mon("connections_the_hostile_server_answered", h.served.load(Ordering::SeqCst));
                    report_node(&mut rep, &cfgname, "reading-a-hostile-server", "client", &mut victim, &mut seen_v, &d2, a.seed);
                    // the same client, the server now well-behaved: it must still relay
                    h.good.store(true, Ordering::SeqCst);
                    rep.mon("canary_flows_after_the_hostile_input", 1);
                    if let Err(e) = echo_canary(cport, rng.next_u64()).await {
                        rep.violation(format!("C07|nodes|client|{}|no-service-after-hostile-answers", cfgname), format!("{cfgname}: after hostile answers the client does not relay a fresh flow: {e}"), json!({"seed": a.seed, "client": d2.client_json(), "log": victim.log_tail(10)}));
                    }
                    if matches!(proto, Proto::Ss(_)) {
                        rep.mon("canary_datagram_exchanges_after_the_hostile_input", 1);
                        if let Err(e) = udp_canary(cport, 5353, nonce, 900).await {
                            if udp_canary(cport, 5353, nonce, 901).await.is_err() {
                                rep.violation(format!("C07|nodes|client|{}|no-datagram-service-after-hostile-answers", cfgname), format!("{cfgname}: after hostile datagram answers the client does not relay a fresh application's datagrams: {e}"), json!({"seed": a.seed, "client": d2.client_json(), "log": victim.log_tail(10)}));
                            }
                        }
                    }
                    report_node(&mut rep, &cfgname, "reading-a-hostile-server", "client", &mut victim, &mut seen_v, &d2, a.seed);
                    rep.case(&(idx, "client-under-attack"), h.served.load(Ordering::SeqCst) > 0);
                }
            }
        }
    }
    if idx == 0 {
        rep.sample(json!({"config": cfgname, "part_a": {"hostile_streams": wires.len(), "classes": wires.iter().map(|w| w.0.split(':').next().unwrap_or("").to_string()).collect::<std::collections::BTreeSet<_>>()}, "part_b": "hostile reference server: close / reset / silence / random / bit-flipped, truncated, garbage-continued and authenticated-malformed answers; malformed datagram frames and datagrams", "monitors": "panic recorder of osv-node, liveness, canary flow and datagram after each part"}));
    }
    // ---------------- part D, judged: the stalled handshakes have been held for longer than any handshake timer
    {
        let held = stalled_since.elapsed();
        if held < Duration::from_secs(33) {
            tokio::time::sleep(Duration::from_secs(33) - held).await;
        }
        rep.mon("seconds_the_stalled_handshakes_were_held", stalled_since.elapsed().as_secs());
        for h in slow.drain(..) {
            match tokio::time::timeout(Duration::from_secs(25), h).await {
                Ok(Ok(Some(n))) if n > 0 => rep.mon("slow-handshakes-held-for-12-s-then-completed:answered", 1),
                _ => rep.mon("slow-handshakes-held-for-12-s-then-completed:not-answered", 1),
            }
        }
        for h in slow_paths.drain(..) {
            h.abort();
        }
        report_node(&mut rep, &cfgname, "timing-out-peers-that-stall-mid-handshake", "client", &mut pair.client, &mut seen_c, &d, a.seed);
        report_node(&mut rep, &cfgname, "timing-out-peers-that-stall-mid-handshake", "server", &mut pair.server, &mut seen_s, &d, a.seed);
        let r = run_batch(reg.clone(), &d, target.port, vec![spec(base + 6, LocalKind::Socks5V4)], 1, Duration::from_secs(15)).await;
        if let Some((_, v)) = r.iter().find(|(_, v)| v.symptom.is_some()) {
            let r2 = run_batch(reg.clone(), &d, target.port, vec![spec(base + 7, LocalKind::HttpConnect)], 1, Duration::from_secs(15)).await;
            if r2.iter().any(|(_, v)| v.symptom.is_some()) {
                rep.violation(format!("C07|nodes|client|{}|no-service-after-stalled-handshakes", cfgname), format!("{cfgname}: after stalled handshakes timed out a fresh flow is not relayed: {}", v.symptom.clone().unwrap_or_default()), json!({"seed": a.seed, "deploy": d.describe()}));
            }
        }
        rep.case(&(idx, "stalled-handshakes"), !stalled.is_empty());
        drop(stalled);
    }
    if let Some(g) = &greeter {
        g.1.abort();
    }
    drop(target);
    drop(pair);
    if std::env::var("OSV_KEEP_LOGS").is_err() {
        let _ = std::fs::remove_dir_all(&dir);
    }
    rep
}

pub async fn run(a: &Args) -> Report {
    let mut m: Vec<(Proto, Transport)> = Vec::new();
    for (i, p) in all_protos().into_iter().enumerate() {
        if a.thorough {
            for t in ALL_TRANSPORTS {
                m.push((p, t));
            }
        } else {
            m.push((p, ALL_TRANSPORTS[(i + a.seed as usize) % 5]));
        }
    }
    if !a.thorough {
        // every transport at least twice, the datagram-capable Trojan transport included
        m.push((Proto::Trojan, Transport::Tls));
        m.push((Proto::Vmess(3), ALL_TRANSPORTS[(a.seed as usize + 2) % 5]));
    }
    let sem = Arc::new(tokio::sync::Semaphore::new(if a.thorough { 8 } else { 6 }));
    let mut hs = Vec::new();
    for (idx, (p, t)) in m.into_iter().enumerate() {
        let a = a.clone();
        let sem = sem.clone();
        hs.push(tokio::spawn(async move {
            let _g = sem.acquire_owned().await.unwrap();
            one_config(a, idx, p, t).await
        }));
    }
    let mut rep = Report::new();
    for h in hs {
        if let Ok(r) = h.await {
            rep.merge(r);
        }
    }
    rep
}
