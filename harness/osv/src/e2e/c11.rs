//! C11 at node level - each UDP packet id is accepted at most once, in any arrival order, and a refusal costs that
//! packet only. A reference Shadowsocks 2022 client sends datagrams with scripted packet-id histories (duplicates,
//! stale ids, reordering, window jumps) of one session to a real server; an echo target logs what arrives. The log is
//! compared with the explicit set model of the property; afterwards fresh ids of the same session must still arrive.

use std::collections::{BTreeSet, HashMap};
use std::sync::Arc;
use std::time::Duration;

use serde_json::json;
use tokio::net::UdpSocket;

use super::c01::work_dir;
use super::nodes::*;
use crate::checks::Args;
use crate::prng::Rng;
use crate::real::{Cfg, Proto};
use crate::report::Report;

const WINDOW: u64 = 8128;

/// The property's model: accept iff never accepted before and not older than the window below the highest accepted id.
#[derive(Default)]
struct Model {
    accepted: BTreeSet<u64>,
}

impl Model {
    fn offer(&mut self, id: u64) -> bool {
        if id >= u64::MAX || self.accepted.contains(&id) {
            return false;
        }
        if let Some(h) = self.accepted.iter().next_back() {
            if id < *h && *h - id > WINDOW {
                return false;
            }
        }
        self.accepted.insert(id);
        true
    }
}

fn history(rng: &mut Rng, style: u64) -> Vec<u64> {
    let mut v = Vec::new();
    match style % 4 {
        0 => {
            // in order with duplicates
            for i in 1..40u64 {
                v.push(i);
                if rng.chance(1, 3) {
                    v.push(i);
                }
                if rng.chance(1, 5) && i > 3 {
                    v.push(i - rng.below(3) - 1);
                }
            }
        }
        1 => {
            // reordered within the window
            let mut ids: Vec<u64> = (1..60).collect();
            for i in (1..ids.len()).rev() {
                let j = rng.below(i as u64 + 1) as usize;
                ids.swap(i, j);
            }
            v = ids.clone();
            v.extend(ids.iter().take(20));
        }
        2 => {
            // jumps across the window edge, then stale ids
            let base = 10_000 + rng.below(1000);
            v.extend([5, 6, base, base - WINDOW, base - WINDOW - 1, base - WINDOW + 1, 6, 7, base - 1, base - 1, base + WINDOW, base, base + 1, base + 2 * WINDOW + 5, base + WINDOW]);
        }
        _ => {
            // large ids
            let top = u64::MAX - 20_000;
            v.extend([1, top, top + 1, top, 2, top - WINDOW, top - WINDOW - 1, top + 100, top + 100, u64::MAX - 1, u64::MAX - 1]);
        }
    }
    v
}

async fn one_config(a: Args, idx: usize, m: refimpl::ss::Method, users: usize) -> Report {
    let mut rep = Report::new();
    let mut rng = Rng::derive(a.seed, 0xC11E, idx as u64);
    let cfg = Cfg::random(&mut rng, Proto::Ss(m), users);
    let dir = work_dir(&a, &format!("c11-{idx}"));
    let mut d = Deploy::new(cfg.clone(), Transport::Tcp, true, 2, &dir);
    d.server_mode = Some("tcp_and_udp".into());
    let cfgname = format!("{}|users={}", m.name(), users);
    let (dd, tag) = (d.clone(), format!("c11-{idx}"));
    let started = tokio::task::spawn_blocking(move || {
        let mut server = start_node("server", &dd.server_json(), &dd.dir, &tag, dd.workers, &dd.log_level, None, None).map_err(|e| e.to_string())?;
        wait_ready(&mut server, Some(dd.server_port), Some(dd.server_port), Duration::from_secs(15))?;
        Ok::<Node, String>(server)
    })
    .await
    .unwrap();
    let mut server = match started {
        Ok(s) => s,
        Err(e) => {
            rep.inconclusive(format!("server does not start: {}", e.lines().next().unwrap_or("")));
            return rep;
        }
    };
    // echo target that logs (session tag, packet id) carried in the payload
    let t = UdpSocket::bind("127.0.0.1:0").await.unwrap();
    let tport = t.local_addr().unwrap().port();
    let log: Arc<std::sync::Mutex<Vec<(u64, u64)>>> = Arc::new(std::sync::Mutex::new(Vec::new()));
    let l2 = log.clone();
    let echo = tokio::spawn(async move {
        let mut b = vec![0u8; 4096];
        while let Ok((n, from)) = t.recv_from(&mut b).await {
            if n >= 16 {
                l2.lock().unwrap().push((u64::from_be_bytes(b[..8].try_into().unwrap()), u64::from_be_bytes(b[8..16].try_into().unwrap())));
            }
            let _ = t.send_to(&b[..n], from).await;
        }
    });
    let keys = cfg.ref_client_keys();
    let target = refimpl::addr::Addr::V4([127, 0, 0, 1], tport);
    // in real time, beside the histories below: a session sends ids 1..5 and falls silent; 26 s later - its datagrams'
    // timestamps are still acceptable - a verbatim copy of id 3 arrives. Whatever the server does with idle sessions
    // meanwhile, that id has been accepted before.
    let idle_session = rng.next_u64();
    let idle = {
        let (keys, target, port, mut rng2) = (keys.clone(), target.clone(), d.server_port, Rng::derive(a.seed, 0xC11D, idx as u64));
        tokio::spawn(async move {
            let s = UdpSocket::bind("127.0.0.1:0").await.unwrap();
            let now = std::time::SystemTime::now().duration_since(std::time::UNIX_EPOCH).unwrap().as_secs();
            let mut copy = Vec::new();
            for id in 1..=5u64 {
                let mut payload = idle_session.to_be_bytes().to_vec();
                payload.extend_from_slice(&id.to_be_bytes());
                payload.extend_from_slice(&rng2.bytes(20));
                let p = refimpl::ss::S22UdpPacket { session_id: idle_session, packet_id: id, type_byte: 0, timestamp: now, client_session_id: None, padding: vec![], addr: target.clone(), payload };
                let w = refimpl::ss::s22_udp_client_encode(m, &keys, &p, &rng2.arr());
                let _ = s.send_to(&w, ("127.0.0.1", port)).await;
                if id == 3 {
                    copy = w;
                }
                tokio::time::sleep(Duration::from_millis(5)).await;
            }
            tokio::time::sleep(Duration::from_secs(26)).await;
            let age = std::time::SystemTime::now().duration_since(std::time::UNIX_EPOCH).unwrap().as_secs() - now;
            let s2 = UdpSocket::bind("127.0.0.1:0").await.unwrap();
            let _ = s.send_to(&copy, ("127.0.0.1", port)).await;
            tokio::time::sleep(Duration::from_millis(50)).await;
            let _ = s2.send_to(&copy, ("127.0.0.1", port)).await;
            tokio::time::sleep(Duration::from_millis(400)).await;
            age
        })
    };
    let n_hist = if a.thorough { 16 } else { 6 };
    for h in 0..n_hist {
        let s = UdpSocket::bind("127.0.0.1:0").await.unwrap();
        let session = rng.next_u64();
        let ids = history(&mut rng, h as u64);
        let mut model = Model::default();
        let mut expect: HashMap<u64, u32> = HashMap::new();
        let now = std::time::SystemTime::now().duration_since(std::time::UNIX_EPOCH).unwrap().as_secs();
        let send = |id: u64, rng: &mut Rng| {
            let mut payload = session.to_be_bytes().to_vec();
            payload.extend_from_slice(&id.to_be_bytes());
            payload.extend_from_slice(&rng.bytes(20));
            let p = refimpl::ss::S22UdpPacket { session_id: session, packet_id: id, type_byte: 0, timestamp: now, client_session_id: None, padding: vec![], addr: target.clone(), payload };
            refimpl::ss::s22_udp_client_encode(m, &keys, &p, &rng.arr())
        };
        for id in ids.iter() {
            if model.offer(*id) {
                *expect.entry(*id).or_insert(0) += 1;
            }
            let w = send(*id, &mut rng);
            let _ = s.send_to(&w, ("127.0.0.1", d.server_port)).await;
            // one at a time: arrival order at the server is the order of the history
            tokio::time::sleep(Duration::from_millis(3)).await;
            rep.evaluations += 1;
        }
        // fresh ids after the refusals: the session must go on
        let top = model.accepted.iter().next_back().copied().unwrap_or(0);
        let fresh: Vec<u64> = (1..=5).filter_map(|k| top.checked_add(k)).collect();
        for id in fresh.iter() {
            if model.offer(*id) {
                *expect.entry(*id).or_insert(0) += 1;
            }
            let w = send(*id, &mut rng);
            let _ = s.send_to(&w, ("127.0.0.1", d.server_port)).await;
            tokio::time::sleep(Duration::from_millis(3)).await;
            rep.evaluations += 1;
        }
        // the same session seen from another source address (a path change, or an attacker replaying a captured
        // datagram): ids that were accepted stay accepted-once
        if let Ok(s2) = UdpSocket::bind("127.0.0.1:0").await {
            let again: Vec<u64> = model.accepted.iter().rev().take(4).copied().collect();
            for id in again {
                let w = send(id, &mut rng);
                let _ = s2.send_to(&w, ("127.0.0.1", d.server_port)).await;
                tokio::time::sleep(Duration::from_millis(3)).await;
                rep.evaluations += 1;
                rep.mon("accepted_ids_presented_again_from_another_address", 1);
            }
        }
        tokio::time::sleep(Duration::from_millis(400)).await;
        let got: HashMap<u64, u32> = {
            let g = log.lock().unwrap();
            let mut mm = HashMap::new();
            for (sess, id) in g.iter() {
                if *sess == session {
                    *mm.entry(*id).or_insert(0) += 1;
                }
            }
            mm
        };
        rep.mon("datagrams_logged_at_the_target", got.values().map(|c| *c as u64).sum());
        rep.mon("histories_compared_with_the_model", 1);
        let w = |extra: serde_json::Value| json!({"seed": a.seed, "config": cfgname, "history": ids.iter().map(|x| x.to_string()).collect::<Vec<_>>(), "fresh": fresh.iter().map(|x| x.to_string()).collect::<Vec<_>>(), "detail": extra});
        let twice: Vec<String> = got.iter().filter(|(_, c)| **c > 1).map(|(i, _)| i.to_string()).collect();
        if !twice.is_empty() {
            rep.violation(format!("C11|nodes|{}|packet-id-delivered-more-than-once", cfgname), format!("{cfgname}: packet ids {:?} reached the target more than once", twice), w(json!({"twice": twice})));
        }
        let refused_but_delivered: Vec<String> = got.keys().filter(|i| !expect.contains_key(i)).map(|i| i.to_string()).collect();
        if !refused_but_delivered.is_empty() {
            rep.violation(format!("C11|nodes|{}|stale-packet-id-delivered", cfgname), format!("{cfgname}: packet ids {:?} lie outside the window and were delivered", refused_but_delivered), w(json!({"ids": refused_but_delivered})));
        }
        let missing: Vec<u64> = expect.keys().filter(|i| !got.contains_key(i)).copied().collect();
        if !missing.is_empty() {
            let fresh_missing = missing.iter().filter(|i| fresh.contains(i)).count();
            // loopback loss is possible in principle: a miss is judged only if the ids that follow a refusal are gone too
            if fresh_missing == fresh.len() && !fresh.is_empty() {
                rep.violation(format!("C11|nodes|{}|fresh-packets-after-a-refusal-not-delivered", cfgname), format!("{cfgname}: after duplicates / stale ids were refused, none of the fresh ids {:?} was delivered", fresh), w(json!({"missing": missing.iter().map(|x| x.to_string()).collect::<Vec<_>>()})));
            } else if missing.len() > 2 {
                rep.violation(format!("C11|nodes|{}|acceptable-packet-ids-not-delivered", cfgname), format!("{cfgname}: {} ids the model accepts were not delivered", missing.len()), w(json!({"missing": missing.iter().map(|x| x.to_string()).collect::<Vec<_>>()})));
            } else {
                rep.mon("sporadic_losses_not_judged", missing.len() as u64);
            }
        }
        rep.case(&(idx, h), !got.is_empty());
        if idx == 0 && h < 2 {
            rep.sample(json!({"config": cfgname, "history": ids.iter().map(|x| x.to_string()).collect::<Vec<_>>(), "model_accepts": expect.len(), "target_logged": got.len()}));
        }
    }
    if let Ok(age) = idle.await {
        let times3 = log.lock().unwrap().iter().filter(|(s, id)| *s == idle_session && *id == 3).count();
        let others = log.lock().unwrap().iter().filter(|(s, id)| *s == idle_session && *id != 3).count();
        rep.evaluations += 1;
        rep.mon("copies_presented_after_26_s_of_silence", 2);
        rep.case(&(idx, "idle-copy"), others > 0);
        if others == 0 {
            rep.inconclusive(format!("{cfgname}: the idle session's datagrams were not relayed at all"));
        } else if times3 > 1 {
            rep.violation(format!("C11|nodes|{}|copy-of-an-accepted-packet-id-delivered-after-the-session-had-been-idle", cfgname), format!("{cfgname}: packet id 3 of a session reached the target {times3} times: a verbatim copy presented after {age} s of silence (its timestamp still acceptable) was relayed again"), json!({"seed": a.seed, "config": cfgname, "age_s": age, "times_id_3_reached_the_target": times3}));
        }
    }
    if !server.alive() {
        rep.violation(format!("C11|nodes|{}|server-exited", cfgname), "server exited".to_string(), json!({"log": server.log_tail(8)}));
    }
    echo.abort();
    drop(server);
    let _ = std::fs::remove_dir_all(&dir);
    rep
}

/// The client's side of the property at node level: a REAL client (its local SOCKS5-UDP port, its binding table, its
/// reply task) is answered by a reference server that plays scripted histories of (server session, packet id): ids in and
/// out of order, copies, and - a server that restarted or rebuilt the association - a SECOND and THIRD server session
/// whose ids start at 1 again while copies of the earlier sessions' datagrams keep arriving. The application socket logs
/// what comes out of the client; the log is compared with one accepted-set per server session.
async fn client_config(a: Args, idx: usize, m: refimpl::ss::Method) -> Report {
    use super::c02::{socks5_udp, socks5_udp_parse};
    let mut rep = Report::new();
    let mut rng = Rng::derive(a.seed, 0xC11F, idx as u64);
    let cfg = Cfg::random(&mut rng, Proto::Ss(m), 0);
    let cfgname = format!("{}|client", m.name());
    // the reference "server": one UDP socket
    let Ok(srv) = UdpSocket::bind("127.0.0.1:0").await else { return rep };
    let sport = srv.local_addr().unwrap().port();
    let dir = work_dir(&a, &format!("c11c-{idx}"));
    let mut d = Deploy::new(cfg.clone(), Transport::Tcp, true, 2, &dir);
    d.server_port = sport;
    d.client_mode = "tcp_and_udp".into();
    let (dj, ddir, t, lvl, cport) = (d.client_json(), d.dir.clone(), format!("c11c-{idx}"), d.log_level.clone(), d.client_port);
    let node = tokio::task::spawn_blocking(move || {
        let mut n = start_node("client", &dj, &ddir, &t, 2, &lvl, None, None).map_err(|e| e.to_string())?;
        wait_ready(&mut n, Some(cport), Some(cport), Duration::from_secs(15))?;
        Ok::<Node, String>(n)
    })
    .await
    .unwrap();
    let mut node = match node {
        Ok(n) => n,
        Err(e) => {
            rep.inconclusive(format!("{cfgname}: client does not start: {}", e.lines().next().unwrap_or("")));
            return rep;
        }
    };
    let keys = cfg.ref_client_keys();
    let psk = cfg.ref_server_psk();
    let n_hist = if a.thorough { 12 } else { 4 };
    for h in 0..n_hist {
        let Ok(app) = UdpSocket::bind("127.0.0.1:0").await else { continue };
        // the application's first datagram opens the binding; the reference server learns session id and address from it
        let _ = app.send_to(&socks5_udp("127.0.0.1", 5300 + h as u16, b"open the binding"), ("127.0.0.1", d.client_port)).await;
        let mut b = vec![0u8; 70000];
        let Ok(Ok((n, client_addr))) = tokio::time::timeout(Duration::from_secs(5), srv.recv_from(&mut b)).await else {
            rep.inconclusive(format!("{cfgname}: the client did not send the application's datagram to the server"));
            continue;
        };
        let Ok((req, _)) = refimpl::ss::s22_udp_server_decode(m, &psk, &[], &b[..n]) else {
            rep.inconclusive(format!("{cfgname}: the reference server cannot read the client's datagram (judged by C03)"));
            continue;
        };
        let csid = req.session_id;
        let n_sessions = 1 + h % 3;
        let ssids: Vec<u64> = (0..n_sessions).map(|_| rng.next_u64()).collect();
        // the script: (server session index, packet id)
        let mut script: Vec<(usize, u64)> = Vec::new();
        for sess in 0..n_sessions {
            let ids: Vec<u64> = if h % 2 == 0 { (1..=8).collect() } else { history(&mut rng, h as u64).into_iter().take(30).collect() };
            for id in ids {
                script.push((sess, id));
                if rng.chance(1, 3) {
                    script.push((sess, id)); // the path duplicates
                }
                if sess > 0 && rng.chance(1, 3) {
                    // a copy of a datagram of an EARLIER server session, captured and re-sent
                    let k = rng.below(script.len() as u64) as usize;
                    let c = script[k];
                    script.push(c);
                }
            }
        }
        // copies of everything so far, then fresh ids of the last session
        let copies: Vec<(usize, u64)> = (0..6).map(|_| script[rng.below(script.len() as u64) as usize]).collect();
        script.extend(copies);
        let top = script.iter().filter(|(s, _)| *s == n_sessions - 1).map(|(_, i)| *i).max().unwrap_or(0);
        let fresh: Vec<(usize, u64)> = (1..=4).map(|k| (n_sessions - 1, top + k)).collect();
        script.extend(fresh.iter().cloned());
        let mut models: Vec<Model> = (0..n_sessions).map(|_| Model::default()).collect();
        let mut expect: HashMap<(usize, u64), u32> = HashMap::new();
        let now = std::time::SystemTime::now().duration_since(std::time::UNIX_EPOCH).unwrap().as_secs();
        for (sess, id) in script.iter() {
            if models[*sess].offer(*id) {
                *expect.entry((*sess, *id)).or_insert(0) += 1;
            }
            let mut payload = (*sess as u64).to_be_bytes().to_vec();
            payload.extend_from_slice(&id.to_be_bytes());
            payload.extend_from_slice(b"answer");
            let p = refimpl::ss::S22UdpPacket { session_id: ssids[*sess], packet_id: *id, type_byte: 1, timestamp: now, client_session_id: Some(csid), padding: vec![], addr: refimpl::addr::Addr::V4([127, 0, 0, 1], 5300 + h as u16), payload };
            let w = refimpl::ss::s22_udp_server_encode(m, &keys.psk, &p, &rng.arr());
            let _ = srv.send_to(&w, client_addr).await;
            tokio::time::sleep(Duration::from_millis(3)).await;
            rep.evaluations += 1;
        }
        // what came out of the client
        let mut got: HashMap<(usize, u64), u32> = HashMap::new();
        while let Ok(Ok((n, _))) = tokio::time::timeout(Duration::from_millis(400), app.recv_from(&mut b)).await {
            if let Some((_, _, pl)) = socks5_udp_parse(&b[..n]) {
                if pl.len() >= 16 {
                    let k = (u64::from_be_bytes(pl[..8].try_into().unwrap()) as usize, u64::from_be_bytes(pl[8..16].try_into().unwrap()));
                    *got.entry(k).or_insert(0) += 1;
                }
            }
        }
        rep.mon("client:answers_delivered_to_the_application", got.values().map(|c| *c as u64).sum());
        rep.mon("client:reply_histories_compared_with_the_model", 1);
        rep.mon(&format!("client:histories_with_{}_server_sessions", n_sessions), 1);
        let w = |extra: serde_json::Value| json!({"seed": a.seed, "config": cfgname, "server_sessions": n_sessions, "script": script.iter().map(|(s, i)| format!("{s}:{i}")).collect::<Vec<_>>(), "detail": extra, "client_log": node.log_tail(4)});
        let twice: Vec<String> = got.iter().filter(|(_, c)| **c > 1).map(|((s, i), c)| format!("{s}:{i} x{c}")).collect();
        if !twice.is_empty() {
            rep.violation(format!("C11|nodes|{}|answer-delivered-to-the-application-more-than-once", cfgname), format!("{cfgname}: answers (server session:packet id) {:?} came out of the client more than once", twice), w(json!({"twice": twice})));
        }
        let stale: Vec<String> = got.keys().filter(|k| !expect.contains_key(k)).map(|(s, i)| format!("{s}:{i}")).collect();
        if !stale.is_empty() {
            rep.violation(format!("C11|nodes|{}|stale-answer-delivered", cfgname), format!("{cfgname}: answers {:?} lie outside their session's window and were delivered", stale), w(json!({"ids": stale})));
        }
        let missing: Vec<(usize, u64)> = expect.keys().filter(|k| !got.contains_key(k)).cloned().collect();
        if !missing.is_empty() {
            let fresh_missing = fresh.iter().filter(|k| missing.contains(k)).count();
            // a whole server session whose acceptable answers are all gone, or all fresh ids gone: not loopback loss
            let dead_sessions: Vec<usize> = (0..n_sessions).filter(|s| expect.keys().filter(|(x, _)| x == s).count() >= 3 && expect.keys().filter(|(x, _)| x == s).all(|k| missing.contains(k))).collect();
            if fresh_missing == fresh.len() {
                rep.violation(format!("C11|nodes|{}|fresh-answers-after-refusals-not-delivered", cfgname), format!("{cfgname}: after duplicates and copies were refused, none of the fresh answers {:?} was delivered", fresh), w(json!({"missing": missing.len()})));
            } else if !dead_sessions.is_empty() {
                rep.violation(format!("C11|nodes|{}|answers-of-a-new-server-session-not-delivered", cfgname), format!("{cfgname}: none of the acceptable answers of server session(s) {:?} was delivered", dead_sessions), w(json!({"missing": missing.len()})));
            } else if missing.len() > 2 {
                rep.violation(format!("C11|nodes|{}|acceptable-answers-not-delivered", cfgname), format!("{cfgname}: {} answers the model accepts were not delivered", missing.len()), w(json!({"missing": missing.iter().map(|(s, i)| format!("{s}:{i}")).collect::<Vec<_>>()})));
            } else {
                rep.mon("sporadic_losses_not_judged", missing.len() as u64);
            }
        }
        rep.case(&("client", idx, h), !got.is_empty());
    }
    if !node.alive() {
        rep.violation(format!("C11|nodes|{}|client-exited", cfgname), "client exited".to_string(), json!({"log": node.log_tail(8)}));
    }
    drop(node);
    let _ = std::fs::remove_dir_all(&dir);
    rep
}

/// More live sessions than the server's association table holds (thorough tier): a victim session sends ids 1..3, then
/// 10 300 OTHER sessions of the same key send one datagram each (the table has 10 240 places), then a verbatim copy of
/// the victim's id 2 arrives - its timestamp still acceptable. "Accepted before" does not depend on how many other sessions
/// the server has seen since.
async fn table_overflow(a: Args, idx: usize, m: refimpl::ss::Method) -> Report {
    let mut rep = Report::new();
    let mut rng = Rng::derive(a.seed, 0xC110, idx as u64);
    let cfg = Cfg::random(&mut rng, Proto::Ss(m), 0);
    let dir = work_dir(&a, &format!("c11-o{idx}"));
    let mut d = Deploy::new(cfg.clone(), Transport::Tcp, true, 4, &dir);
    d.server_mode = Some("udp".into());
    let cfgname = format!("{}|users=0", m.name());
    let (dd, tag) = (d.clone(), format!("c11-o{idx}"));
    let started = tokio::task::spawn_blocking(move || {
        let mut server = start_node("server", &dd.server_json(), &dd.dir, &tag, dd.workers, &dd.log_level, Some(16000), None).map_err(|e| e.to_string())?;
        wait_ready(&mut server, None, Some(dd.server_port), Duration::from_secs(15))?;
        Ok::<Node, String>(server)
    })
    .await
    .unwrap();
    let mut server = match started {
        Ok(s) => s,
        Err(e) => {
            rep.inconclusive(format!("server does not start: {}", e.lines().next().unwrap_or("")));
            return rep;
        }
    };
    // a sink that counts what arrives per (session tag, id); it never answers
    let t = UdpSocket::bind("127.0.0.1:0").await.unwrap();
    let tport = t.local_addr().unwrap().port();
    let log: Arc<std::sync::Mutex<HashMap<(u64, u64), u32>>> = Arc::new(std::sync::Mutex::new(HashMap::new()));
    let l2 = log.clone();
    let sink = tokio::spawn(async move {
        let mut b = vec![0u8; 2048];
        while let Ok((n, _)) = t.recv_from(&mut b).await {
            if n >= 16 {
                *l2.lock().unwrap().entry((u64::from_be_bytes(b[..8].try_into().unwrap()), u64::from_be_bytes(b[8..16].try_into().unwrap()))).or_insert(0) += 1;
            }
        }
    });
    let keys = cfg.ref_client_keys();
    let target = refimpl::addr::Addr::V4([127, 0, 0, 1], tport);
    let t0 = std::time::Instant::now();
    let now = std::time::SystemTime::now().duration_since(std::time::UNIX_EPOCH).unwrap().as_secs();
    let mk = |session: u64, id: u64, rng: &mut Rng| {
        let mut payload = session.to_be_bytes().to_vec();
        payload.extend_from_slice(&id.to_be_bytes());
        let p = refimpl::ss::S22UdpPacket { session_id: session, packet_id: id, type_byte: 0, timestamp: now, client_session_id: None, padding: vec![], addr: target.clone(), payload };
        refimpl::ss::s22_udp_client_encode(m, &keys, &p, &rng.arr())
    };
    let victim = rng.next_u64();
    let vs = UdpSocket::bind("127.0.0.1:0").await.unwrap();
    let mut copy = Vec::new();
    for id in 1..=3u64 {
        let w = mk(victim, id, &mut rng);
        let _ = vs.send_to(&w, ("127.0.0.1", d.server_port)).await;
        if id == 2 {
            copy = w;
        }
        tokio::time::sleep(Duration::from_millis(5)).await;
    }
    let others = UdpSocket::bind("127.0.0.1:0").await.unwrap();
    let n_others = 10_300u64;
    for k in 0..n_others {
        let w = mk(victim.wrapping_add(1 + k), 1, &mut rng);
        let _ = others.send_to(&w, ("127.0.0.1", d.server_port)).await;
        if k % 50 == 49 {
            tokio::time::sleep(Duration::from_millis(20)).await;
        }
    }
    tokio::time::sleep(Duration::from_millis(1500)).await;
    let opened = log.lock().unwrap().keys().filter(|(s, _)| *s != victim).count();
    let age = t0.elapsed().as_secs();
    let _ = vs.send_to(&copy, ("127.0.0.1", d.server_port)).await;
    tokio::time::sleep(Duration::from_millis(600)).await;
    let times = log.lock().unwrap().get(&(victim, 2)).copied().unwrap_or(0);
    rep.evaluations += n_others + 4;
    rep.mon("other_sessions_relayed_before_the_copy", opened as u64);
    rep.case(&(idx, "table-overflow"), times > 0);
    if times == 0 || opened < 10_241 || age > 28 {
        rep.inconclusive(format!("{cfgname}: table overflow not reached within the timestamp's lifetime ({opened} other sessions relayed in {age} s)"));
    } else if times > 1 {
        rep.violation(format!("C11|nodes|{}|copy-of-an-accepted-packet-id-delivered-after-more-sessions-than-the-association-table-holds", cfgname), format!("{cfgname}: packet id 2 of a session reached the target {times} times: after {opened} other sessions (table: 10240) a verbatim copy, {age} s old, was relayed again"), json!({"seed": a.seed, "config": cfgname, "other_sessions": opened, "age_s": age}));
    } else {
        rep.mon("copies_refused_after_table_overflow", 1);
    }
    if !server.alive() {
        rep.violation(format!("C11|nodes|{}|server-exited-under-{}-sessions", cfgname, n_others), "server exited".to_string(), json!({"log": server.log_tail(8)}));
    }
    sink.abort();
    drop(server);
    let _ = std::fs::remove_dir_all(&dir);
    rep
}

pub async fn run(a: &Args) -> Report {
    use refimpl::ss::Method as M;
    let mut m: Vec<(M, usize)> = vec![(M::B3Aes128Gcm, 0), (M::B3ChaCha20Poly1305, 0)];
    if a.thorough {
        m.extend([(M::B3Aes256Gcm, 2), (M::B3ChaCha8Poly1305, 0), (M::B3Aes128Gcm, 2)]);
    } else if a.seed % 2 == 0 {
        m[0] = (M::B3Aes256Gcm, 2);
    }
    let mut hs = Vec::new();
    for (idx, (p, u)) in m.into_iter().enumerate() {
        let a = a.clone();
        hs.push(tokio::spawn(async move { one_config(a, idx, p, u).await }));
    }
    let cm: Vec<M> = if a.thorough { vec![M::B3Aes128Gcm, M::B3Aes256Gcm, M::B3ChaCha20Poly1305, M::B3ChaCha8Poly1305] } else if a.seed % 2 == 0 { vec![M::B3Aes256Gcm, M::B3ChaCha8Poly1305] } else { vec![M::B3Aes128Gcm, M::B3ChaCha20Poly1305] };
    for (idx, p) in cm.into_iter().enumerate() {
        let a = a.clone();
        hs.push(tokio::spawn(async move { client_config(a, idx, p).await }));
    }
    let mut rep = Report::new();
    for h in hs {
        if let Ok(r) = h.await {
            rep.merge(r);
        }
    }
    if a.thorough {
        // alone (10 300 sockets in the server): after everything else
        rep.merge(table_overflow(a.clone(), 0, M::B3Aes128Gcm).await);
    }
    rep
}
