//! A TCP forwarder placed between client and server: it can cut every link it carries (both sockets
//! closed or reset) on command, stall, or just pass bytes through re-segmented.

use std::collections::BTreeMap;
use std::sync::atomic::{AtomicBool, AtomicU64, Ordering};
use std::sync::{Arc, Mutex};
use std::time::Duration;

use tokio::io::{AsyncReadExt, AsyncWriteExt};
use tokio::net::{TcpListener, TcpStream};

pub struct Chopper {
    pub port: u16,
    /// when set, every link is closed (FIN) as soon as possible and new ones are closed at once
    pub cut: Arc<AtomicBool>,
    /// when set, links are reset (RST) instead of closed
    pub reset: Arc<AtomicBool>,
    /// when set, bytes are swallowed (black hole) but the links stay open
    pub blackhole: Arc<AtomicBool>,
    /// maximum bytes forwarded per write (re-segmentation); 0 = unlimited
    pub segment: Arc<AtomicU64>,
    /// the first this-many bytes of each direction of a link are never split (Shadowsocks 2022 requires salt and
    /// fixed-length header to arrive in one read; that boundary is exempt from the segmentation properties)
    pub whole_prefix: Arc<AtomicU64>,
    pub links: Arc<AtomicU64>,
    /// everything each link carried towards the upstream side, by link number in order of acceptance (the attacker's tape)
    pub recorded: Arc<Mutex<BTreeMap<u64, Vec<u8>>>>,
    /// the same for the direction towards the client (what the server answered), by the same link numbers
    pub recorded_down: Arc<Mutex<BTreeMap<u64, Vec<u8>>>>,
    task: tokio::task::JoinHandle<()>,
}

impl Drop for Chopper {
    fn drop(&mut self) {
        self.task.abort();
    }
}

pub async fn start(upstream: u16) -> std::io::Result<Chopper> {
    let l = TcpListener::bind("127.0.0.1:0").await?;
    let port = l.local_addr()?.port();
    let cut = Arc::new(AtomicBool::new(false));
    let reset = Arc::new(AtomicBool::new(false));
    let blackhole = Arc::new(AtomicBool::new(false));
    let segment = Arc::new(AtomicU64::new(0));
    let whole_prefix = Arc::new(AtomicU64::new(0));
    let links = Arc::new(AtomicU64::new(0));
    let recorded: Arc<Mutex<BTreeMap<u64, Vec<u8>>>> = Arc::new(Mutex::new(BTreeMap::new()));
    let recorded_down: Arc<Mutex<BTreeMap<u64, Vec<u8>>>> = Arc::new(Mutex::new(BTreeMap::new()));
    let rec_down = recorded_down.clone();
    let (c, r, b, sg, lk, rec) = (cut.clone(), reset.clone(), blackhole.clone(), segment.clone(), links.clone(), recorded.clone());
    let wp = whole_prefix.clone();
    let task = tokio::spawn(async move {
        let mut serial = 0u64;
        loop {
            let Ok((a, _)) = l.accept().await else { continue };
            serial += 1;
            let link_no = serial;
            let (c, r, b, sg, lk, rec) = (c.clone(), r.clone(), b.clone(), sg.clone(), lk.clone(), rec.clone());
            let rec_down = rec_down.clone();
            let wp = wp.clone();
            tokio::spawn(async move {
                let Ok(s) = TcpStream::connect(("127.0.0.1", upstream)).await else { return };
                let _ = a.set_nodelay(true);
                let _ = s.set_nodelay(true);
                lk.fetch_add(1, Ordering::SeqCst);
                let (ar, aw) = a.into_split();
                let (sr, sw) = s.into_split();
                let keep = wp.load(Ordering::SeqCst) as usize;
                let pump = move |mut from: tokio::net::tcp::OwnedReadHalf, mut to: tokio::net::tcp::OwnedWriteHalf, c: Arc<AtomicBool>, b: Arc<AtomicBool>, sg: Arc<AtomicU64>, tape: Option<Arc<Mutex<BTreeMap<u64, Vec<u8>>>>>| async move {
                    let mut buf = vec![0u8; 65536];
                    let mut passed = 0usize;
                    let mut rs: u64 = 0x9E37_79B9_7F4A_7C15 ^ (link_no << 17) ^ (from.as_ref().local_addr().map(|a| a.port() as u64).unwrap_or(1));
                    loop {
                        if c.load(Ordering::SeqCst) {
                            break;
                        }
                        match tokio::time::timeout(Duration::from_millis(20), from.read(&mut buf)).await {
                            Err(_) => continue,
                            Ok(Ok(0)) | Ok(Err(_)) => {
                                let _ = to.shutdown().await;
                                break;
                            }
                            Ok(Ok(n)) => {
                                if let Some(t) = &tape {
                                    let mut g = t.lock().unwrap();
                                    let e = g.entry(link_no).or_default();
                                    if e.len() < (1 << 20) {
                                        e.extend_from_slice(&buf[..n]);
                                    }
                                }
                                if b.load(Ordering::SeqCst) {
                                    continue;
                                }
                                let seg = sg.load(Ordering::SeqCst) as usize;
                                let mut off = 0;
                                while off < n {
                                    // pieces of 1..=seg bytes, sizes drawn afresh for every piece: over many flows a cut falls
                                    // at every offset of the wire format
                                    // the first 256 bytes of a direction carry the protocol heads: cut them finely whenever
                                    // re-segmentation is on at all
                                    let seg = if seg != 0 && passed < 256 { seg.min(8) } else { seg };
                                    let mut k = if seg == 0 {
                                        n - off
                                    } else {
                                        rs ^= rs << 13;
                                        rs ^= rs >> 7;
                                        rs ^= rs << 17;
                                        (1 + (rs % seg as u64) as usize).min(n - off)
                                    };
                                    if passed < keep {
                                        k = k.max((keep - passed).min(n - off));
                                    }
                                    passed += k;
                                    if to.write_all(&buf[off..off + k]).await.is_err() {
                                        return (from, to);
                                    }
                                    off += k;
                                    if seg != 0 {
                                        tokio::task::yield_now().await;
                                    }
                                }
                            }
                        }
                    }
                    (from, to)
                };
                let ((ar2, sw2), (sr2, aw2)) = tokio::join!(pump(ar, sw, c.clone(), b.clone(), sg.clone(), Some(rec.clone())), pump(sr, aw, c.clone(), b.clone(), sg.clone(), Some(rec_down.clone())));
                if r.load(Ordering::SeqCst) {
                    if let Ok(a) = ar2.reunite(aw2) {
                        let _ = a.set_linger(Some(Duration::from_secs(0)));
                    }
                    if let Ok(s) = sr2.reunite(sw2) {
                        let _ = s.set_linger(Some(Duration::from_secs(0)));
                    }
                }
                lk.fetch_sub(1, Ordering::SeqCst);
            });
        }
    });
    Ok(Chopper { port, cut, reset, blackhole, segment, whole_prefix, links, recorded, recorded_down, task })
}
