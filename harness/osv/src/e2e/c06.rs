//! C06 at node level - no relaying without the configured credential.
//! A real server is used by one real client holding the configured credential and by real clients holding
//! near-miss credentials (another password / key / UUID, one character or one bit away, an unregistered user behind
//! the right server key). Canary targets count contacts: flows and datagrams of the wrong-credential clients must
//! never reach a target; the right client's must.

use std::sync::Arc;
use std::time::Duration;

use serde_json::json;
use tokio::net::UdpSocket;

use super::c01::work_dir;
use super::c02::{make_payload, socks5_udp, start_udp_target};
use super::endpoints::*;
use super::nodes::*;
use super::tcpflows::*;
use crate::checks::Args;
use crate::prng::Rng;
use crate::real::{all_protos, Cfg, Proto};
use crate::report::Report;

/// Near-miss credentials for `good`: (label, configuration a client would be given).
fn wrong_credentials(good: &Cfg, rng: &mut Rng) -> Vec<(&'static str, Cfg)> {
    let mut v: Vec<(&'static str, Cfg)> = Vec::new();
    match good.proto {
        Proto::Ss(m) if m.is_2022() => {
            let mut c = good.clone();
            c.server_psk = rng.bytes(m.key_len());
            v.push(("another-server-key", c));
            let mut c = good.clone();
            c.server_psk[0] ^= 1;
            v.push(("server-key-one-bit-off", c));
            if let Some(i) = good.client_user {
                let mut c = good.clone();
                c.users[i].1 = rng.bytes(m.key_len());
                v.push(("unregistered-user-key-behind-the-right-server-key", c));
                let mut c = good.clone();
                let n = c.users[i].1.len();
                c.users[i].1[n - 1] ^= 0x80;
                v.push(("user-key-one-bit-off", c));
                // a client that knows only the server key and pretends there are no users
                let mut c = good.clone();
                c.client_user = None;
                c.users.clear();
                v.push(("server-key-without-a-user-key", c));
            }
        }
        Proto::Ss(_) | Proto::Trojan => {
            let mut c = good.clone();
            c.password.push('x');
            v.push(("password-one-character-longer", c));
            let mut c = good.clone();
            c.password.pop();
            if !c.password.is_empty() {
                v.push(("password-one-character-shorter", c));
            }
            let mut c = good.clone();
            c.password = crate::real::random_password(rng);
            v.push(("another-password", c));
        }
        Proto::Vmess(_) => {
            let mut c = good.clone();
            c.uuids = vec![crate::real::uuid_string(&rng.arr::<16>())];
            c.client_uuid = 0;
            v.push(("another-uuid", c));
            let mut c = good.clone();
            let mut b = refimpl::crypto::parse_uuid(&good.uuids[good.client_uuid]).unwrap();
            b[15] ^= 1;
            c.uuids = vec![crate::real::uuid_string(&b)];
            c.client_uuid = 0;
            v.push(("uuid-one-bit-off", c));
        }
    }
    v
}

async fn one_config(a: Args, idx: usize, proto: Proto, transport: Transport) -> Report {
    let mut rep = Report::new();
    let mut rng = Rng::derive(a.seed, 0xC06E, idx as u64);
    let users = match proto {
        Proto::Ss(m) if m.supports_eih() => *rng.pick(&[0usize, 2]),
        Proto::Vmess(_) => 2,
        _ => 0,
    };
    let good = Cfg::random(&mut rng, proto, users);
    let udp = matches!(proto, Proto::Ss(_) | Proto::Vmess(_)) && transport == Transport::Tcp || proto == Proto::Trojan && transport == Transport::Tls;
    let dir = work_dir(&a, &format!("c06-{idx}"));
    let d = Deploy::new(good.clone(), transport, udp, 2, &dir);
    let cfgname = format!("{}|{}", proto.name(), transport.name());
    let tag = format!("c06-{idx}");
    let dd = d.clone();
    let mut pair = match tokio::task::spawn_blocking(move || start_pair(&dd, &tag)).await.unwrap() {
        Ok(p) => p,
        Err(e) => {
            rep.inconclusive(format!("nodes do not start: {}", e.lines().next().unwrap_or("")));
            return rep;
        }
    };
    let nonce = rng.next_u64();
    let reg = Registry::new(nonce);
    let Ok(target) = start_target(reg.clone()).await else { return rep };
    let udp_target = if udp { start_udp_target(nonce, 0, 1, false).await.ok() } else { None };
    // control: the configured credential relays
    let spec = |id: u64, kind: LocalKind| FlowSpec { id, kind, c2s: 2000, s2c: 2000, write_c: 700, write_s: 700, pause_ms: 0, pattern: Pattern::RequestResponse, closer: Closer::TargetAfterAnswer };
    let base = (idx as u64) << 20;
    let r = run_batch(reg.clone(), &d, target.port, vec![spec(base + 1, LocalKind::Socks5V4), spec(base + 2, LocalKind::HttpConnect)], 2, Duration::from_secs(15)).await;
    let control_ok = r.iter().all(|(_, v)| v.symptom.is_none());
    rep.mon("control_flows_with_the_right_credential", r.len() as u64);
    if !control_ok {
        rep.inconclusive(format!("{cfgname}: the right credential does not relay either (judged by C01)"));
        return rep;
    }
    let wrong = wrong_credentials(&good, &mut rng);
    let mut clients = Vec::new();
    for (k, (label, cfg)) in wrong.iter().enumerate() {
        let mut dw = d.clone();
        dw.cfg = cfg.clone();
        dw.client_port = free_port();
        let (dj, ddir, t, lvl) = (dw.client_json(), dw.dir.clone(), format!("c06-{idx}-w{k}"), dw.log_level.clone());
        let cport = dw.client_port;
        let node = tokio::task::spawn_blocking(move || {
            let mut n = start_node("client", &dj, &ddir, &t, 2, &lvl, None, None).map_err(|e| e.to_string())?;
            wait_ready(&mut n, Some(cport), if udp { Some(cport) } else { None }, Duration::from_secs(15))?;
            Ok::<Node, String>(n)
        })
        .await
        .unwrap();
        match node {
            Ok(n) => clients.push((label, dw, n)),
            // a client that refuses to start with the near-miss credential has not relayed anything either
            Err(_) => rep.mon("wrong_credential_clients_that_do_not_start", 1),
        }
    }
    let mut next = base + 100;
    for (k, (label, dw, _node)) in clients.iter().enumerate() {
        let mut specs = Vec::new();
        for kind in [LocalKind::Socks5V4, LocalKind::Socks5Domain, LocalKind::HttpConnect, LocalKind::HttpPlain] {
            next += 1;
            specs.push(spec(next, kind));
        }
        let results = run_batch(reg.clone(), dw, target.port, specs, 4, Duration::from_secs(6)).await;
        for (s, _v) in results {
            rep.evaluations += 1;
            rep.mon("flows_attempted_with_a_wrong_credential", 1);
            let reached = reg.flows.lock().unwrap().get(&s.id).map(|f| f.target.lock().unwrap().connected).unwrap_or(false);
            if reached {
                rep.violation(format!("C06|nodes|{}|{}|target-contacted-without-the-credential", cfgname, label), format!("{cfgname}: a client holding '{label}' got a TCP flow relayed to the target"), json!({"seed": a.seed, "deploy": d.describe(), "wrong_client": dw.client_json(), "flow": s.describe()}));
            }
        }
        if let Some(t) = &udp_target {
            if let Ok(s) = UdpSocket::bind("127.0.0.1:0").await {
                let app = 900 + k as u16;
                for seq in 0..4u32 {
                    let p = make_payload(nonce, app, 0, seq, 120, 0);
                    let _ = s.send_to(&socks5_udp("127.0.0.1", t.port, &p), ("127.0.0.1", dw.client_port)).await;
                    tokio::time::sleep(Duration::from_millis(40)).await;
                    rep.evaluations += 1;
                    rep.mon("datagrams_attempted_with_a_wrong_credential", 1);
                }
                tokio::time::sleep(Duration::from_millis(500)).await;
                let hit = t.log.lock().unwrap().seen.keys().any(|(a2, _)| *a2 == app);
                if hit {
                    rep.violation(format!("C06|nodes|{}|{}|datagram-relayed-without-the-credential", cfgname, label), format!("{cfgname}: a client holding '{label}' got a datagram relayed to the target"), json!({"seed": a.seed, "deploy": d.describe(), "wrong_client": dw.client_json()}));
                }
            }
        }
        rep.case(&(idx, *label), true);
    }
    let stray = reg.unattributed.lock().unwrap().clone();
    if !stray.is_empty() {
        rep.violation(format!("C06|nodes|{}|unattributed-connection-at-the-target", cfgname), format!("{cfgname}: the target was contacted with bytes no scripted flow sent: {}", stray[0]), json!({"seed": a.seed, "stray": stray}));
    }
    // the right credential still relays after all that
    let r = run_batch(reg.clone(), &d, target.port, vec![spec(base + 3, LocalKind::Socks5Domain)], 1, Duration::from_secs(15)).await;
    if r.iter().any(|(_, v)| v.symptom.is_some()) {
        rep.violation(format!("C06|nodes|{}|right-credential-refused-after-wrong-ones", cfgname), format!("{cfgname}: after the wrong-credential attempts the configured credential is not served"), json!({"seed": a.seed, "deploy": d.describe()}));
    }
    if idx == 0 {
        rep.sample(json!({"config": cfgname, "wrong_credentials": wrong.iter().map(|w| w.0).collect::<Vec<_>>(), "per_wrong_client": "4 TCP flows (one per local handshake kind) + 4 datagrams; oracle: the canary target is never contacted"}));
    }
    for (who, node) in [("client", &mut pair.client), ("server", &mut pair.server)] {
        if !node.alive() {
            rep.violation(format!("C06|nodes|{}|{}-exited", cfgname, who), format!("{who} exited"), json!({"log": node.log_tail(8)}));
        }
    }
    drop(clients);
    drop(pair);
    let _ = std::fs::remove_dir_all(&dir);
    rep
}

pub async fn run(a: &Args) -> Report {
    let mut m: Vec<(Proto, Transport)> = Vec::new();
    for (i, p) in all_protos().into_iter().enumerate() {
        if a.thorough || (i + a.seed as usize) % 2 == 0 {
            m.push((p, Transport::Tcp));
        }
        if a.thorough {
            m.push((p, if i % 2 == 0 { Transport::Ws } else { Transport::Tls }));
        }
    }
    m.push((Proto::Trojan, Transport::Tls));
    let sem = Arc::new(tokio::sync::Semaphore::new(5));
    let mut hs = Vec::new();
    for (idx, (p, t)) in m.into_iter().enumerate() {
        let a = a.clone();
        let sem = sem.clone();
        hs.push(tokio::spawn(async move {
            let _g = sem.acquire_owned().await.unwrap();
            one_config(a, idx, p, t).await
        }));
    }
    let mut rep = Report::new();
    for h in hs {
        if let Ok(r) = h.await {
            rep.merge(r);
        }
    }
    rep
}
