//! C06 at node level - no relaying without the configured credential.
//! A real server is used by one real client holding the configured credential and by real clients holding
//! near-miss credentials (another password / key / UUID, one character or one bit away, an unregistered user behind
//! the right server key). Canary targets count contacts: flows and datagrams of the wrong-credential clients must
//! never reach a target; the right client's must.

use std::sync::Arc;
use std::time::Duration;

use serde_json::json;
use tokio::net::UdpSocket;

use super::c01::work_dir;
use super::c02::{make_payload, socks5_udp, start_udp_target};
use super::endpoints::*;
use super::nodes::*;
use super::tcpflows::*;
use crate::checks::Args;
use crate::prng::Rng;
use crate::real::{all_protos, Cfg, Proto};
use crate::report::Report;

/// Near-miss credentials for `good`: (label, configuration a client would be given).
fn wrong_credentials(good: &Cfg, rng: &mut Rng) -> Vec<(&'static str, Cfg)> {
    let mut v: Vec<(&'static str, Cfg)> = Vec::new();
    match good.proto {
        Proto::Ss(m) if m.is_2022() => {
            let mut c = good.clone();
            c.server_psk = rng.bytes(m.key_len());
            v.push(("another-server-key", c));
            let mut c = good.clone();
            c.server_psk[0] ^= 1;
            v.push(("server-key-one-bit-off", c));
            if let Some(i) = good.client_user {
                let mut c = good.clone();
                c.users[i].1 = rng.bytes(m.key_len());
                v.push(("unregistered-user-key-behind-the-right-server-key", c));
                let mut c = good.clone();
                let n = c.users[i].1.len();
                c.users[i].1[n - 1] ^= 0x80;
                v.push(("user-key-one-bit-off", c));
                // a client that knows only the server key and pretends there are no users
                let mut c = good.clone();
                c.client_user = None;
                c.users.clear();
                v.push(("server-key-without-a-user-key", c));
            }
        }
        Proto::Ss(_) | Proto::Trojan => {
            let mut c = good.clone();
            c.password.push('x');
            v.push(("password-one-character-longer", c));
            let mut c = good.clone();
            c.password.pop();
            if !c.password.is_empty() {
                v.push(("password-one-character-shorter", c));
            }
            let mut c = good.clone();
            c.password = crate::real::random_password(rng);
            v.push(("another-password", c));
        }
        Proto::Vmess(_) => {
            let mut c = good.clone();
            c.uuids = vec![crate::real::uuid_string(&rng.arr::<16>())];
            c.client_uuid = 0;
            v.push(("another-uuid", c));
            let mut c = good.clone();
            let mut b = refimpl::crypto::parse_uuid(&good.uuids[good.client_uuid]).unwrap();
            b[15] ^= 1;
            c.uuids = vec![crate::real::uuid_string(&b)];
            c.client_uuid = 0;
            v.push(("uuid-one-bit-off", c));
        }
    }
    v
}

async fn one_config(a: Args, idx: usize, proto: Proto, transport: Transport) -> Report {
    let mut rep = Report::new();
    let mut rng = Rng::derive(a.seed, 0xC06E, idx as u64);
    let users = match proto {
        Proto::Ss(m) if m.supports_eih() => *rng.pick(&[0usize, 2]),
        Proto::Vmess(_) => 2,
        _ => 0,
    };
    let good = Cfg::random(&mut rng, proto, users);
    let udp = matches!(proto, Proto::Ss(_) | Proto::Vmess(_)) && transport == Transport::Tcp || proto == Proto::Trojan && transport == Transport::Tls;
    let dir = work_dir(&a, &format!("c06-{idx}"));
    let d = Deploy::new(good.clone(), transport, udp, 2, &dir);
    let cfgname = format!("{}|{}", proto.name(), transport.name());
    let tag = format!("c06-{idx}");
    let dd = d.clone();
    let mut pair = match tokio::task::spawn_blocking(move || start_pair(&dd, &tag)).await.unwrap() {
        Ok(p) => p,
        Err(e) => {
            rep.inconclusive(format!("nodes do not start: {}", e.lines().next().unwrap_or("")));
            return rep;
        }
    };
    let nonce = rng.next_u64();
    let reg = Registry::new(nonce);
    let Ok(target) = start_target(reg.clone()).await else { return rep };
    let udp_target = if udp { start_udp_target(nonce, 0, 1, false).await.ok() } else { None };
    // control: the configured credential relays
    let spec = |id: u64, kind: LocalKind| FlowSpec { id, kind, c2s: 2000, s2c: 2000, write_c: 700, write_s: 700, pause_ms: 0, pattern: Pattern::RequestResponse, closer: Closer::TargetAfterAnswer };
    let base = (idx as u64) << 20;
    let r = run_batch(reg.clone(), &d, target.port, vec![spec(base + 1, LocalKind::Socks5V4), spec(base + 2, LocalKind::HttpConnect)], 2, Duration::from_secs(15)).await;
    let control_ok = r.iter().all(|(_, v)| v.symptom.is_none());
    rep.mon("control_flows_with_the_right_credential", r.len() as u64);
    if !control_ok {
        rep.inconclusive(format!("{cfgname}: the right credential does not relay either (judged by C01)"));
        return rep;
    }
    let wrong = wrong_credentials(&good, &mut rng);
    let mut clients = Vec::new();
    for (k, (label, cfg)) in wrong.iter().enumerate() {
        let mut dw = d.clone();
        dw.cfg = cfg.clone();
        dw.client_port = free_port();
        let (dj, ddir, t, lvl) = (dw.client_json(), dw.dir.clone(), format!("c06-{idx}-w{k}"), dw.log_level.clone());
        let cport = dw.client_port;
        let node = tokio::task::spawn_blocking(move || {
            let mut n = start_node("client", &dj, &ddir, &t, 2, &lvl, None, None).map_err(|e| e.to_string())?;
            wait_ready(&mut n, Some(cport), if udp { Some(cport) } else { None }, Duration::from_secs(15))?;
            Ok::<Node, String>(n)
        })
        .await
        .unwrap();
        match node {
            Ok(n) => clients.push((label, dw, n)),
            // a client that refuses to start with the near-miss credential has not relayed anything either
            Err(_) => rep.mon("wrong_credential_clients_that_do_not_start", 1),
        }
    }
    let mut next = base + 100;
    for (k, (label, dw, _node)) in clients.iter().enumerate() {
        let mut specs = Vec::new();
        for kind in [LocalKind::Socks5V4, LocalKind::Socks5Domain, LocalKind::HttpConnect, LocalKind::HttpPlain] {
            next += 1;
            specs.push(spec(next, kind));
        }
        let results = run_batch(reg.clone(), dw, target.port, specs, 4, Duration::from_secs(6)).await;
        for (s, _v) in results {
            rep.evaluations += 1;
            rep.mon("flows_attempted_with_a_wrong_credential", 1);
            let reached = reg.flows.lock().unwrap().get(&s.id).map(|f| f.target.lock().unwrap().connected).unwrap_or(false);
            if reached {
                rep.violation(format!("C06|nodes|{}|{}|target-contacted-without-the-credential", cfgname, label), format!("{cfgname}: a client holding '{label}' got a TCP flow relayed to the target"), json!({"seed": a.seed, "deploy": d.describe(), "wrong_client": dw.client_json(), "flow": s.describe()}));
            }
        }
        if let Some(t) = &udp_target {
            if let Ok(s) = UdpSocket::bind("127.0.0.1:0").await {
                let app = 900 + k as u16;
                for seq in 0..4u32 {
                    let p = make_payload(nonce, app, 0, seq, 120, 0);
                    let _ = s.send_to(&socks5_udp("127.0.0.1", t.port, &p), ("127.0.0.1", dw.client_port)).await;
                    tokio::time::sleep(Duration::from_millis(40)).await;
                    rep.evaluations += 1;
                    rep.mon("datagrams_attempted_with_a_wrong_credential", 1);
                }
                tokio::time::sleep(Duration::from_millis(500)).await;
                let hit = t.log.lock().unwrap().seen.keys().any(|(a2, _)| *a2 == app);
                if hit {
                    rep.violation(format!("C06|nodes|{}|{}|datagram-relayed-without-the-credential", cfgname, label), format!("{cfgname}: a client holding '{label}' got a datagram relayed to the target"), json!({"seed": a.seed, "deploy": d.describe(), "wrong_client": dw.client_json()}));
                }
            }
        }
        rep.case(&(idx, *label), true);
    }
    let stray = reg.unattributed.lock().unwrap().clone();
    if !stray.is_empty() {
        rep.violation(format!("C06|nodes|{}|unattributed-connection-at-the-target", cfgname), format!("{cfgname}: the target was contacted with bytes no scripted flow sent: {}", stray[0]), json!({"seed": a.seed, "stray": stray}));
    }
    // the right credential still relays after all that
    let r = run_batch(reg.clone(), &d, target.port, vec![spec(base + 3, LocalKind::Socks5Domain)], 1, Duration::from_secs(15)).await;
    if r.iter().any(|(_, v)| v.symptom.is_some()) {
        rep.violation(format!("C06|nodes|{}|right-credential-refused-after-wrong-ones", cfgname), format!("{cfgname}: after the wrong-credential attempts the configured credential is not served"), json!({"seed": a.seed, "deploy": d.describe()}));
    }
    if idx == 0 {
        rep.sample(json!({"config": cfgname, "wrong_credentials": wrong.iter().map(|w| w.0).collect::<Vec<_>>(), "per_wrong_client": "4 TCP flows (one per local handshake kind) + 4 datagrams; oracle: the canary target is never contacted"}));
    }
    for (who, node) in [("client", &mut pair.client), ("server", &mut pair.server)] {
        if !node.alive() {
            rep.violation(format!("C06|nodes|{}|{}-exited", cfgname, who), format!("{who} exited"), json!({"log": node.log_tail(8)}));
        }
    }
    drop(clients);
    drop(pair);
    let _ = std::fs::remove_dir_all(&dir);
    rep
}


/// Two registered users at one real server (AES 2022 with identity headers), both played by the reference client from
/// two sockets. User B names user A's client session id in datagrams of its own - any holder of the server key can
/// read that id off A's datagrams. Whatever the server makes of B's datagrams, nothing of A's may be answered under
/// B's key or delivered to B's address, and nothing of B's under A's key or to A's address.
async fn cross_user_session(a: Args, idx: usize, m: refimpl::ss::Method) -> Report {
    use refimpl::ss;
    let mut rep = Report::new();
    let mut rng = Rng::derive(a.seed, 0xC06F, idx as u64);
    let cfg = Cfg::random(&mut rng, Proto::Ss(m), 3);
    let dir = work_dir(&a, &format!("c06x-{idx}"));
    let mut d = Deploy::new(cfg.clone(), Transport::Tcp, true, 2, &dir);
    // the datagram listener alone (mode udp) or next to the stream listener: the user table is the same
    let udp_only = idx % 2 == 1;
    d.server_mode = Some(if udp_only { "udp" } else { "tcp_and_udp" }.into());
    let cfgname = format!("{}|users=3|mode={}", m.name(), if udp_only { "udp" } else { "tcp_and_udp" });
    let (dd, tag) = (d.clone(), format!("c06x-{idx}"));
    let started = tokio::task::spawn_blocking(move || {
        let mut server = start_node("server", &dd.server_json(), &dd.dir, &tag, dd.workers, &dd.log_level, None, None).map_err(|e| e.to_string())?;
        wait_ready(&mut server, if udp_only { None } else { Some(dd.server_port) }, Some(dd.server_port), Duration::from_secs(15))?;
        Ok::<Node, String>(server)
    })
    .await
    .unwrap();
    let mut server = match started {
        Ok(s) => s,
        Err(e) => {
            rep.inconclusive(format!("server does not start: {}", e.lines().next().unwrap_or("")));
            return rep;
        }
    };
    // echo target; the first payload byte is the delay of the answer in units of 10 ms
    let t = UdpSocket::bind("127.0.0.1:0").await.unwrap();
    let tport = t.local_addr().unwrap().port();
    let t = Arc::new(t);
    let t2 = t.clone();
    let echo = tokio::spawn(async move {
        let mut b = vec![0u8; 4096];
        while let Ok((n, from)) = t2.recv_from(&mut b).await {
            let (p, t3) = (b[..n].to_vec(), t2.clone());
            tokio::spawn(async move {
                tokio::time::sleep(Duration::from_millis(10 * p.first().copied().unwrap_or(0) as u64)).await;
                let _ = t3.send_to(&p, from).await;
            });
        }
    });
    let target = refimpl::addr::Addr::V4([127, 0, 0, 1], tport);
    let key_of = |u: usize| ss::Keys { psk: cfg.users[u].1.clone(), ipsks: vec![cfg.server_psk.clone()] };
    let rounds = if a.thorough { 24 } else { 8 };
    for round in 0..rounds {
        let (ua, ub) = (round % 3, (round + 1 + round / 3 % 2) % 3);
        let (sa, sb) = (UdpSocket::bind("127.0.0.1:0").await.unwrap(), UdpSocket::bind("127.0.0.1:0").await.unwrap());
        let sid = rng.next_u64();
        let now = std::time::SystemTime::now().duration_since(std::time::UNIX_EPOCH).unwrap().as_secs();
        // payload: [delay][owner tag 'A'/'B'][seq][random]
        let mk = |owner: u8, seq: u8, delay: u8, rng: &mut Rng| {
            let mut p = vec![delay, owner, seq];
            p.extend_from_slice(&rng.bytes(40));
            p
        };
        let send = |who: usize, pid: u64, payload: Vec<u8>, rng: &mut Rng| {
            let p = ss::S22UdpPacket { session_id: sid, packet_id: pid, type_byte: 0, timestamp: now, client_session_id: None, padding: vec![], addr: target.clone(), payload };
            ss::s22_udp_client_encode(m, &key_of(who), &p, &rng.arr())
        };
        // the history (three styles): A opens the session; B speaks inside it; A goes on - with one of A's answers still pending
        let style = round % 4;
        let mut sent_a: Vec<Vec<u8>> = Vec::new();
        let mut sent_b: Vec<Vec<u8>> = Vec::new();
        let pa = mk(b'A', 1, 0, &mut rng);
        let _ = sa.send_to(&send(ua, 1, pa.clone(), &mut rng), ("127.0.0.1", d.server_port)).await;
        sent_a.push(pa);
        tokio::time::sleep(Duration::from_millis(40)).await;
        if style >= 2 {
            // an answer for A that is still on its way while B speaks
            let pa = mk(b'A', 2, 25, &mut rng);
            let _ = sa.send_to(&send(ua, 2, pa.clone(), &mut rng), ("127.0.0.1", d.server_port)).await;
            sent_a.push(pa);
            tokio::time::sleep(Duration::from_millis(30)).await;
        }
        let pb = mk(b'B', 1, if style % 2 == 1 { 15 } else { 0 }, &mut rng);
        let _ = sb.send_to(&send(ub, 1000, pb.clone(), &mut rng), ("127.0.0.1", d.server_port)).await;
        sent_b.push(pb);
        tokio::time::sleep(Duration::from_millis(60)).await;
        let pa = mk(b'A', 3, 0, &mut rng);
        let _ = sa.send_to(&send(ua, 3, pa.clone(), &mut rng), ("127.0.0.1", d.server_port)).await;
        sent_a.push(pa);
        rep.evaluations += (sent_a.len() + sent_b.len()) as u64;
        // collect what comes back on both sockets for a while
        let mut got: Vec<(char, Vec<u8>)> = Vec::new();
        let t0 = std::time::Instant::now();
        let mut buf = vec![0u8; 4096];
        let mut buf2 = vec![0u8; 4096];
        while t0.elapsed() < Duration::from_millis(700) {
            tokio::select! {
                r = sa.recv_from(&mut buf) => if let Ok((n, _)) = r { got.push(('A', buf[..n].to_vec())) },
                r = sb.recv_from(&mut buf2) => if let Ok((n, _)) = r { got.push(('B', buf2[..n].to_vec())) },
                _ = tokio::time::sleep(Duration::from_millis(50)) => {}
            }
        }
        let mut a_answers = 0;
        for (at, pkt) in got.iter() {
            rep.mon("answers_examined_(address,_key,_content)", 1);
            let (own, other, own_name, other_name) = if *at == 'A' { (ua, ub, "A", "B") } else { (ub, ua, "B", "A") };
            let under_own = ss::s22_udp_client_decode(m, &cfg.users[own].1, pkt);
            let under_other = ss::s22_udp_client_decode(m, &cfg.users[other].1, pkt);
            let w = |extra: serde_json::Value| json!({"seed": a.seed, "config": cfgname, "round": round, "style": style, "users": {"A": ua, "B": ub}, "session_id": sid.to_string(), "detail": extra, "deploy": d.describe()});
            match (under_own, under_other) {
                (Ok(p), _) => {
                    let tag = p.payload.get(1).copied().unwrap_or(0);
                    if tag != own_name.as_bytes()[0] {
                        rep.violation(format!("C06|nodes-udp|{}|answer-to-one-users-datagram-delivered-to-another-user", cfgname), format!("{cfgname}: the answer to user {other_name}'s datagram arrived at user {own_name}'s address under {own_name}'s key"), w(json!({"at": own_name})));
                    } else if *at == 'A' {
                        a_answers += 1;
                    }
                }
                (Err(_), Ok(p)) => {
                    let tag = p.payload.get(1).copied().unwrap_or(0) as char;
                    rep.violation(
                        format!("C06|nodes-udp|{}|answer-at-one-users-address-sealed-under-another-users-key", cfgname),
                        format!("{cfgname}: a datagram that arrived at user {own_name}'s address opens under user {other_name}'s key (it answers {tag}'s datagram): user {other_name} named {own_name}'s session id in a datagram of its own"),
                        w(json!({"at": own_name, "opens_under": other_name, "answers": tag.to_string()})),
                    );
                }
                (Err(e), Err(_)) => rep.note(format!("{cfgname}: a datagram at {own_name}'s address opens under neither user's key: {e}")),
            }
        }
        // A's own session must have gone on: its first and last datagrams are answered (the delayed one too when there is one)
        if a_answers < sent_a.len() {
            // loss on loopback is possible in principle; judged only when nothing of A's came back after B spoke
            let last_ok = got.iter().any(|(at, pkt)| *at == 'A' && ss::s22_udp_client_decode(m, &cfg.users[ua].1, pkt).map(|p| p.payload.get(2) == Some(&3)).unwrap_or(false));
            if !last_ok {
                rep.violation(format!("C06|nodes-udp|{}|owner-of-the-session-not-answered-after-another-user-named-it", cfgname), format!("{cfgname}: after user B named user A's session id, A's next datagram is not answered to A under A's key"), json!({"seed": a.seed, "config": cfgname, "round": round, "style": style, "a_answers": a_answers, "a_sent": sent_a.len(), "deploy": d.describe()}));
            }
        }
        rep.case(&("cross-user-session", idx, round), !got.is_empty());
    }
    if idx == 0 {
        rep.sample(json!({"config": cfgname, "history": "A: (session S, id 1) [, (S, 2) answered late]; B: (S, 1000) under B's key from B's address; A: (S, 3)", "oracle": "every datagram arriving at a user's address opens under that user's key and answers that user's datagram"}));
    }
    if !server.alive() {
        rep.violation(format!("C06|nodes-udp|{}|server-exited", cfgname), "server exited".to_string(), json!({"log": server.log_tail(8)}));
    }
    // a stranger who holds the SERVER key only (no user key, so no identity header): never relayed, in either mode
    {
        let stranger = UdpSocket::bind("127.0.0.1:0").await.unwrap();
        let keys = ss::Keys { psk: cfg.server_psk.clone(), ipsks: vec![] };
        let now = std::time::SystemTime::now().duration_since(std::time::UNIX_EPOCH).unwrap().as_secs();
        let sid = rng.next_u64();
        for id in 1..=3u64 {
            let p = ss::S22UdpPacket { session_id: sid, packet_id: id, type_byte: 0, timestamp: now, client_session_id: None, padding: vec![], addr: target.clone(), payload: vec![0, b'S', id as u8, 1, 2, 3] };
            let _ = stranger.send_to(&ss::s22_udp_client_encode(m, &keys, &p, &rng.arr()), ("127.0.0.1", d.server_port)).await;
        }
        rep.evaluations += 3;
        rep.mon("datagrams_sealed_under_the_server_key_alone", 3);
        let mut b = vec![0u8; 4096];
        if let Ok(Ok((n, _))) = tokio::time::timeout(Duration::from_millis(700), stranger.recv_from(&mut b)).await {
            rep.violation(format!("C06|nodes|{}|datagram-under-the-server-key-alone-relayed-and-answered", cfgname), format!("{cfgname}: a peer that holds the server key but no registered user key sent a datagram without identity header; it was relayed and a {n}-byte answer came back"), json!({"seed": a.seed, "deploy": d.describe()}));
        }
    }
    echo.abort();
    drop(server);
    let _ = std::fs::remove_dir_all(&dir);
    rep
}

pub async fn run(a: &Args) -> Report {
    let mut m: Vec<(Proto, Transport)> = Vec::new();
    for (i, p) in all_protos().into_iter().enumerate() {
        if a.thorough || (i + a.seed as usize) % 2 == 0 {
            m.push((p, Transport::Tcp));
        }
        if a.thorough {
            m.push((p, if i % 2 == 0 { Transport::Ws } else { Transport::Tls }));
        }
    }
    m.push((Proto::Trojan, Transport::Tls));
    let sem = Arc::new(tokio::sync::Semaphore::new(5));
    let mut hs = Vec::new();
    for (idx, (p, t)) in m.into_iter().enumerate() {
        let a = a.clone();
        let sem = sem.clone();
        hs.push(tokio::spawn(async move {
            let _g = sem.acquire_owned().await.unwrap();
            one_config(a, idx, p, t).await
        }));
    }
    for (k, m) in [refimpl::ss::Method::B3Aes128Gcm, refimpl::ss::Method::B3Aes256Gcm].into_iter().enumerate() {
        let a = a.clone();
        let sem = sem.clone();
        hs.push(tokio::spawn(async move {
            let _g = sem.acquire_owned().await.unwrap();
            cross_user_session(a, 100 + k, m).await
        }));
    }
    let mut rep = Report::new();
    for h in hs {
        if let Ok(r) = h.await {
            rep.merge(r);
        }
    }
    rep
}
