//! C04 at node level - a RUNNING server reads the same request whatever way the sender cut it.
//!
//! The codec-level check cuts streams in front of the real `FramedRead` / `WebSocketFramed` adapters. What it cannot
//! reach is everything the nodes put around those adapters: the accept path, the TLS / WebSocket / QUIC set-up with its
//! limits and buffers, the relay's pumps. Here a strict reference client talks to a real server through the transport
//! it listens on and delivers ONE and the same kind of request stream (header, then chunks of the largest size the
//! specification allows, 200 KB .. 1 MB of payload) in different ways:
//!
//!   whole       the complete wire stream in one write (one TCP / TLS / QUIC write, ONE WebSocket message)
//!   fine-head   the first 200 wire bytes one byte per write (per WebSocket message), the rest in pieces of 10 KiB
//!   random      pieces of 1 .. 32 KiB
//!   giant-tail  a small first piece, then everything else at once
//!   around      a cut one byte before / at / one byte behind every chunk boundary of the first chunks
//!
//! (Shadowsocks 2022 keeps its protocol-mandated first-read prefix whole.) Oracle: the target - addressed through the
//! request - receives exactly the positional stream the reference client sealed, the answer (one burst) decodes at the
//! reference client, within the bounded-progress limit; the same flow delivered `whole` is the control.

use std::sync::Arc;
use std::time::Duration;

use refimpl::addr::Addr;
use serde_json::json;

use super::c01::work_dir;
use super::c03::{burst_target, header, stream, HDR};
use super::nodes::*;
use super::pipe::Pipe;
use crate::checks::Args;
use crate::peer::{ClientOpts, RefClient};
use crate::prng::Rng;
use crate::real::{all_protos, Cfg, Proto};
use crate::report::Report;

fn now_s() -> u64 {
    std::time::SystemTime::now().duration_since(std::time::UNIX_EPOCH).unwrap().as_secs()
}

#[derive(Clone, Copy, Debug, PartialEq)]
enum Cutting {
    Whole,
    FineHead,
    Random,
    GiantTail,
    Around,
}

/// cut points (ends of pieces) over a wire of `len` bytes; `keep` = prefix that must stay in one piece; `bounds` = wire
/// offsets where one client write ends (chunk group boundaries)
fn pieces(c: Cutting, len: usize, keep: usize, bounds: &[usize], rng: &mut Rng) -> Vec<usize> {
    let mut ends: Vec<usize> = Vec::new();
    let keep = keep.min(len);
    match c {
        Cutting::Whole => {}
        Cutting::FineHead => {
            for p in keep.max(1)..len.min(keep + 200) {
                ends.push(p);
            }
            let mut p = keep + 200;
            while p < len {
                ends.push(p);
                p += 10 * 1024;
            }
        }
        Cutting::Random => {
            let mut p = keep.max(1);
            while p < len {
                ends.push(p);
                p += 1 + rng.below(32 * 1024) as usize;
            }
        }
        Cutting::GiantTail => ends.push(keep.max(60).min(len - 1)),
        Cutting::Around => {
            for b in bounds.iter().take(6) {
                for d in [-1i64, 0, 1] {
                    let p = (*b as i64 + d) as usize;
                    if p > keep && p < len {
                        ends.push(p);
                    }
                }
            }
        }
    }
    ends.retain(|p| *p > 0 && *p < len && *p >= keep);
    ends.sort();
    ends.dedup();
    ends.push(len);
    ends
}

async fn one_config(a: Args, idx: usize, proto: Proto, transport: Transport) -> Report {
    let mut rep = Report::new();
    let mut rng = Rng::derive(a.seed, 0xC04E, idx as u64);
    let users = match proto {
        Proto::Ss(m) if m.supports_eih() => *rng.pick(&[0usize, 2]),
        Proto::Vmess(_) => 2,
        _ => 0,
    };
    let cfg = Cfg::random(&mut rng, proto, users);
    let cfgname = format!("{}|{}", proto.name(), transport.name());
    let dir = work_dir(&a, &format!("c04-{idx}"));
    let d = Deploy::new(cfg.clone(), transport, false, 2, &dir);
    let (dd, tag) = (d.clone(), format!("c04-{idx}"));
    let started = tokio::task::spawn_blocking(move || {
        let mut server = start_node("server", &dd.server_json(), &dd.dir, &tag, dd.workers, &dd.log_level, None, None).map_err(|e| e.to_string())?;
        let quic = dd.transport == Transport::Quic;
        wait_ready(&mut server, if quic { None } else { Some(dd.server_port) }, if quic { Some(dd.server_port) } else { None }, Duration::from_secs(15))?;
        Ok::<Node, String>(server)
    })
    .await
    .unwrap();
    let mut server = match started {
        Ok(s) => s,
        Err(e) => {
            rep.inconclusive(format!("{cfgname}: server does not start: {}", e.lines().next().unwrap_or("")));
            return rep;
        }
    };
    let nonce = rng.next_u64();
    let Ok((tport, ttask, tproblems)) = burst_target(nonce).await else {
        rep.inconclusive("target: bind");
        return rep;
    };
    let target = Addr::V4([127, 0, 0, 1], tport);
    // Shadowsocks 2022: salt + [identity header] + fixed-length header + its tag must arrive in the first read
    let keep = match proto {
        Proto::Ss(m) if m.is_2022() => m.key_len() + if users > 0 { 16 } else { 0 } + 11 + 16,
        _ => 0,
    };
    let max_chunk = match proto {
        Proto::Ss(m) if m.is_2022() => 0xFFFF,
        _ => 0x3FFF,
    };
    let mut plan = vec![(Cutting::Whole, 200_000usize), (Cutting::FineHead, 60_000), (Cutting::Random, 200_000), (Cutting::GiantTail, 300_000), (Cutting::Around, 150_000)];
    if a.thorough {
        plan.extend([(Cutting::Whole, 1_000_000), (Cutting::Random, 1_000_000), (Cutting::GiantTail, 1_000_000), (Cutting::FineHead, 20), (Cutting::Around, 70_000), (Cutting::Random, 5_000)]);
    }
    let mut control_ok = false;
    for (k, (cutting, up)) in plan.iter().cloned().enumerate() {
        rep.evaluations += 1;
        let down = 20_000usize;
        let mut outcome: Result<(), String> = Ok(());
        let (mut n_pieces, mut largest_piece) = (0usize, 0usize);
        // a failure is believed only if the same delivery fails again on a fresh connection (bounded progress: a loaded
        // machine must not turn into a verdict)
        for attempt in 0..2u32 {
            let flow = (k as u32) * 4 + attempt;
            let vopt = *rng.pick(&refimpl::vmess::VALID_OPTION_MASKS);
            let mut c = RefClient::new(&cfg, &target, &mut rng, now_s(), ClientOpts { vmess_option: vopt, max_chunk, strict_limits: true, ..Default::default() });
            let mut data = header(nonce, flow, up as u32, down as u32);
            data.extend_from_slice(&stream(nonce, flow, 0, up));
            // the complete wire stream first, then the cuts
            let mut wire: Vec<u8> = Vec::new();
            let mut bounds = Vec::new();
            let mut off = 0;
            while off < data.len() {
                let n = (data.len() - off).min(if off == 0 { HDR + 100 } else { max_chunk });
                wire.extend_from_slice(&c.write(&data[off..off + n], &mut rng));
                bounds.push(wire.len());
                off += n;
            }
            let ends = pieces(cutting, wire.len(), keep, &bounds, &mut rng);
            n_pieces = ends.len();
            largest_piece = ends.iter().scan(0usize, |s, e| { let l = *e - *s; *s = *e; Some(l) }).max().unwrap_or(0);
            outcome = async {
                let mut p = Pipe::connect(transport, d.server_port).await?;
                let mut s = 0;
                for e in ends.iter() {
                    p.send(&wire[s..*e]).await.map_err(|x| format!("write of piece {}..{} failed: {x}", s, e))?;
                    s = *e;
                }
                let want = stream(nonce, flow, 1, down);
                let mut got: Vec<u8> = Vec::new();
                let t0 = std::time::Instant::now();
                while got.len() < want.len() {
                    let b = tokio::time::timeout(Duration::from_secs(30).saturating_sub(t0.elapsed()), p.recv()).await.map_err(|_| format!("no complete answer within 30 s ({} of {} bytes)", got.len(), want.len()))??;
                    let Some(b) = b else { return Err(format!("end of stream after {} of {} answer bytes", got.len(), want.len())) };
                    got.extend_from_slice(&c.read(&b).map_err(|e| format!("ref-rejects-answer:{}", crate::panicmon::normalise(&e.to_string())))?);
                }
                if got != want {
                    return Err("answer differs from what the target wrote".into());
                }
                p.finish().await;
                p.abort();
                Ok(())
            }
            .await;
            if outcome.is_ok() {
                if attempt == 1 {
                    rep.inconclusive(format!("{cfgname}: a {:?} delivery failed once and succeeded when repeated", cutting));
                }
                break;
            }
            tokio::time::sleep(Duration::from_millis(300)).await;
        }
        rep.mon(&format!("requests_delivered:{:?}", cutting).to_lowercase(), 1);
        rep.mon("pieces_written", n_pieces as u64);
        let e = rep.extra.entry(format!("largest_piece_written:{}", transport.name())).or_insert(json!(0));
        if e.as_u64().unwrap_or(0) < largest_piece as u64 {
            *e = json!(largest_piece);
        }
        rep.case(&("segmentation-nodes", idx, k), outcome.is_ok() || control_ok);
        match outcome {
            Ok(()) => {
                rep.mon("payload_bytes_compared", (up + down) as u64);
                if cutting == Cutting::Whole {
                    control_ok = true;
                }
            }
            Err(e) => {
                let sym: String = crate::panicmon::normalise(&e).chars().take(70).collect();
                let key = format!("C04|nodes|ref-client->real-server|{}|{:?}|{}", cfgname, cutting, sym).to_lowercase();
                rep.violation(key, format!("{cfgname}: a request delivered {:?} ({} pieces, largest {} bytes, upload {up}) is not served (twice on fresh connections): {e}", cutting, n_pieces, largest_piece), json!({"seed": a.seed, "server": d.server_json(), "cutting": format!("{:?}", cutting), "pieces": n_pieces, "largest_piece": largest_piece, "log": server.log_tail(6)}));
            }
        }
    }
    for p in tproblems.lock().unwrap().iter() {
        rep.violation(format!("C04|nodes|ref-client->real-server|{}|target-side", cfgname), format!("{cfgname}: {p}"), json!({"seed": a.seed, "server": d.server_json()}));
    }
    if !server.alive() {
        rep.violation(format!("C04|nodes|{}|server-exited", cfgname), "server exited", json!({"log": server.log_tail(8)}));
    }
    ttask.abort();
    drop(server);
    if std::env::var("OSV_KEEP_LOGS").is_err() {
        let _ = std::fs::remove_dir_all(&dir);
    }
    rep
}

pub async fn run(a: &Args) -> Report {
    let sem = Arc::new(tokio::sync::Semaphore::new(6));
    let mut hs = Vec::new();
    for (i, p) in all_protos().into_iter().enumerate() {
        for (k, t) in ALL_TRANSPORTS.iter().enumerate() {
            // quick: a websocket transport and one more for every protocol
            let ws_pick = if (i + a.seed as usize) % 2 == 0 { Transport::Ws } else { Transport::Wss };
            let other = [Transport::Tcp, Transport::Tls, Transport::Quic][(i + a.seed as usize) % 3];
            if !a.thorough && *t != ws_pick && *t != other {
                continue;
            }
            let (a, sem, t) = (a.clone(), sem.clone(), *t);
            hs.push(tokio::spawn(async move {
                let _g = sem.acquire_owned().await.unwrap();
                one_config(a, i * 8 + k, p, t).await
            }));
        }
    }
    let mut rep = Report::new();
    for h in hs {
        if let Ok(r) = h.await {
            rep.merge(r);
        }
    }
    rep.sample(json!({"step": "segmentation-nodes", "what": "strict reference client -> REAL server through its transport, the same kind of request delivered whole / byte-wise head / random pieces / giant tail / around chunk boundaries; one write = one WebSocket message on ws and wss", "oracle": "target receives the sealed positional stream, answer decodes at the reference client"}));
    rep
}
