//! C02 - UDP relay preserves each datagram, its addresses and its owner.
//! Applications speak SOCKS5-UDP to the real client's UDP port; echo targets record what arrives.
//! Every datagram carries a unique id (run nonce, application, target, sequence), so delivery is
//! checked as "at most once, whole, to the right target, reply to the right application, labelled
//! with the replier's address".

use std::collections::HashMap;
use std::net::SocketAddr;
use std::sync::{Arc, Mutex};
use std::time::{Duration, Instant};

use serde_json::json;
use tokio::net::UdpSocket;

use super::c01::work_dir;
use super::nodes::*;
use crate::checks::Args;
use crate::prng::Rng;
use crate::real::{Cfg, Proto};
use crate::report::Report;

pub(super) const HDR: usize = 8 + 2 + 2 + 4 + 4 + 1;

pub(super) fn make_payload(nonce: u64, app: u16, target: u16, seq: u32, len: usize, kind: u8) -> Vec<u8> {
    let len = len.max(HDR);
    let mut p = Vec::with_capacity(len);
    p.extend_from_slice(&nonce.to_be_bytes());
    p.extend_from_slice(&app.to_be_bytes());
    p.extend_from_slice(&target.to_be_bytes());
    p.extend_from_slice(&seq.to_be_bytes());
    p.extend_from_slice(&(len as u32).to_be_bytes());
    p.push(kind);
    let mut r = Rng::derive(nonce, ((app as u64) << 32) | seq as u64, target as u64);
    let fill = r.bytes(len - HDR);
    p.extend_from_slice(&fill);
    p
}

#[derive(Debug, Clone, PartialEq)]
pub(super) struct Id {
    pub app: u16,
    pub target: u16,
    pub seq: u32,
    pub kind: u8,
}

/// Parse and verify a datagram payload; Err describes what is wrong with it.
pub(super) fn check_payload(nonce: u64, p: &[u8]) -> Result<Id, String> {
    if p.len() < HDR {
        return Err(format!("short datagram of {} bytes", p.len()));
    }
    if p[..8] != nonce.to_be_bytes() {
        return Err("foreign datagram".into());
    }
    let app = u16::from_be_bytes([p[8], p[9]]);
    let target = u16::from_be_bytes([p[10], p[11]]);
    let seq = u32::from_be_bytes(p[12..16].try_into().unwrap());
    let len = u32::from_be_bytes(p[16..20].try_into().unwrap()) as usize;
    let kind = p[20];
    let want = make_payload(nonce, app, target, seq, len, kind);
    if p.len() < want.len() && want.starts_with(p) {
        return Err(format!("truncated: {} of {} bytes", p.len(), want.len()));
    }
    if p.len() > want.len() && p.starts_with(&want) {
        return Err(format!("merged or extended: {} bytes for a {}-byte datagram", p.len(), want.len()));
    }
    if p != want {
        return Err("altered content".into());
    }
    Ok(Id { app, target, seq, kind })
}

#[derive(Default)]
pub(super) struct TargetLog {
    /// (app, seq) -> times received
    pub seen: HashMap<(u16, u32), u32>,
    pub problems: Vec<String>,
    pub tiny: Vec<Vec<u8>>,
}

pub(super) struct Target {
    pub idx: u16,
    pub port: u16,
    pub log: Arc<Mutex<TargetLog>>,
    task: tokio::task::JoinHandle<()>,
}

impl Drop for Target {
    fn drop(&mut self) {
        self.task.abort();
    }
}

/// Echo target: answers every valid datagram with `replies` reply datagrams (kind=1), the last one from a second socket if asked.
pub(super) async fn start_udp_target(nonce: u64, idx: u16, replies: usize, second_port: bool) -> std::io::Result<Target> {
    let s = Arc::new(UdpSocket::bind("127.0.0.1:0").await?);
    let port = s.local_addr()?.port();
    let s2 = if second_port { Some(Arc::new(UdpSocket::bind("127.0.0.1:0").await?)) } else { None };
    let log = Arc::new(Mutex::new(TargetLog::default()));
    let l = log.clone();
    let task = tokio::spawn(async move {
        let mut buf = vec![0u8; 70000];
        loop {
            let Ok((n, from)) = s.recv_from(&mut buf).await else { continue };
            let p = &buf[..n];
            if n < HDR {
                // tiny datagrams cannot carry an id: echo them verbatim, the sender runs them one at a time
                l.lock().unwrap().tiny.push(p.to_vec());
                let _ = s.send_to(p, from).await;
                continue;
            }
            match check_payload(nonce, p) {
                Ok(id) => {
                    {
                        let mut g = l.lock().unwrap();
                        if id.target != idx {
                            g.problems.push(format!("datagram addressed to target {} arrived at target {}", id.target, idx));
                        }
                        *g.seen.entry((id.app, id.seq)).or_insert(0) += 1;
                    }
                    let len = u32::from_be_bytes(p[16..20].try_into().unwrap()) as usize;
                    for r in 0..replies {
                        let reply = make_payload(nonce, id.app, idx, id.seq, len, 1 + r as u8);
                        let sock = if r + 1 == replies && replies > 1 { s2.as_ref().unwrap_or(&s) } else { &s };
                        let _ = sock.send_to(&reply, from).await;
                    }
                }
                Err(e) => l.lock().unwrap().problems.push(e),
            }
        }
    });
    Ok(Target { idx, port, log, task })
}

pub(super) fn socks5_udp(host: &str, port: u16, data: &[u8]) -> Vec<u8> {
    let mut v = vec![0u8, 0, 0];
    if let Ok(ip) = host.parse::<std::net::Ipv4Addr>() {
        v.push(1);
        v.extend_from_slice(&ip.octets());
    } else {
        v.push(3);
        v.push(host.len() as u8);
        v.extend_from_slice(host.as_bytes());
    }
    v.extend_from_slice(&port.to_be_bytes());
    v.extend_from_slice(data);
    v
}

/// (labelled address, payload) of a SOCKS5-UDP datagram from the client
pub(super) fn socks5_udp_parse(b: &[u8]) -> Option<(String, u16, &[u8])> {
    if b.len() < 4 || b[2] != 0 {
        return None;
    }
    let a = refimpl::addr::socks_decode(&b[3..]).ok()?;
    let (host, port) = match &a.0 {
        refimpl::addr::Addr::V4(ip, p) => (format!("{}.{}.{}.{}", ip[0], ip[1], ip[2], ip[3]), *p),
        refimpl::addr::Addr::V6(ip, p) => (std::net::Ipv6Addr::from(*ip).to_string(), *p),
        refimpl::addr::Addr::Domain(n, p) => (String::from_utf8_lossy(n).to_string(), *p),
    };
    Some((host, port, &b[3 + a.1..]))
}

pub(super) struct AppResult {
    pub sent: HashMap<(u16, u32), usize>,                // (target, seq) -> size
    pub replies: HashMap<(u16, u32, u8), u32>,           // (target, seq, kind) -> count
    pub problems: Vec<String>,
    pub missing_by_size: HashMap<usize, (u32, u32)>,     // size -> (sent, answered)
}

/// One application socket: sends `plan` (target index, size) datagrams with a window of 8, collects replies.
pub(super) async fn run_app(nonce: u64, app: u16, client_port: u16, targets: Vec<(u16, u16, String)>, plan: Vec<(usize, usize)>, replies_per: usize, wait: Duration) -> AppResult {
    let s = UdpSocket::bind("127.0.0.1:0").await.expect("bind");
    let client: SocketAddr = format!("127.0.0.1:{client_port}").parse().unwrap();
    let mut res = AppResult { sent: HashMap::new(), replies: HashMap::new(), problems: vec![], missing_by_size: HashMap::new() };
    let mut buf = vec![0u8; 70000];
    let mut outstanding = 0usize;
    let port_of: HashMap<u16, u16> = targets.iter().map(|(i, p, _)| (*i, *p)).collect();
    let host_of: HashMap<u16, String> = targets.iter().map(|(i, _, h)| (*i, h.clone())).collect();
    let mut handle = |b: &[u8], res: &mut AppResult, outstanding: &mut usize| {
        let Some((host, port, payload)) = socks5_udp_parse(b) else {
            res.problems.push("reply without a valid SOCKS5-UDP header".into());
            return;
        };
        match check_payload(nonce, payload) {
            Ok(id) => {
                if id.app != app {
                    res.problems.push(format!("reply belonging to application {} delivered to application {}", id.app, app));
                    return;
                }
                if id.kind == 0 {
                    res.problems.push("a request datagram came back as a reply".into());
                    return;
                }
                // the label must be the replying target's address (replies of kind >= 2 may come from its second port)
                let want_port = port_of.get(&id.target).copied().unwrap_or(0);
                let from_second = replies_per > 1 && id.kind as usize == replies_per;
                // the target's address as the application named it (a domain name) is as good a label as its IP address
                let host_ok = host == "127.0.0.1" || Some(&host) == host_of.get(&id.target);
                if !host_ok || (port != want_port && !from_second) {
                    res.problems.push(format!("reply labelled {}:{} but the replying target is 127.0.0.1:{}", host, port, want_port));
                } else if from_second && port == want_port {
                    res.problems.push("reply sent from the target's second port is labelled with the first port".into());
                }
                let c = res.replies.entry((id.target, id.seq, id.kind)).or_insert(0);
                *c += 1;
                if *c > 1 {
                    res.problems.push("the same reply was delivered twice".into());
                }
                if id.kind == 1 {
                    *outstanding = outstanding.saturating_sub(1);
                }
            }
            Err(e) => res.problems.push(format!("reply {e}")),
        }
    };
    for (seq, (ti, size)) in plan.iter().enumerate() {
        let (tidx, tport, thost) = &targets[*ti];
        let p = make_payload(nonce, app, *tidx, seq as u32, *size, 0);
        res.sent.insert((*tidx, seq as u32), p.len());
        let d = socks5_udp(thost, *tport, &p);
        if s.send_to(&d, client).await.is_err() {
            res.problems.push("send to the client's UDP port failed".into());
        }
        outstanding += 1;
        // window of 8: loopback does not lose datagrams unless a buffer overflows
        let t0 = Instant::now();
        while outstanding >= 8 && t0.elapsed() < Duration::from_millis(600) {
            if let Ok(Ok((n, _))) = tokio::time::timeout(Duration::from_millis(50), s.recv_from(&mut buf)).await {
                let b = buf[..n].to_vec();
                handle(&b, &mut res, &mut outstanding);
            }
        }
    }
    let t0 = Instant::now();
    let mut quiet = Instant::now();
    while t0.elapsed() < wait && quiet.elapsed() < Duration::from_millis(700) {
        match tokio::time::timeout(Duration::from_millis(100), s.recv_from(&mut buf)).await {
            Ok(Ok((n, _))) => {
                let b = buf[..n].to_vec();
                handle(&b, &mut res, &mut outstanding);
                quiet = Instant::now();
            }
            _ => {
                let answered = res.sent.keys().filter(|(t, q)| res.replies.contains_key(&(*t, *q, 1))).count();
                if answered == res.sent.len() {
                    break;
                }
            }
        }
    }
    for ((t, q), size) in &res.sent {
        let e = res.missing_by_size.entry(*size).or_insert((0, 0));
        e.0 += 1;
        if res.replies.contains_key(&(*t, *q, 1)) {
            e.1 += 1;
        }
    }
    res
}

/// Tiny datagrams (0, 1, 2 bytes): one at a time; exactly the same bytes must come back, once.
async fn tiny_roundtrip(client_port: u16, thost: &str, tport: u16, data: &[u8]) -> Result<(), String> {
    let s = UdpSocket::bind("127.0.0.1:0").await.map_err(|e| e.to_string())?;
    let client: SocketAddr = format!("127.0.0.1:{client_port}").parse().unwrap();
    let mut buf = vec![0u8; 2048];
    for _attempt in 0..3 {
        s.send_to(&socks5_udp(thost, tport, data), client).await.map_err(|e| e.to_string())?;
        if let Ok(Ok((n, _))) = tokio::time::timeout(Duration::from_millis(1500), s.recv_from(&mut buf)).await {
            let Some((_, _, p)) = socks5_udp_parse(&buf[..n]) else { return Err("reply without SOCKS5-UDP header".into()) };
            return if p == data { Ok(()) } else { Err(format!("came back as {} bytes", p.len())) };
        }
    }
    Err("never-answered-in-3-attempts".into())
}

/// One datagram of `size` bytes (unique id) from a fresh socket: Ok(true) = came back whole and identical, Ok(false) = not delivered.
async fn sized_roundtrip(nonce: u64, client_port: u16, thost: &str, tport: u16, tidx: u16, seq: u32, size: usize, wait: Duration) -> Result<bool, String> {
    let s = UdpSocket::bind("127.0.0.1:0").await.map_err(|e| e.to_string())?;
    let client: SocketAddr = format!("127.0.0.1:{client_port}").parse().unwrap();
    let app = 50_000u16;
    let p = make_payload(nonce, app, tidx, seq, size, 0);
    if s.send_to(&socks5_udp(thost, tport, &p), client).await.is_err() {
        return Ok(false); // larger than a UDP datagram can be: the application itself cannot send it
    }
    let mut buf = vec![0u8; 70000];
    match tokio::time::timeout(wait, s.recv_from(&mut buf)).await {
        Ok(Ok((n, _))) => {
            let Some((_, _, payload)) = socks5_udp_parse(&buf[..n]) else { return Err("reply without SOCKS5-UDP header".into()) };
            match check_payload(nonce, payload) {
                Ok(id) if id.app == app && id.seq == seq && id.kind == 1 => Ok(true),
                Ok(id) => Err(format!("reply for application {} seq {} arrived for seq {}", id.app, id.seq, seq)),
                Err(e) => Err(format!("reply {e}")),
            }
        }
        _ => Ok(false),
    }
}

fn udp_matrix(seed: u64, thorough: bool) -> Vec<(Proto, Transport, usize)> {
    let mut v = Vec::new();
    for (i, m) in refimpl::ss::ALL_METHODS.iter().enumerate() {
        for users in [0usize, 1, 3] {
            if users > 0 && !m.supports_eih() {
                continue;
            }
            if thorough || (i + users + seed as usize) % 3 == 0 {
                v.push((Proto::Ss(*m), Transport::Tcp, users));
            }
        }
    }
    for (j, t) in ALL_TRANSPORTS.iter().enumerate() {
        for sec in [3u8, 4] {
            if thorough || (j + sec as usize + seed as usize) % 3 == 0 {
                v.push((Proto::Vmess(sec), *t, 2));
            }
        }
    }
    for (j, t) in [Transport::Tls, Transport::Wss, Transport::Quic].iter().enumerate() {
        if thorough || (j + seed as usize) % 2 == 0 {
            v.push((Proto::Trojan, *t, 0));
        }
    }
    v
}

async fn one_config(a: Args, idx: usize, proto: Proto, transport: Transport, users: usize) -> Report {
    let mut rep = Report::new();
    let mut rng = Rng::derive(a.seed, 0xC02, idx as u64);
    let cfg = Cfg::random(&mut rng, proto, users);
    let dir = work_dir(&a, &format!("c02-{idx}"));
    let mut d = Deploy::new(cfg, transport, true, *rng.pick(&[2usize, 4]), &dir);
    d.client_mode = "tcp_and_udp".into();
    let cfgname = format!("{}|{}|users={}", proto.name(), if matches!(proto, Proto::Ss(_)) { "udp" } else { transport.name() }, users);
    let tag = format!("c02-{idx}");
    let dd = d.clone();
    let mut pair = match tokio::task::spawn_blocking(move || start_pair(&dd, &tag)).await.unwrap() {
        Ok(p) => p,
        Err(e) => {
            rep.violation(format!("C02|{}|nodes-do-not-start", cfgname), format!("client/server pair with UDP does not come up: {}", e.lines().next().unwrap_or("")), json!({"deploy": d.describe(), "error": e}));
            rep.case(&(idx, "start"), false);
            return rep;
        }
    };
    let nonce = rng.next_u64();
    let n_targets = *rng.pick(&[1usize, 3]);
    let replies_per = *rng.pick(&[1usize, 1, 3]);
    let mut targets = Vec::new();
    for t in 0..n_targets {
        match start_udp_target(nonce, t as u16, replies_per, replies_per > 1).await {
            Ok(x) => targets.push(x),
            Err(e) => {
                rep.inconclusive(format!("udp target: {e}"));
                return rep;
            }
        }
    }
    let tinfo: Vec<(u16, u16, String)> = targets.iter().enumerate().map(|(i, t)| (t.idx, t.port, if i >= 1 { "localhost".to_string() } else { "127.0.0.1".to_string() })).collect();
    let k_apps = *rng.pick(&[1usize, 4, if a.thorough { 16 } else { 6 }]);
    let sizes = [HDR, 64, 512, 1200, 1472, 2000, 2048, 4096, 16000, 32000];
    let per_app = if a.thorough { 60 } else { 24 };
    // a second client PROCESS, configured as another user of the same server: its applications share the targets with
    // the first client's; nothing may cross between the two clients, their sessions or their users
    let mut second: Option<Node> = None;
    let mut second_port = 0u16;
    let other = match proto {
        Proto::Ss(_) if d.cfg.users.len() >= 2 => d.cfg.client_user.map(|u| {
            let mut c = d.cfg.clone();
            c.client_user = Some((u + 1) % c.users.len());
            c
        }),
        Proto::Vmess(_) if d.cfg.uuids.len() >= 2 => {
            let mut c = d.cfg.clone();
            c.client_uuid = (c.client_uuid + 1) % c.uuids.len();
            Some(c)
        }
        _ => None,
    };
    if let Some(cfg2) = other {
        let mut d2 = d.clone();
        d2.cfg = cfg2;
        d2.client_port = free_port();
        second_port = d2.client_port;
        let (dj, ddir, t, lvl) = (d2.client_json(), d2.dir.clone(), format!("c02-{idx}-second"), d2.log_level.clone());
        second = tokio::task::spawn_blocking(move || {
            let mut n = start_node("client", &dj, &ddir, &t, 2, &lvl, None, None).ok()?;
            wait_ready(&mut n, Some(second_port), Some(second_port), Duration::from_secs(15)).ok()?;
            Some(n)
        })
        .await
        .unwrap();
        if second.is_some() {
            rep.mon("configurations_with_a_second_client_process", 1);
        }
    }
    let mut apps = Vec::new();
    for app in 0..k_apps {
        let plan: Vec<(usize, usize)> = (0..per_app).map(|k| (rng.below(n_targets as u64) as usize, sizes[(k + app) % sizes.len()])).collect();
        apps.push(tokio::spawn(run_app(nonce, app as u16, d.client_port, tinfo.clone(), plan, replies_per, Duration::from_secs(8))));
    }
    if second.is_some() {
        for app in 0..k_apps.min(4) {
            let plan: Vec<(usize, usize)> = (0..per_app).map(|k| (rng.below(n_targets as u64) as usize, sizes[(k + app + 3) % sizes.len()])).collect();
            apps.push(tokio::spawn(run_app(nonce, 100 + app as u16, second_port, tinfo.clone(), plan, replies_per, Duration::from_secs(8))));
        }
    }
    if idx < 2 {
        rep.sample(json!({"config": cfgname, "applications": k_apps, "targets": n_targets, "replies_per_datagram": replies_per, "sizes": sizes, "datagram_id": "run nonce | application | target | sequence | length | kind, filled from a PRNG keyed by the id"}));
    }
    let mut sent_total = 0u64;
    let mut by_size: HashMap<usize, (u32, u32)> = HashMap::new();
    for (app, h) in apps.into_iter().enumerate() {
        let Ok(r) = h.await else { continue };
        sent_total += r.sent.len() as u64;
        rep.evaluations += r.sent.len() as u64;
        rep.distinct.insert(crate::report::hash_of(&(idx, "app", app)));
        rep.mon("datagrams_sent", r.sent.len() as u64);
        rep.mon("replies_matched", r.replies.values().map(|c| *c as u64).sum());
        for p in r.problems.iter() {
            let class = crate::panicmon::normalise(p);
            rep.violation(format!("C02|{}|application-side:{}", cfgname, class), format!("{}: {}", cfgname, p), json!({"seed": a.seed, "config_index": idx, "application": app, "deploy": d.describe(), "replies_per_datagram": replies_per}));
        }
        for (s, (n, k)) in r.missing_by_size {
            let e = by_size.entry(s).or_insert((0, 0));
            e.0 += n;
            e.1 += k;
        }
    }
    // a size class that is never answered while others are: dropped or truncated class (sporadic loss is only counted)
    let any_answered = by_size.values().any(|(_, k)| *k > 0);
    for (s, (n, k)) in by_size.iter() {
        rep.mon("datagrams_unanswered", (*n - *k) as u64);
        if *k == 0 && *n >= 3 && any_answered {
            rep.violation(format!("C02|{}|size-class-never-delivered:{}", cfgname, s), format!("{}: none of the {} datagrams of {} bytes was answered while other sizes were", cfgname, n, s), json!({"seed": a.seed, "deploy": d.describe(), "by_size": format!("{:?}", by_size)}));
        }
    }
    if !any_answered && sent_total > 0 {
        rep.violation(format!("C02|{}|no-datagram-relayed", cfgname), format!("{}: no datagram was relayed at all", cfgname), json!({"seed": a.seed, "deploy": d.describe(), "client_log": pair.client.log_tail(8), "server_log": pair.server.log_tail(8)}));
    }
    for t in &targets {
        let g = t.log.lock().unwrap();
        rep.mon("datagrams_verified_at_targets", g.seen.values().map(|c| *c as u64).sum());
        for ((app, seq), c) in g.seen.iter() {
            if *c > 1 {
                rep.violation(format!("C02|{}|target-side:datagram-delivered-twice", cfgname), format!("{}: datagram (app {}, seq {}) reached its target {} times", cfgname, app, seq, c), json!({"seed": a.seed, "deploy": d.describe()}));
                break;
            }
        }
        for p in g.problems.iter() {
            rep.violation(format!("C02|{}|target-side:{}", cfgname, crate::panicmon::normalise(p)), format!("{}: {}", cfgname, p), json!({"seed": a.seed, "deploy": d.describe()}));
        }
    }
    // Trojan carries the datagrams of one application socket for ALL targets in one stream, each with its own address: a
    // burst that names one and the same target socket in turns by NAME and by ADDRESS must arrive in the order it was sent
    // (a relay that resolves names on the side lets the literals overtake)
    if any_answered && matches!(proto, Proto::Trojan) {
        if let Ok(ts) = UdpSocket::bind("127.0.0.1:0").await {
            let tport = ts.local_addr().map(|x| x.port()).unwrap_or(0);
            let order: Arc<Mutex<Vec<u32>>> = Arc::new(Mutex::new(Vec::new()));
            let o2 = order.clone();
            let nonce4 = nonce ^ 0x0DE2;
            let tt = tokio::spawn(async move {
                let mut b = vec![0u8; 4096];
                while let Ok((n, _)) = ts.recv_from(&mut b).await {
                    if let Ok(id) = check_payload(nonce4, &b[..n]) {
                        o2.lock().unwrap().push(id.seq);
                    }
                }
            });
            let app = UdpSocket::bind("127.0.0.1:0").await.expect("bind");
            // the first datagram opens the binding (it is resolved before the stream is set up); then bursts of eight
            let _ = app.send_to(&socks5_udp("127.0.0.1", tport, &make_payload(nonce4, 7000, 0, 0, 60, 0)), ("127.0.0.1", d.client_port)).await;
            tokio::time::sleep(Duration::from_millis(300)).await;
            let mut seq = 1u32;
            for _burst in 0..if a.thorough { 30 } else { 10 } {
                for k in 0..8 {
                    let host = if k % 2 == 0 { "localhost" } else { "127.0.0.1" };
                    let _ = app.send_to(&socks5_udp(host, tport, &make_payload(nonce4, 7000, 0, seq, 60, 0)), ("127.0.0.1", d.client_port)).await;
                    seq += 1;
                }
                tokio::time::sleep(Duration::from_millis(40)).await;
            }
            tokio::time::sleep(Duration::from_millis(400)).await;
            tt.abort();
            let got = order.lock().unwrap().clone();
            rep.mon("datagrams_of_one_stream_checked_for_their_order", got.len() as u64);
            rep.case(&(idx, "order-in-one-stream"), !got.is_empty());
            let inversions: Vec<(u32, u32)> = got.windows(2).filter(|w| w[1] < w[0]).map(|w| (w[0], w[1])).collect();
            if !inversions.is_empty() {
                rep.violation(format!("C02|{}|datagrams-of-one-stream-arrive-out-of-order", cfgname), format!("{}: {} of {} datagrams of one application socket (one stream) overtook an earlier one, e.g. seq {} arrived before seq {}", cfgname, inversions.len(), got.len(), inversions[0].1, inversions[0].0), json!({"seed": a.seed, "deploy": d.describe(), "arrival_order": got.iter().take(60).collect::<Vec<_>>(), "names": "even seq: localhost, odd seq: 127.0.0.1 - the same target socket"}));
            }
        }
    }
    // tiny datagrams, one at a time
    if any_answered {
        for data in [&b""[..], &b"x"[..], &b"xy"[..]] {
            let r = tiny_roundtrip(d.client_port, &tinfo[0].2, tinfo[0].1, data).await;
            rep.mon("tiny_datagrams", 1);
            if let Err(e) = r {
                rep.violation(format!("C02|{}|tiny-datagram-len{}:{}", cfgname, data.len(), crate::panicmon::normalise(&e)), format!("{}: a {}-byte datagram {}", cfgname, data.len(), e), json!({"seed": a.seed, "deploy": d.describe()}));
            }
        }
    }
    // the top of the size range: "from 0 up to the largest the path can carry" - whole or not at all, never shortened
    if any_answered {
        let step = if a.thorough { 1 } else { 3 };
        let mut sizes: Vec<usize> = vec![40_000, 60_000, 65_000, 65_300];
        sizes.extend((65_400..=65_497).step_by(step));
        let before: u64 = targets.iter().map(|t| t.log.lock().unwrap().problems.len() as u64).sum();
        let mut largest_ok = 0usize;
        let mut refused = 0u32;
        for (k, size) in sizes.iter().enumerate() {
            match sized_roundtrip(nonce, d.client_port, &tinfo[0].2, tinfo[0].1, tinfo[0].0, 1_000_000 + k as u32, *size, Duration::from_millis(400)).await {
                Ok(true) => {
                    largest_ok = largest_ok.max(*size);
                    rep.mon("near_maximum_datagrams_whole", 1);
                }
                Ok(false) => {
                    refused += 1;
                    rep.mon("near_maximum_datagrams_not_delivered", 1);
                }
                Err(e) => rep.violation(format!("C02|{}|near-maximum-size:{}", cfgname, crate::panicmon::normalise(&e)), format!("{}: a {}-byte datagram: {}", cfgname, size, e), json!({"seed": a.seed, "size": size, "deploy": d.describe()})),
            }
        }
        // a shortened copy may have reached the target even if nothing came back
        for t in &targets {
            let g = t.log.lock().unwrap();
            for p in g.problems.iter().skip(if t.idx == 0 { before as usize } else { g.problems.len() }) {
                rep.violation(format!("C02|{}|near-maximum-size:target-side:{}", cfgname, crate::panicmon::normalise(p)), format!("{}: {}", cfgname, p), json!({"seed": a.seed, "deploy": d.describe()}));
            }
        }
        rep.extra.insert(format!("largest_datagram_relayed:{cfgname}"), json!({"largest_whole": largest_ok, "not_delivered": refused, "probed": sizes.len()}));
    }
    rep.case(&(idx, "udp"), sent_total > 0);
    for (who, node) in [("client", &mut pair.client), ("server", &mut pair.server)] {
        for p in node.panics() {
            rep.violation(format!("C02|{}|{}-panic|{}|{}", cfgname, who, p["frame"].as_str().unwrap_or("?"), crate::panicmon::normalise(p["message"].as_str().unwrap_or(""))), format!("{who} task panicked: {}", p["message"]), json!({"panic": p, "deploy": d.describe()}));
        }
        if !node.alive() {
            rep.violation(format!("C02|{}|{}-exited", cfgname, who), format!("{who} exited"), json!({"log": node.log_tail(10)}));
        }
    }
    drop(targets);
    drop(second);
    drop(pair);
    let _ = std::fs::remove_dir_all(&dir);
    rep
}

pub async fn run(a: &Args) -> Report {
    let m = udp_matrix(a.seed, a.thorough);
    let only: Option<usize> = a.sub.as_ref().and_then(|s| s.strip_prefix("only=").and_then(|x| x.parse().ok()));
    let sem = Arc::new(tokio::sync::Semaphore::new(6));
    let mut hs = Vec::new();
    for (idx, (p, t, u)) in m.into_iter().enumerate() {
        if only.map_or(false, |o| o != idx) {
            continue;
        }
        let a = a.clone();
        let sem = sem.clone();
        hs.push(tokio::spawn(async move {
            let _g = sem.acquire_owned().await.unwrap();
            one_config(a, idx, p, t, u).await
        }));
    }
    let mut rep = Report::new();
    for h in hs {
        if let Ok(r) = h.await {
            rep.merge(r);
        }
    }
    rep
}
