//! C01 - TCP relay is byte-transparent end to end for every supported configuration.

use std::sync::Arc;
use std::time::Duration;

use serde_json::json;

use super::endpoints::*;
use super::nodes::*;
use super::tcpflows::*;
use crate::checks::Args;
use crate::prng::Rng;
use crate::real::{all_protos, Cfg, Proto};
use crate::report::Report;

pub fn work_dir(a: &Args, name: &str) -> std::path::PathBuf {
    let base = if a.out.is_empty() { std::env::temp_dir().join("osv-e2e") } else { std::path::Path::new(&a.out).parent().unwrap_or(std::path::Path::new("/tmp")).join("nodes") };
    let d = base.join(name);
    let _ = std::fs::remove_dir_all(&d);
    std::fs::create_dir_all(&d).ok();
    d
}

pub fn matrix(seed: u64, thorough: bool) -> Vec<(Proto, Transport)> {
    let protos = all_protos();
    let mut v = Vec::new();
    for (i, p) in protos.iter().enumerate() {
        for (j, t) in ALL_TRANSPORTS.iter().enumerate() {
            // quick: every protocol with two transports and every transport with four protocols, rotating with the seed
            if thorough || (i + j + seed as usize) % 5 < 2 {
                v.push((*p, *t));
            }
        }
    }
    v
}

async fn one_config(a: Args, idx: usize, proto: Proto, transport: Transport, permit: tokio::sync::OwnedSemaphorePermit) -> Report {
    let mut rep = Report::new();
    let mut rng = Rng::derive(a.seed, 0xC01, idx as u64);
    let n_users = if matches!(proto, Proto::Ss(m) if m.supports_eih()) && rng.chance(1, 2) { 2 } else if matches!(proto, Proto::Vmess(_)) { 2 } else { 0 };
    let cfg = Cfg::random(&mut rng, proto, n_users);
    let workers = *rng.pick(&[2usize, 4, 16]);
    let dir = work_dir(&a, &format!("c01-{idx}"));
    let mut d = Deploy::new(cfg, transport, false, workers, &dir);
    // the server's configuration file is a list: a second entry of the same protocol, cipher and transport with credentials
    // of its own (another port) is served by the same process, and a second client process talks to it
    let d2 = {
        let mut rng2 = Rng::derive(a.seed, 0xC01B, idx as u64);
        Deploy::new(Cfg::random(&mut rng2, proto, n_users), transport, false, 2, &dir)
    };
    // WebSocket paths as both programs accept them: the README's "/ws", no path at all, one with a query, one with a trailing slash
    if matches!(transport, Transport::Ws | Transport::Wss) {
        d.ws_path = [None, Some(String::new()), Some("/ws?ed=2048".to_string()), Some("/a/b/".to_string())][(idx / 2 + a.seed as usize) % 4].clone();
    }
    d.extra_server_entries.push(d2.server_entry());
    let tag = format!("c01-{idx}");
    let dd = d.clone();
    // half of the stream-transport configurations run through a forwarder that re-segments the client-server link
    // (pieces of random size up to 12 / 64 / 1000 bytes, changing while flows run): read boundaries fall everywhere in the wire format
    let chopper = if transport == Transport::Tcp || (transport != Transport::Quic && rng.chance(1, 2)) { super::chopper::start(d.server_port).await.ok() } else { None };
    let link = chopper.as_ref().map(|c| c.port);
    if let Some(c) = &chopper {
        c.segment.store(*rng.pick(&[12u64, 64, 1000]), std::sync::atomic::Ordering::SeqCst);
        // Shadowsocks 2022 itself demands salt + fixed header (at most 32+16+27 / 32+59 bytes) in the first read: not split
        if matches!(proto, Proto::Ss(m) if m.is_2022()) {
            c.whole_prefix.store(128, std::sync::atomic::Ordering::SeqCst);
        }
    }
    let pair = match tokio::task::spawn_blocking(move || match link {
        Some(p) => start_pair_via(&dd, &tag, p),
        None => start_pair(&dd, &tag),
    })
    .await
    .unwrap()
    {
        Ok(p) => p,
        Err(e) => {
            rep.violation(format!("C01|{}|{}|nodes-do-not-start", proto.name(), transport.name()), format!("client/server pair does not come up: {}", e.lines().next().unwrap_or("")), json!({"deploy": d.describe(), "error": e}));
            rep.case(&(idx, "start"), false);
            return rep;
        }
    };
    let mut pair = pair;
    let reg = Registry::new(rng.next_u64());
    let target = match start_target(reg.clone()).await {
        Ok(t) => t,
        Err(e) => {
            rep.inconclusive(format!("target listener: {e}"));
            return rep;
        }
    };
    // a second target on another port of the same hosts: flows to one name and different ports run side by side
    let target2 = match start_target(reg.clone()).await {
        Ok(t) => t,
        Err(e) => {
            rep.inconclusive(format!("second target listener: {e}"));
            return rep;
        }
    };
    let kinds = README_KINDS;
    // a flow whose target stays silent for 32 s before it answers (longer than any freshness window of the protocols):
    // started now, judged at the end; everything else runs meanwhile
    let late = {
        let spec = FlowSpec { id: (idx as u64) << 16 | 5000, kind: kinds[idx % kinds.len()], c2s: 2000, s2c: 3000, write_c: 700, write_s: 900, pause_ms: 0, pattern: Pattern::LateAnswer(32_000), closer: Closer::TargetAfterAnswer };
        let (reg, d, port) = (reg.clone(), d.clone(), target2.port);
        tokio::spawn(async move { run_batch(reg, &d, port, vec![spec], 1, Duration::from_secs(60)).await })
    };
    let n_flows = if a.thorough { 100 } else { 16 };
    let mut specs = Vec::new();
    for k in 0..n_flows {
        let mut s = random_spec(&mut rng, (idx as u64) << 16 | k as u64, &kinds, a.thorough && k % 6 == 0);
        s.kind = kinds[k % kinds.len()];
        specs.push(s);
    }
    if std::env::var("OSV_PROBE_FLOW").is_ok() {
        // diagnosis aid: every flow is an upload that the application closes right after its last byte
        for s in specs.iter_mut() {
            s.c2s = 300_000;
            s.s2c = 0;
            s.write_c = 65536;
            s.pause_ms = 0;
            s.pattern = Pattern::Simultaneous;
            s.closer = Closer::AppAfterAll;
        }
    }
    if idx < 2 {
        rep.sample(json!({"config": {"proto": proto.name(), "transport": transport.name(), "workers": workers, "users": n_users}, "flows": specs.iter().take(4).map(|s| s.describe()).collect::<Vec<_>>()}));
    }
    // first one flow at a time, then the rest 8 at a time
    let (solo, rest) = specs.split_at(specs.len().min(4));
    let mut results = run_batch(reg.clone(), &d, target.port, solo.to_vec(), 1, Duration::from_secs(25)).await;
    if let Some(c) = &chopper {
        c.segment.store(*rng.pick(&[12u64, 100, 2000, 0]), std::sync::atomic::Ordering::SeqCst);
        rep.mon("configurations_with_resegmented_link", 1);
    }
    {
        // the rest 8 at a time, alternating between the two target ports (same host names, different ports, side by side)
        let (even, odd): (Vec<(usize, FlowSpec)>, Vec<(usize, FlowSpec)>) = rest.iter().cloned().enumerate().partition(|(k, _)| k % 2 == 0);
        let (r1, r2) = tokio::join!(
            run_batch(reg.clone(), &d, target.port, even.into_iter().map(|x| x.1).collect(), 4, Duration::from_secs(40)),
            run_batch(reg.clone(), &d, target2.port, odd.into_iter().map(|x| x.1).collect(), 4, Duration::from_secs(40))
        );
        rep.mon("flows_to_a_second_port_of_the_same_host", r2.len() as u64);
        results.extend(r1);
        results.extend(r2);
    }
    // an extra concurrent burst on some configurations (C09 at node level)
    if a.thorough || idx % 4 == 0 {
        let mut burst = Vec::new();
        for k in 0..if a.thorough { 64 } else { 24 } {
            let mut s = random_spec(&mut rng, (idx as u64) << 16 | (1000 + k) as u64, &kinds, false);
            s.closer = Closer::TargetAfterAnswer;
            burst.push(s);
        }
        rep.mon("concurrent_burst_flows", burst.len() as u64);
        results.extend(run_batch(reg.clone(), &d, target.port, burst, 64, Duration::from_secs(60)).await);
    }
    // uploads: the application writes a few hundred KB and closes at once, never reading (nothing is coming): every
    // byte it wrote must still reach the target (a relay that drops its server connection while anything from the
    // server is unread - a TLS session ticket is enough - resets it and the server loses the tail)
    {
        let mut ups = Vec::new();
        for k in 0..if a.thorough { 32 } else { 16 } {
            let size = [300_000usize, 120_000, 1 << 20, 65_536][k % 4];
            ups.push(FlowSpec { id: (idx as u64) << 16 | (3000 + k) as u64, kind: kinds[k % kinds.len()], c2s: size, s2c: 0, write_c: 65536, write_s: 1, pause_ms: 0, pattern: Pattern::Simultaneous, closer: Closer::AppAfterAll });
        }
        // the same against a target that starts reading 1.5 s later: when the application has long closed, most of the upload
        // is still on its way to the target
        for k in 0..4usize {
            ups.push(FlowSpec { id: (idx as u64) << 16 | (3100 + k) as u64, kind: kinds[k % kinds.len()], c2s: [400_000usize, 1 << 20][k % 2], s2c: 0, write_c: 65536, write_s: 1, pause_ms: 0, pattern: Pattern::SlowTarget(1500), closer: Closer::AppAfterAll });
        }
        rep.mon("upload_and_close_flows", ups.len() as u64);
        results.extend(run_batch(reg.clone(), &d, target.port, ups, 8, Duration::from_secs(40)).await);
    }
    // full-duplex bulk with one end that reads nothing until it has written everything: 12 MiB each way is far more than the
    // socket buffers along the path hold, so the direction towards the deaf end stalls - and the other one must go on
    // (a relay that drives both directions from one loop, or waits for a write while it should be reading, stops for good)
    {
        let big = if a.thorough { 24 << 20 } else { 12 << 20 };
        let duplex = vec![
            FlowSpec { id: (idx as u64) << 16 | 4000, kind: kinds[idx % kinds.len()], c2s: big, s2c: big, write_c: 65536, write_s: 65536, pause_ms: 0, pattern: Pattern::DeafApp, closer: Closer::AppAfterAll },
            FlowSpec { id: (idx as u64) << 16 | 4001, kind: kinds[(idx + 1) % kinds.len()], c2s: big, s2c: big, write_c: 65536, write_s: 65536, pause_ms: 0, pattern: Pattern::DeafTarget, closer: Closer::AppAfterAll },
        ];
        rep.mon("full_duplex_bulk_flows_with_a_deaf_end", duplex.len() as u64);
        results.extend(run_batch(reg.clone(), &d, target.port, duplex, 2, Duration::from_secs(40)).await);
    }
    // flows through the server's SECOND entry (its own credentials), by a second client process
    {
        let (d2c, tag2) = (d2.clone(), format!("c01-{idx}-b"));
        let client2 = tokio::task::spawn_blocking(move || {
            let mut c = start_node("client", &d2c.client_json(), &d2c.dir, &tag2, d2c.workers, &d2c.log_level, None, None).map_err(|e| e.to_string())?;
            wait_ready(&mut c, Some(d2c.client_port), None, Duration::from_secs(15))?;
            Ok::<Node, String>(c)
        })
        .await
        .unwrap();
        match client2 {
            Ok(_c2) => {
                let mut specs2 = Vec::new();
                for k in 0..6usize {
                    let mut s = random_spec(&mut rng, (idx as u64) << 16 | (4100 + k) as u64, &kinds, false);
                    s.kind = kinds[k % kinds.len()];
                    s.closer = if k % 2 == 0 { Closer::TargetAfterAnswer } else { Closer::AppAfterAll };
                    specs2.push(s);
                }
                rep.mon("flows_through_a_second_entry_of_the_server_configuration", specs2.len() as u64);
                results.extend(run_batch(reg.clone(), &d2, target.port, specs2, 3, Duration::from_secs(30)).await);
            }
            Err(e) => rep.violation(format!("C01|{}|{}|second-entry|client-does-not-start", proto.name(), transport.name()), format!("a client for the server's second entry does not come up: {}", e.lines().next().unwrap_or("")), json!({"deploy": d2.describe(), "error": e})),
        }
    }
    // the wait for the late answer does not occupy a slot: other configurations run meanwhile
    drop(permit);
    match late.await {
        Ok(r) => {
            rep.mon("flows_answered_after_32_s_of_silence", r.len() as u64);
            results.extend(r);
        }
        Err(_) => rep.inconclusive("late-answer flow: task failed"),
    }
    for (spec, v) in results {
        rep.case(&(idx, spec.id), v.bytes_verified > 0 || v.symptom.is_some());
        rep.mon("flows_run", 1);
        rep.mon("payload_bytes_verified", v.bytes_verified as u64);
        if let Some(l) = v.latency_eof_ms {
            rep.mon(if l < 100 { "eof_latency_under_100ms" } else if l < 1000 { "eof_latency_under_1s" } else { "eof_latency_over_1s" }, 1);
        }
        if let Some(sym) = v.symptom {
            let sig = format!("C01|{}|{}|{:?}|{}", proto.name(), transport.name(), spec.kind, sym);
            rep.violation(sig, format!("{} over {} ({:?}): {}", proto.name(), transport.name(), spec.kind, sym), json!({"seed": a.seed, "config_index": idx, "deploy": d.describe(), "flow": spec.describe(), "observed": v.detail, "client_log_tail": pair.client.log_tail(6), "server_log_tail": pair.server.log_tail(6)}));
        }
    }
    // flows in which the application sends nothing and the target speaks first (0 bytes in one direction)
    {
        let nonce = rng.next_u64();
        let n = *rng.pick(&[1usize, 100, 20000]);
        if let Ok(g) = start_greeter(nonce, n).await {
            for kind in [LocalKind::Socks5V4, LocalKind::HttpConnect] {
                let r = run_silent_app(d.client_port, kind, host_for(kind), g.port, nonce, n, Duration::from_secs(8)).await;
                rep.case(&(idx, "target-first", format!("{:?}", kind)), true);
                rep.mon("target_speaks_first_flows", 1);
                match r {
                    Ok(k) => rep.mon("payload_bytes_verified", k as u64),
                    Err(sym) => rep.violation(format!("C01|{}|{}|{:?}|target-speaks-first:{}", proto.name(), transport.name(), kind, sym), format!("{} over {}: application sends nothing, target speaks first: {}", proto.name(), transport.name(), sym), json!({"seed": a.seed, "config_index": idx, "deploy": d.describe(), "greeting_bytes": n})),
                }
            }
        }
    }
    for u in reg.unattributed.lock().unwrap().iter() {
        rep.violation(format!("C01|{}|{}|unattributed-connection-at-target", proto.name(), transport.name()), u.clone(), json!({"deploy": d.describe()}));
    }
    for (who, node) in [("client", &mut pair.client), ("server", &mut pair.server)] {
        for p in node.panics() {
            rep.violation(format!("C01|{}|{}|{}-panic|{}|{}", proto.name(), transport.name(), who, p["frame"].as_str().unwrap_or("?"), crate::panicmon::normalise(p["message"].as_str().unwrap_or(""))), format!("{who} task panicked during relaying: {}", p["message"]), json!({"deploy": d.describe(), "panic": p}));
        }
        if !node.alive() {
            rep.violation(format!("C01|{}|{}|{}-exited", proto.name(), transport.name(), who), format!("{who} process exited during relaying"), json!({"deploy": d.describe(), "log": node.log_tail(10)}));
        }
    }
    drop(target);
    drop(target2);
    drop(pair);
    drop(chopper);
    if std::env::var("OSV_KEEP_LOGS").is_err() {
        let _ = std::fs::remove_dir_all(&dir);
    }
    rep
}

pub async fn run(a: &Args) -> Report {
    let m = matrix(a.seed, a.thorough);
    let only: Option<usize> = a.sub.as_ref().and_then(|s| s.strip_prefix("only=").and_then(|x| x.parse().ok()));
    let sem = Arc::new(tokio::sync::Semaphore::new(6));
    let mut hs = Vec::new();
    for (idx, (p, t)) in m.into_iter().enumerate() {
        if only.map_or(false, |o| o != idx) {
            continue;
        }
        let a = a.clone();
        let sem = sem.clone();
        hs.push(tokio::spawn(async move {
            let g = sem.acquire_owned().await.unwrap();
            (idx, p, t, one_config(a, idx, p, t, g).await)
        }));
    }
    let mut rep = Report::new();
    let mut suspects: Vec<(usize, Proto, Transport, Report)> = Vec::new();
    for h in hs {
        if let Ok((idx, p, t, r)) = h.await {
            if r.violations.is_empty() {
                rep.merge(r);
            } else {
                suspects.push((idx, p, t, r));
            }
        }
    }
    // DESIGN section 5: a witness against running nodes is executed once more, in isolation (a fresh pair, nothing else
    // running), before it is believed. A symptom is kept when the same configuration shows the same symptom again
    // (whatever the local handshake kind of the flow); one that does not come back is inconclusive, not a violation.
    let symptom = |sig: &str| -> String {
        let parts: Vec<&str> = sig.split('|').collect();
        if parts.len() >= 5 { format!("{}|{}|{}", parts[1], parts[2], parts[4..].join("|")) } else { sig.to_string() }
    };
    // the symptom without protocol, transport and handshake kind
    let class = |sig: &str| -> String { sig.split('|').skip(4).collect::<Vec<_>>().join("|") };
    let mut confirmed_classes: std::collections::HashMap<String, usize> = std::collections::HashMap::new();
    for (n, (idx, p, t, mut r)) in suspects.into_iter().enumerate() {
        // the check stays bounded when something is wrong everywhere: four configurations are run again; a further one is
        // believed without a run of its own when the very same symptom has come back in isolation for two others
        let confirmed: std::collections::HashSet<String> = if n < 4 {
            let sem1 = Arc::new(tokio::sync::Semaphore::new(1));
            let again = one_config(a.clone(), idx, p, t, sem1.acquire_owned().await.unwrap()).await;
            rep.mon("configurations_re_run_in_isolation", 1);
            let c: std::collections::HashSet<String> = again.violations.keys().map(|k| symptom(k)).collect();
            for k in r.violations.keys() {
                if c.contains(&symptom(k)) {
                    *confirmed_classes.entry(class(k)).or_insert(0) += 1;
                }
            }
            c
        } else {
            rep.mon("suspect_configurations_judged_by_the_re_runs_of_others", 1);
            r.violations.keys().filter(|k| confirmed_classes.get(&class(k)).copied().unwrap_or(0) >= 2).map(|k| symptom(k)).collect()
        };
        let sigs: Vec<String> = r.violations.keys().cloned().collect();
        for sig in sigs {
            if !confirmed.contains(&symptom(&sig)) {
                let v = r.violations.remove(&sig).unwrap();
                rep.mon("symptoms_not_reproduced_in_isolation", v.count as u64);
                rep.inconclusive(format!("seen once, not reproduced when the configuration was run again in isolation: {sig}"));
                rep.note(format!("not reproduced in isolation: {} ({})", sig, v.what));
            }
        }
        rep.merge(r);
    }
    rep
}
