//! C15 - closing or failing one side tears the whole flow down and frees it.
//! Batches of flows ending in every way run through real nodes; monitors: positional streams
//! ("delivered first"), end-of-stream latency on the far side, and resource accounting
//! (/proc/<pid>/fd by kind and tokio's alive-task count) against an idle baseline.

use std::sync::atomic::Ordering;
use std::sync::Arc;
use std::time::{Duration, Instant};

use serde_json::json;
use tokio::io::{AsyncReadExt, AsyncWriteExt};

use super::c01::work_dir;
use super::endpoints::*;
use super::nodes::*;
use super::procfs::{fd_count, FdCount};
use super::tcpflows::*;
use crate::checks::Args;
use crate::prng::Rng;
use crate::real::{Cfg, Proto};
use crate::report::Report;

#[derive(Clone, Debug, PartialEq)]
struct Usage {
    client: FdCount,
    server: FdCount,
    client_tasks: Option<u64>,
    server_tasks: Option<u64>,
}

fn usage(pair: &Pair) -> Usage {
    Usage { client: fd_count(pair.client.pid), server: fd_count(pair.server.pid), client_tasks: pair.client.tasks(), server_tasks: pair.server.tasks() }
}

/// Sample until unchanged for `calm`; None if it never settles within `watchdog`.
async fn settle(pair: &Pair, calm: Duration, watchdog: Duration) -> Option<Usage> {
    let t0 = Instant::now();
    let mut last = usage(pair);
    let mut since = Instant::now();
    loop {
        tokio::time::sleep(Duration::from_millis(100)).await;
        let u = usage(pair);
        if u != last {
            last = u;
            since = Instant::now();
        } else if since.elapsed() >= calm {
            return Some(last);
        }
        if t0.elapsed() > watchdog {
            return None;
        }
    }
}

fn diff(a: &Usage, b: &Usage) -> serde_json::Value {
    json!({
        "client_fds": {"tcp": a.client.tcp as i64 - b.client.tcp as i64, "udp": a.client.udp as i64 - b.client.udp as i64, "other": a.client.other as i64 - b.client.other as i64},
        "server_fds": {"tcp": a.server.tcp as i64 - b.server.tcp as i64, "udp": a.server.udp as i64 - b.server.udp as i64, "other": a.server.other as i64 - b.server.other as i64},
        "client_tasks": a.client_tasks.zip(b.client_tasks).map(|(x, y)| x as i64 - y as i64),
        "server_tasks": a.server_tasks.zip(b.server_tasks).map(|(x, y)| x as i64 - y as i64),
    })
}

fn leak_amount(a: &Usage, b: &Usage) -> i64 {
    let f = |x: &FdCount, y: &FdCount| (x.tcp as i64 - y.tcp as i64).max(0) + (x.udp as i64 - y.udp as i64).max(0) + (x.other as i64 - y.other as i64).max(0);
    let t = |x: Option<u64>, y: Option<u64>| x.zip(y).map(|(x, y)| (x as i64 - y as i64).max(0)).unwrap_or(0);
    f(&a.client, &b.client) + f(&a.server, &b.server) + t(a.client_tasks, b.client_tasks) + t(a.server_tasks, b.server_tasks)
}

/// Flows whose *target* cannot be reached: the application must be released promptly.
async fn unreachable_flow(client_port: u16, kind: LocalKind, host: &str, port: u16, bound: Duration) -> Result<u128, String> {
    let mut s = tokio::net::TcpStream::connect(("127.0.0.1", client_port)).await.map_err(|e| format!("connect: {e}"))?;
    match tokio::time::timeout(Duration::from_secs(20), local_handshake(&mut s, kind, host, port)).await {
        Ok(Ok(())) => {}
        // being refused already in the handshake is a fine way of releasing the application
        Ok(Err(_)) => return Ok(0),
        Err(_) => return Err("local-handshake-never-answered".into()),
    }
    let t0 = Instant::now();
    let _ = s.write_all(b"hello, is anybody there?").await;
    let mut buf = [0u8; 256];
    loop {
        match tokio::time::timeout(bound.saturating_sub(t0.elapsed()), s.read(&mut buf)).await {
            Err(_) => return Err("application-not-released".into()),
            Ok(Ok(0)) | Ok(Err(_)) => return Ok(t0.elapsed().as_millis()),
            Ok(Ok(_)) => return Err("application-received-bytes-from-an-unreachable-target".into()),
        }
    }
}

async fn one_config(a: Args, idx: usize, proto: Proto, transport: Transport) -> Report {
    let mut rep = Report::new();
    let mut rng = Rng::derive(a.seed, 0xC15, idx as u64);
    let cfg = Cfg::random(&mut rng, proto, if matches!(proto, Proto::Vmess(_)) { 1 } else { 0 });
    let dir = work_dir(&a, &format!("c15-{idx}"));
    let mut d = Deploy::new(cfg, transport, false, 4, &dir);
    // a forwarder between client and server lets the link itself be cut (not for QUIC, which is UDP)
    let chopper = if transport != Transport::Quic { super::chopper::start(d.server_port).await.ok() } else { None };
    let real_server_port = d.server_port;
    let tag = format!("c15-{idx}");
    let pair = {
        let mut dd = d.clone();
        let chop_port = chopper.as_ref().map(|c| c.port);
        match tokio::task::spawn_blocking(move || {
            // the server listens on its real port; the client is pointed at the forwarder
            let server_json = dd.server_json();
            if let Some(p) = chop_port {
                dd.server_port = p;
            }
            let client_json = dd.client_json();
            dd.server_port = real_server_port;
            let mut server = start_node("server", &server_json, &dd.dir, &tag, dd.workers, &dd.log_level, None, None).map_err(|e| e.to_string())?;
            let quic = dd.transport == Transport::Quic;
            let ss_quic = quic && matches!(dd.cfg.proto, Proto::Ss(_));
            wait_ready(&mut server, if ss_quic { None } else { Some(real_server_port) }, if quic { Some(real_server_port) } else { None }, Duration::from_secs(15))?;
            let mut client = start_node("client", &client_json, &dd.dir, &tag, dd.workers, &dd.log_level, None, None).map_err(|e| e.to_string())?;
            wait_ready(&mut client, Some(dd.client_port), None, Duration::from_secs(15))?;
            Ok::<Pair, String>(Pair { deploy: dd, client, server })
        })
        .await
        .unwrap()
        {
            Ok(p) => p,
            Err(e) => {
                rep.inconclusive(format!("nodes do not start: {}", e.lines().next().unwrap_or("")));
                return rep;
            }
        }
    };
    d.server_port = real_server_port;
    let mut pair = pair;
    let reg = Registry::new(rng.next_u64());
    let Ok(target) = start_target(reg.clone()).await else {
        rep.inconclusive("target listener");
        return rep;
    };
    let cfgname = format!("{}|{}", proto.name(), transport.name());
    // warm-up, then the idle baseline
    let warm: Vec<FlowSpec> = (0..3).map(|k| FlowSpec { id: (idx as u64) << 20 | k, kind: README_KINDS[k as usize % 4], c2s: 1000, s2c: 1000, write_c: 500, write_s: 500, pause_ms: 0, pattern: Pattern::RequestResponse, closer: Closer::TargetAfterAnswer }).collect();
    let _ = run_batch(reg.clone(), &d, target.port, warm, 3, Duration::from_secs(20)).await;
    let Some(baseline) = settle(&pair, Duration::from_millis(1500), Duration::from_secs(20)).await else {
        rep.inconclusive("idle baseline never settled");
        return rep;
    };
    let endings: Vec<Closer> = vec![Closer::TargetAfterAnswer, Closer::AppAfterAll, Closer::AppAfterRequest, Closer::AppMid(3000), Closer::TargetMid(3000), Closer::AppReset(3000), Closer::TargetReset(3000), Closer::AppMid(0), Closer::TargetMid(0), Closer::AppAfterAllTargetHolds];
    let mut next_id = 100u64;
    let mut batches: Vec<(usize, Usage)> = Vec::new();
    let sizes = if a.thorough { vec![16usize, 32, 64] } else { vec![12usize, 24] };
    let sizes_last = &sizes[sizes.len() - 1].clone();
    for n in sizes.clone() {
        let mut specs = Vec::new();
        for k in 0..n {
            let closer = endings[k % endings.len()];
            let big = rng.chance(1, 3);
            next_id += 1;
            specs.push(FlowSpec { id: (idx as u64) << 20 | next_id, kind: README_KINDS[k % 4], c2s: if big { 200_000 } else { 8000 }, s2c: if big { 200_000 } else { 8000 }, write_c: 4000, write_s: 4000, pause_ms: 0, pattern: if k % 2 == 0 { Pattern::RequestResponse } else { Pattern::Simultaneous }, closer });
        }
        let results = run_batch(reg.clone(), &d, target.port, specs, n, Duration::from_secs(30)).await;
        for (spec, v) in results {
            rep.case(&(idx, spec.id), true);
            rep.mon("flows_ended", 1);
            rep.mon("payload_bytes_verified", v.bytes_verified as u64);
            if let Some(l) = v.latency_eof_ms {
                rep.mon(if l < 100 { "eof_latency_under_100ms" } else if l < 1000 { "eof_latency_under_1s" } else { "eof_latency_over_1s" }, 1);
            }
            if let Some(sym) = v.symptom {
                rep.violation(format!("C15|{}|{:?}|{}", cfgname, spec.kind, sym), format!("{}: flow ending {:?}: {}", cfgname, spec.closer, sym), json!({"seed": a.seed, "config_index": idx, "deploy": d.describe(), "flow": spec.describe(), "observed": v.detail}));
            }
        }
        // unreachable targets: refused port, unresolvable name
        let dead_port = free_port();
        for (what, kind, host, port) in [("refused", LocalKind::Socks5V4, "127.0.0.1", dead_port), ("refused", LocalKind::HttpConnect, "localhost", dead_port), ("unresolvable", LocalKind::Socks5Domain, "no-such-host.invalid", 80u16), ("unresolvable", LocalKind::HttpConnect, "no-such-host.invalid", 80u16)] {
            let r = unreachable_flow(d.client_port, kind, host, port, Duration::from_secs(10)).await;
            rep.case(&(idx, n, what, format!("{:?}", kind)), true);
            rep.mon("unreachable_target_flows", 1);
            if let Err(sym) = r {
                rep.violation(format!("C15|{}|{:?}|target-{}:{}", cfgname, kind, what, sym), format!("{}: target {}: {}", cfgname, what, sym), json!({"seed": a.seed, "deploy": d.describe(), "host": host, "port": port}));
            }
        }
        // the link between client and server is cut while flows are in progress
        if let Some(ch) = &chopper {
            let mut specs = Vec::new();
            for k in 0..6 {
                next_id += 1;
                specs.push(FlowSpec { id: (idx as u64) << 20 | next_id, kind: README_KINDS[k % 4], c2s: 4_000_000, s2c: 4_000_000, write_c: 1000, write_s: 1000, pause_ms: 2, pattern: Pattern::Simultaneous, closer: Closer::AppAfterAll });
            }
            let reg2 = reg.clone();
            let d2 = d.clone();
            let tp = target.port;
            let flows = tokio::spawn(async move { run_batch(reg2, &d2, tp, specs, 6, Duration::from_secs(12)).await });
            tokio::time::sleep(Duration::from_millis(400)).await;
            if n % 2 == 0 {
                ch.reset.store(true, Ordering::SeqCst);
            }
            ch.cut.store(true, Ordering::SeqCst);
            let t_cut = Instant::now();
            let results = flows.await.unwrap_or_default();
            ch.cut.store(false, Ordering::SeqCst);
            ch.reset.store(false, Ordering::SeqCst);
            for (spec, v) in results {
                rep.case(&(idx, spec.id, "link-cut"), true);
                rep.mon("link_cut_flows", 1);
                // after the cut both ends must be released; content received so far must be a correct prefix
                let app_released = v.detail["app"]["eof"] == true || v.detail["app"]["reset"] == true || v.detail["app"]["error"].is_string();
                let tgt_released = v.detail["target"]["eof"] == true || v.detail["target"]["reset"] == true;
                let bad = v.detail["app"]["bad"].is_array() || v.detail["target"]["bad"].is_array();
                let sym = if bad {
                    Some("wrong-bytes-delivered-around-a-link-cut")
                } else if !app_released {
                    Some("application-not-released-after-link-cut")
                } else if !tgt_released {
                    Some("target-not-released-after-link-cut")
                } else {
                    None
                };
                if let Some(sym) = sym {
                    rep.violation(format!("C15|{}|{:?}|{}", cfgname, spec.kind, sym), format!("{}: {}", cfgname, sym), json!({"seed": a.seed, "deploy": d.describe(), "flow": spec.describe(), "observed": v.detail, "ms_since_cut": t_cut.elapsed().as_millis()}));
                }
            }
        }
        // applications that give up in the middle of the local handshake (once per configuration: the client may hold
        // such a connection until its 30 s handshake timer fires, which the accounting below waits out)
        if n == *sizes_last {
            let partials: [&[u8]; 6] = [b"\x05", b"\x05\x01", b"CONNECT localhost:80 HTTP/1.1\r\nHost: localhost\r\n", b"GET http://localhost/ HT", b"C", b"\x05\x01\x00"];
            for (k, p) in partials.iter().enumerate() {
                if let Ok(mut s) = tokio::net::TcpStream::connect(("127.0.0.1", d.client_port)).await {
                    let _ = s.write_all(p).await;
                    if k == 5 {
                        let mut r = [0u8; 2];
                        let _ = tokio::time::timeout(Duration::from_secs(2), s.read_exact(&mut r)).await;
                        let _ = s.write_all(b"\x05\x01\x00\x03\x09loc").await;
                    }
                    let _ = s.shutdown().await;
                    tokio::time::sleep(Duration::from_millis(50)).await;
                    drop(s);
                    rep.mon("abandoned_local_handshakes", 1);
                    rep.case(&(idx, "abandoned-handshake", k), true);
                }
            }
        }
        // quiescence and accounting
        match settle(&pair, Duration::from_secs(2), Duration::from_secs(30)).await {
            Some(mut u) => {
                // something still above the baseline may be waiting for a protocol timer (QUIC idle timeout, 30 s):
                // give it that long before calling it a leak
                let t0 = Instant::now();
                while leak_amount(&u, &baseline) > 0 && t0.elapsed() < Duration::from_secs(40) {
                    tokio::time::sleep(Duration::from_millis(500)).await;
                    u = usage(&pair);
                }
                if t0.elapsed() > Duration::from_secs(3) {
                    rep.mon("slow_releases_waited_for", 1);
                    rep.note(format!("{cfgname}: resources returned to {} above baseline only after {:.0} s", leak_amount(&u, &baseline), t0.elapsed().as_secs_f64()));
                }
                rep.mon("resource_samples_settled", 1);
                batches.push((n, u));
            }
            None => rep.inconclusive("descriptor/task counts never settled after a batch"),
        }
    }
    // volume: more ended flows than any bounded queue, table or counter in the relay is likely to hold (320 small flows,
    // 16 at a time, ended by the target / by the application in turns), then the same accounting
    {
        let n = 320usize;
        let mut specs = Vec::new();
        for k in 0..n {
            next_id += 1;
            specs.push(FlowSpec { id: (idx as u64) << 20 | next_id, kind: README_KINDS[k % 4], c2s: 600, s2c: 900, write_c: 600, write_s: 900, pause_ms: 0, pattern: Pattern::RequestResponse, closer: if k % 2 == 0 { Closer::TargetAfterAnswer } else { Closer::AppAfterAll } });
        }
        let results = run_batch(reg.clone(), &d, target.port, specs, 16, Duration::from_secs(30)).await;
        let ended = results.iter().filter(|(_, v)| v.symptom.is_none()).count();
        rep.mon("flows_ended_in_the_volume_batch", ended as u64);
        rep.case(&(idx, "volume"), ended > 0);
        match settle(&pair, Duration::from_secs(2), Duration::from_secs(30)).await {
            Some(mut u) => {
                let t0 = Instant::now();
                while leak_amount(&u, &baseline) > 0 && t0.elapsed() < Duration::from_secs(40) {
                    tokio::time::sleep(Duration::from_millis(500)).await;
                    u = usage(&pair);
                }
                rep.mon("resource_samples_settled", 1);
                batches.push((batches.iter().map(|b| b.0).sum::<usize>() + n, u));
            }
            None => rep.inconclusive("descriptor/task counts never settled after the volume batch"),
        }
    }
    // a leak that grows with the number of flows is a violation; a constant offset is warm-up state
    if batches.len() >= 2 {
        let (n1, u1) = &batches[0];
        let (n2, u2) = &batches[batches.len() - 1];
        let l1 = leak_amount(u1, &baseline);
        let l2 = leak_amount(u2, &baseline);
        rep.extra.insert(format!("resources:{cfgname}"), json!({"baseline": format!("{:?}", baseline), "after_first_batch": diff(u1, &baseline), "after_last_batch": diff(u2, &baseline), "flows": [n1, n2]}));
        if l2 > l1 && l2 >= 3 {
            // which kind grows
            let d = diff(u2, &baseline);
            let mut kinds = Vec::new();
            for who in ["client_fds", "server_fds"] {
                for k in ["tcp", "udp", "other"] {
                    if d[who][k].as_i64().unwrap_or(0) >= 2 {
                        kinds.push(format!("{}-{}", who.replace("_fds", ""), k));
                    }
                }
            }
            for who in ["client_tasks", "server_tasks"] {
                if d[who].as_i64().unwrap_or(0) >= 2 {
                    kinds.push(who.replace('_', "-"));
                }
            }
            rep.violation(format!("C15|{}|resources-grow-with-ended-flows:{}", cfgname, kinds.join("+")), format!("{}: descriptors/tasks above the idle baseline grow with the number of ended flows ({} after {} flows, {} after more)", cfgname, l1, n1, l2), json!({"seed": a.seed, "deploy": pair.deploy.describe(), "baseline": format!("{:?}", baseline), "after_first_batch": diff(u1, &baseline), "after_last_batch": diff(u2, &baseline)}));
        } else if l2 > 0 {
            rep.note(format!("{cfgname}: constant offset above baseline after flows ended (warm-up state): {}", diff(u2, &baseline)));
        }
    }
    for (who, node) in [("client", &mut pair.client), ("server", &mut pair.server)] {
        for p in node.panics() {
            rep.violation(format!("C15|{}|{}-panic|{}|{}", cfgname, who, p["frame"].as_str().unwrap_or("?"), crate::panicmon::normalise(p["message"].as_str().unwrap_or(""))), format!("{who} task panicked: {}", p["message"]), json!({"panic": p}));
        }
        if !node.alive() {
            rep.violation(format!("C15|{}|{}-exited", cfgname, who), format!("{who} exited"), json!({"log": node.log_tail(10)}));
        }
    }
    if idx < 2 {
        rep.sample(json!({"config": cfgname, "endings": endings.iter().map(|e| format!("{:?}", e)).collect::<Vec<_>>(), "plus": ["target port refused", "target name unresolvable", "client-server link cut (FIN / RST) mid-transfer"], "baseline": format!("{:?}", baseline)}));
    }
    drop(target);
    drop(chopper);
    drop(pair);
    let _ = std::fs::remove_dir_all(&dir);
    rep
}


/// Datagram bindings (VMess / Trojan datagram-in-stream: one connection to the server per local binding). The client
/// cannot know when an application has closed its UDP socket, but its binding table is bounded (64): a binding that
/// leaves the table has ended, and its connection, its tasks and the server's side of it must be released. 90
/// applications send one datagram each; afterwards at most 64 bindings may still hold a connection.
async fn datagram_bindings(a: Args, idx: usize, proto: Proto, transport: Transport) -> Report {
    use super::c02::{make_payload, socks5_udp, start_udp_target};
    let mut rep = Report::new();
    let mut rng = Rng::derive(a.seed, 0xC15B, idx as u64);
    let cfg = Cfg::random(&mut rng, proto, if matches!(proto, Proto::Vmess(_)) { 1 } else { 0 });
    let dir = work_dir(&a, &format!("c15b-{idx}"));
    let d = Deploy::new(cfg, transport, true, 2, &dir);
    let cfgname = format!("{}|{}|datagram-bindings", proto.name(), transport.name());
    let (dd, tag) = (d.clone(), format!("c15b-{idx}"));
    let mut pair = match tokio::task::spawn_blocking(move || start_pair(&dd, &tag)).await.unwrap() {
        Ok(p) => p,
        Err(e) => {
            rep.inconclusive(format!("{cfgname}: nodes do not start: {}", e.lines().next().unwrap_or("")));
            return rep;
        }
    };
    let nonce = rng.next_u64();
    let Ok(target) = start_udp_target(nonce, 0, 1, false).await else {
        rep.inconclusive("udp target");
        return rep;
    };
    let exchange = |s: Arc<tokio::net::UdpSocket>, app: u16, cport: u16, tport: u16| async move {
        let mut buf = vec![0u8; 4096];
        for seq in 0..3u32 {
            let p = make_payload(nonce, app, 0, seq, 100, 0);
            let _ = s.send_to(&socks5_udp("127.0.0.1", tport, &p), ("127.0.0.1", cport)).await;
            if tokio::time::timeout(Duration::from_millis(1500), s.recv_from(&mut buf)).await.is_ok() {
                return true;
            }
        }
        false
    };
    // warm-up and baseline
    let w = Arc::new(tokio::net::UdpSocket::bind("127.0.0.1:0").await.unwrap());
    if !exchange(w.clone(), 1, d.client_port, target.port).await {
        rep.inconclusive(format!("{cfgname}: the datagram relay does not work (judged by C02)"));
        return rep;
    }
    let Some(baseline) = settle(&pair, Duration::from_secs(1), Duration::from_secs(15)).await else {
        rep.inconclusive("baseline never settled");
        return rep;
    };
    let n_apps = 90usize;
    let mut socks = Vec::new();
    let mut answered = 0;
    for app in 0..n_apps {
        let s = Arc::new(tokio::net::UdpSocket::bind("127.0.0.1:0").await.unwrap());
        if exchange(s.clone(), 10 + app as u16, d.client_port, target.port).await {
            answered += 1;
        }
        socks.push(s); // the application keeps its socket: only the table's bound ends bindings
        rep.evaluations += 1;
    }
    rep.mon("datagram_bindings_opened", n_apps as u64);
    rep.mon("datagram_bindings_answered", answered);
    let after = settle(&pair, Duration::from_secs(2), Duration::from_secs(30)).await;
    match after {
        None => rep.inconclusive("descriptor counts never settled after the bindings"),
        Some(u) => {
            let held_client = u.client.tcp as i64 - baseline.client.tcp as i64;
            let held_server = u.server.tcp as i64 - baseline.server.tcp as i64;
            let held_server_udp = u.server.udp as i64 - baseline.server.udp as i64;
            rep.extra.insert(format!("resources:{cfgname}"), json!({"bindings_opened": n_apps, "table_bound": 64, "connections_still_held_by_the_client": held_client, "by_the_server": held_server, "server_udp_sockets": held_server_udp}));
            rep.mon("resource_samples_settled", 1);
            // quic keeps its connections inside one UDP socket: the TCP count says nothing there
            if transport != Transport::Quic && (held_client > 64 + 2 || held_server > 64 + 2) {
                rep.violation(format!("C15|{}|bindings-that-left-the-table-keep-their-connection", cfgname), format!("{cfgname}: after {n_apps} datagram bindings (table bound 64) the client still holds {held_client} and the server {held_server} connections above the baseline"), json!({"seed": a.seed, "deploy": d.describe(), "baseline": format!("{:?}", baseline), "after": diff(&u, &baseline)}));
            }
            if held_server_udp > 64 + 2 {
                rep.violation(format!("C15|{}|server-keeps-the-sockets-of-ended-bindings", cfgname), format!("{cfgname}: the server still holds {held_server_udp} UDP sockets above the baseline for at most 64 live bindings"), json!({"seed": a.seed, "deploy": d.describe(), "after": diff(&u, &baseline)}));
            }
        }
    }
    rep.case(&(idx, "datagram-bindings"), answered > 0);
    for (who, node) in [("client", &mut pair.client), ("server", &mut pair.server)] {
        if !node.alive() {
            rep.violation(format!("C15|{}|{}-exited", cfgname, who), format!("{who} exited"), json!({"log": node.log_tail(10)}));
        }
    }
    drop(socks);
    drop(target);
    drop(pair);
    let _ = std::fs::remove_dir_all(&dir);
    rep
}

/// Bindings that fail while they are being opened: the application sends datagrams that no longer fit once the protocol's
/// header is in front (the very first send of the new binding fails), forty times from one socket. Every failed attempt must
/// give back what it had opened.
async fn failing_bindings(a: Args, idx: usize, proto: Proto, transport: Transport) -> Report {
    use super::c02::{make_payload, socks5_udp, start_udp_target};
    let mut rep = Report::new();
    let mut rng = Rng::derive(a.seed, 0xC15F, idx as u64);
    let cfg = Cfg::random(&mut rng, proto, if matches!(proto, Proto::Vmess(_)) { 1 } else { 0 });
    let dir = work_dir(&a, &format!("c15f-{idx}"));
    let d = Deploy::new(cfg, transport, true, 2, &dir);
    let cfgname = format!("{}|{}|failing-bindings", proto.name(), if matches!(proto, Proto::Ss(_)) { "udp" } else { transport.name() });
    let (dd, tag) = (d.clone(), format!("c15f-{idx}"));
    let mut pair = match tokio::task::spawn_blocking(move || start_pair(&dd, &tag)).await.unwrap() {
        Ok(p) => p,
        Err(e) => {
            rep.inconclusive(format!("{cfgname}: nodes do not start: {}", e.lines().next().unwrap_or("")));
            return rep;
        }
    };
    let nonce = rng.next_u64();
    let Ok(target) = start_udp_target(nonce, 0, 1, false).await else {
        rep.inconclusive("udp target");
        return rep;
    };
    let mut buf = vec![0u8; 70000];
    // warm-up with an ordinary exchange, then the baseline
    let w = tokio::net::UdpSocket::bind("127.0.0.1:0").await.unwrap();
    let mut warm = false;
    for seq in 0..3u32 {
        let _ = w.send_to(&socks5_udp("127.0.0.1", target.port, &make_payload(nonce, 1, 0, seq, 100, 0)), ("127.0.0.1", d.client_port)).await;
        if tokio::time::timeout(Duration::from_millis(1500), w.recv_from(&mut buf)).await.is_ok() {
            warm = true;
            break;
        }
    }
    if !warm {
        rep.inconclusive(format!("{cfgname}: the datagram relay does not work (judged by C02)"));
        return rep;
    }
    let Some(baseline) = settle(&pair, Duration::from_secs(1), Duration::from_secs(15)).await else {
        rep.inconclusive("baseline never settled");
        return rep;
    };
    let n = 40u32;
    let app = tokio::net::UdpSocket::bind("127.0.0.1:0").await.unwrap();
    let mut sent = 0u64;
    for seq in 0..n {
        // 65497 bytes of payload + 10 bytes of SOCKS5 header = the largest datagram the application can send at all
        let size = [65497usize, 65490, 65480, 65470][seq as usize % 4];
        if app.send_to(&socks5_udp("127.0.0.1", target.port, &make_payload(nonce, 2, 0, seq, size, 0)), ("127.0.0.1", d.client_port)).await.is_ok() {
            sent += 1;
        }
        tokio::time::sleep(Duration::from_millis(25)).await;
        rep.evaluations += 1;
    }
    rep.mon("oversize_datagrams_that_open_a_binding", sent);
    match settle(&pair, Duration::from_secs(2), Duration::from_secs(30)).await {
        None => rep.inconclusive("descriptor counts never settled after the failing bindings"),
        Some(u) => {
            rep.mon("resource_samples_settled", 1);
            let held = (u.client.udp as i64 - baseline.client.udp as i64).max(0) + (u.client.tcp as i64 - baseline.client.tcp as i64).max(0);
            let tasks = u.client_tasks.zip(baseline.client_tasks).map(|(x, y)| x as i64 - y as i64).unwrap_or(0);
            rep.extra.insert(format!("resources:{cfgname}"), json!({"oversize_datagrams": sent, "client_descriptors_above_baseline": held, "client_tasks_above_baseline": tasks, "after": diff(&u, &baseline)}));
            // one binding for the application's socket may legitimately exist; anything that grows with the failures does not
            if held > 4 || tasks > 4 {
                rep.violation(format!("C15|{}|client-keeps-what-failed-bindings-had-opened", cfgname), format!("{cfgname}: after {sent} datagrams that are too large to be relayed (each opens a binding whose first send fails) the client holds {held} descriptors and {tasks} tasks above its baseline"), json!({"seed": a.seed, "deploy": d.describe(), "baseline": format!("{:?}", baseline), "after": diff(&u, &baseline)}));
            }
        }
    }
    // the relay still serves
    let mut served = false;
    for seq in 100..103u32 {
        let _ = w.send_to(&socks5_udp("127.0.0.1", target.port, &make_payload(nonce, 1, 0, seq, 100, 0)), ("127.0.0.1", d.client_port)).await;
        if tokio::time::timeout(Duration::from_millis(1500), w.recv_from(&mut buf)).await.is_ok() {
            served = true;
            break;
        }
    }
    rep.case(&(idx, "failing-bindings"), served);
    for (who, node) in [("client", &mut pair.client), ("server", &mut pair.server)] {
        if !node.alive() {
            rep.violation(format!("C15|{}|{}-exited", cfgname, who), format!("{who} exited"), json!({"log": node.log_tail(10)}));
        }
    }
    drop(target);
    drop(pair);
    let _ = std::fs::remove_dir_all(&dir);
    rep
}

pub async fn run(a: &Args) -> Report {
    // one cipher per protocol over every transport (quick: a rotating subset); all ciphers over tcp in thorough
    let protos = [Proto::Ss(refimpl::ss::Method::B3Aes128Gcm), Proto::Ss(refimpl::ss::Method::ChaCha20IetfPoly1305), Proto::Vmess(3), Proto::Trojan];
    let mut m: Vec<(Proto, Transport)> = Vec::new();
    for (i, p) in protos.iter().enumerate() {
        for (j, t) in ALL_TRANSPORTS.iter().enumerate() {
            if a.thorough || (i + j + a.seed as usize) % 3 == 0 {
                m.push((*p, *t));
            }
        }
    }
    if a.thorough {
        for p in crate::real::all_protos() {
            if !protos.contains(&p) {
                m.push((p, Transport::Tcp));
            }
        }
    }
    let only: Option<usize> = a.sub.as_ref().and_then(|s| s.strip_prefix("only=").and_then(|x| x.parse().ok()));
    let sem = Arc::new(tokio::sync::Semaphore::new(6));
    let mut hs = Vec::new();
    for (idx, (p, t)) in m.into_iter().enumerate() {
        if only.map_or(false, |o| o != idx) {
            continue;
        }
        let a = a.clone();
        let sem = sem.clone();
        hs.push(tokio::spawn(async move {
            let _g = sem.acquire_owned().await.unwrap();
            one_config(a, idx, p, t).await
        }));
    }
    let mut bind_cfgs = vec![(Proto::Vmess(3), [Transport::Tcp, Transport::Ws, Transport::Tls][a.seed as usize % 3]), (Proto::Trojan, [Transport::Tls, Transport::Wss][a.seed as usize % 2])];
    if a.thorough {
        bind_cfgs = vec![(Proto::Vmess(3), Transport::Tcp), (Proto::Vmess(4), Transport::Tls), (Proto::Vmess(3), Transport::Ws), (Proto::Vmess(4), Transport::Wss), (Proto::Trojan, Transport::Tls), (Proto::Trojan, Transport::Wss), (Proto::Vmess(3), Transport::Quic), (Proto::Trojan, Transport::Quic)];
    }
    for (k, (p, t)) in bind_cfgs.into_iter().enumerate() {
        if only.is_some() {
            break;
        }
        let (a, sem) = (a.clone(), sem.clone());
        hs.push(tokio::spawn(async move {
            let _g = sem.acquire_owned().await.unwrap();
            datagram_bindings(a, 500 + k, p, t).await
        }));
    }
    let fail_cfgs = [(Proto::Ss(refimpl::ss::Method::B3Aes128Gcm), Transport::Tcp), (Proto::Ss(refimpl::ss::Method::Aes256Gcm), Transport::Tcp), (Proto::Vmess(3), Transport::Tcp), (Proto::Trojan, Transport::Tls)];
    for (k, (p, t)) in fail_cfgs.into_iter().enumerate() {
        if only.is_some() || (!a.thorough && (k + a.seed as usize) % 2 != 0) {
            continue;
        }
        let (a, sem) = (a.clone(), sem.clone());
        hs.push(tokio::spawn(async move {
            let _g = sem.acquire_owned().await.unwrap();
            failing_bindings(a, 600 + k, p, t).await
        }));
    }
    let mut rep = Report::new();
    for h in hs {
        if let Ok(r) = h.await {
            rep.merge(r);
        }
    }
    rep
}
