//! /proc observers: which sockets a process holds, which ports are bound, descriptor counts by kind.

use std::collections::{HashMap, HashSet};

#[derive(Debug, Clone, Default, PartialEq, Eq)]
pub struct FdCount {
    pub tcp: usize,
    pub udp: usize,
    pub other: usize,
}

impl FdCount {
    pub fn total(&self) -> usize {
        self.tcp + self.udp + self.other
    }
}

fn socket_table(path: &str) -> Vec<(u16, String, u64)> {
    // returns (local port, state hex, inode)
    let mut v = Vec::new();
    if let Ok(s) = std::fs::read_to_string(path) {
        for line in s.lines().skip(1) {
            let f: Vec<&str> = line.split_whitespace().collect();
            if f.len() < 10 {
                continue;
            }
            let port = f[1].rsplit(':').next().and_then(|p| u16::from_str_radix(p, 16).ok()).unwrap_or(0);
            let inode = f[9].parse().unwrap_or(0);
            v.push((port, f[3].to_string(), inode));
        }
    }
    v
}

pub fn socket_inodes(pid: u32) -> HashSet<u64> {
    let mut s = HashSet::new();
    if let Ok(rd) = std::fs::read_dir(format!("/proc/{pid}/fd")) {
        for e in rd.flatten() {
            if let Ok(t) = std::fs::read_link(e.path()) {
                let t = t.to_string_lossy().to_string();
                if let Some(i) = t.strip_prefix("socket:[").and_then(|x| x.strip_suffix(']')) {
                    if let Ok(n) = i.parse() {
                        s.insert(n);
                    }
                }
            }
        }
    }
    s
}

/// Descriptors of `pid` by kind (TCP sockets, UDP sockets, everything else).
pub fn fd_count(pid: u32) -> FdCount {
    let mut tcp_inodes = HashSet::new();
    for p in ["/proc/net/tcp", "/proc/net/tcp6"] {
        for (_, _, i) in socket_table(p) {
            tcp_inodes.insert(i);
        }
    }
    let mut udp_inodes = HashSet::new();
    for p in ["/proc/net/udp", "/proc/net/udp6"] {
        for (_, _, i) in socket_table(p) {
            udp_inodes.insert(i);
        }
    }
    let mut c = FdCount::default();
    if let Ok(rd) = std::fs::read_dir(format!("/proc/{pid}/fd")) {
        for e in rd.flatten() {
            let t = std::fs::read_link(e.path()).map(|t| t.to_string_lossy().to_string()).unwrap_or_default();
            if let Some(i) = t.strip_prefix("socket:[").and_then(|x| x.strip_suffix(']')).and_then(|x| x.parse::<u64>().ok()) {
                if tcp_inodes.contains(&i) {
                    c.tcp += 1;
                } else if udp_inodes.contains(&i) {
                    c.udp += 1;
                } else {
                    c.other += 1;
                }
            } else {
                c.other += 1;
            }
        }
    }
    c
}

/// Ports on which `pid` holds a listening TCP socket / a bound UDP socket.
pub fn bound_ports(pid: u32) -> (HashSet<u16>, HashSet<u16>) {
    let mine = socket_inodes(pid);
    let mut tcp = HashSet::new();
    for p in ["/proc/net/tcp", "/proc/net/tcp6"] {
        for (port, st, i) in socket_table(p) {
            if st == "0A" && mine.contains(&i) {
                tcp.insert(port);
            }
        }
    }
    let mut udp = HashSet::new();
    for p in ["/proc/net/udp", "/proc/net/udp6"] {
        for (port, _, i) in socket_table(p) {
            if mine.contains(&i) {
                udp.insert(port);
            }
        }
    }
    (tcp, udp)
}

pub fn is_listening_tcp(port: u16) -> bool {
    ["/proc/net/tcp", "/proc/net/tcp6"].iter().any(|p| socket_table(p).iter().any(|(pt, st, _)| *pt == port && st == "0A"))
}

pub fn is_bound_udp(port: u16) -> bool {
    ["/proc/net/udp", "/proc/net/udp6"].iter().any(|p| socket_table(p).iter().any(|(pt, _, _)| *pt == port))
}

pub fn alive(pid: u32) -> bool {
    std::path::Path::new(&format!("/proc/{pid}/stat")).exists() && {
        // a zombie is not alive
        std::fs::read_to_string(format!("/proc/{pid}/stat")).map(|s| !s.contains(") Z ")).unwrap_or(false)
    }
}

pub fn tasks_from_stat_file(path: &str) -> Option<u64> {
    let s = std::fs::read_to_string(path).ok()?;
    let v: serde_json::Value = serde_json::from_str(&s).ok()?;
    v.get("tasks")?.as_u64()
}

pub fn summarise(m: &HashMap<String, usize>) -> String {
    let mut v: Vec<_> = m.iter().collect();
    v.sort();
    v.iter().map(|(k, n)| format!("{k}={n}")).collect::<Vec<_>>().join(",")
}
