//! End-to-end (L2/L3) machinery: real nodes on loopback, scripted applications and targets with
//! positional-stream / unique-id oracles, descriptor and task accounting, fault injection.
pub mod c01;
pub mod c02;
pub mod c02x;
pub mod c03;
pub mod c04;
pub mod c05;
pub mod c06;
pub mod c07;
pub mod c08;
pub mod c09;
pub mod c10;
pub mod c11;
pub mod c12;
pub mod c15;
pub mod c16;
pub mod chopper;
pub mod endpoints;
pub mod idle;
pub mod nodes;
pub mod pipe;
pub mod procfs;
pub mod tcpflows;
pub mod udpfwd;
