//! A UDP forwarder placed between client and server (the datagram man-in-the-middle): it records what passes
//! in both directions and can, on command, replay recorded datagrams (towards the server through the very socket
//! the original came through, towards the client from the port the client talks to), drop everything (black hole),
//! duplicate or reorder.

use std::collections::HashMap;
use std::net::SocketAddr;
use std::sync::atomic::{AtomicBool, AtomicU64, Ordering};
use std::sync::{Arc, Mutex};

use tokio::net::UdpSocket;

#[derive(Default)]
pub struct Recorded {
    /// (client address, datagram) in arrival order
    pub to_server: Vec<(SocketAddr, Vec<u8>)>,
    /// (client address, datagram) in arrival order
    pub to_client: Vec<(SocketAddr, Vec<u8>)>,
}

pub struct UdpFwd {
    pub port: u16,
    pub blackhole: Arc<AtomicBool>,
    /// every datagram towards the server is sent twice when set
    pub duplicate: Arc<AtomicBool>,
    pub forwarded: Arc<AtomicU64>,
    pub recorded: Arc<Mutex<Recorded>>,
    front: Arc<UdpSocket>,
    upstreams: Arc<Mutex<HashMap<SocketAddr, Arc<UdpSocket>>>>,
    upstream: SocketAddr,
    tasks: Arc<Mutex<Vec<tokio::task::JoinHandle<()>>>>,
}

impl Drop for UdpFwd {
    fn drop(&mut self) {
        for t in self.tasks.lock().unwrap().iter() {
            t.abort();
        }
    }
}

impl UdpFwd {
    /// Send recorded client->server datagrams again (the last `n`), each through the socket of the client it came from.
    pub async fn replay_to_server(&self, n: usize) -> usize {
        let items: Vec<(SocketAddr, Vec<u8>)> = {
            let r = self.recorded.lock().unwrap();
            let k = r.to_server.len();
            r.to_server[k.saturating_sub(n)..].to_vec()
        };
        let mut sent = 0;
        for (client, d) in items {
            let s = self.upstreams.lock().unwrap().get(&client).cloned();
            if let Some(s) = s {
                if s.send_to(&d, self.upstream).await.is_ok() {
                    sent += 1;
                }
            }
        }
        sent
    }

    /// Send recorded server->client datagrams again (the last `n`) from the port the client talks to.
    pub async fn replay_to_client(&self, n: usize) -> usize {
        let items: Vec<(SocketAddr, Vec<u8>)> = {
            let r = self.recorded.lock().unwrap();
            let k = r.to_client.len();
            r.to_client[k.saturating_sub(n)..].to_vec()
        };
        let mut sent = 0;
        for (client, d) in items {
            if self.front.send_to(&d, client).await.is_ok() {
                sent += 1;
            }
        }
        sent
    }

    /// Arbitrary bytes towards a client that has talked through the forwarder (as if they came from the server).
    pub async fn inject_to_clients(&self, data: &[u8]) -> usize {
        let clients: Vec<SocketAddr> = self.upstreams.lock().unwrap().keys().copied().collect();
        let mut n = 0;
        for c in clients {
            if self.front.send_to(data, c).await.is_ok() {
                n += 1;
            }
        }
        n
    }
}

/// Listen on 127.0.0.1:`port` (0 = any) and forward to 127.0.0.1:`upstream`.
pub async fn start(port: u16, upstream: u16) -> std::io::Result<UdpFwd> {
    let front = Arc::new(UdpSocket::bind(("127.0.0.1", port)).await?);
    let port = front.local_addr()?.port();
    let upstream: SocketAddr = format!("127.0.0.1:{upstream}").parse().unwrap();
    let blackhole = Arc::new(AtomicBool::new(false));
    let duplicate = Arc::new(AtomicBool::new(false));
    let forwarded = Arc::new(AtomicU64::new(0));
    let recorded = Arc::new(Mutex::new(Recorded::default()));
    let upstreams: Arc<Mutex<HashMap<SocketAddr, Arc<UdpSocket>>>> = Arc::new(Mutex::new(HashMap::new()));
    let tasks: Arc<Mutex<Vec<tokio::task::JoinHandle<()>>>> = Arc::new(Mutex::new(Vec::new()));
    let (f, b, dup, fw, rec, ups, tk) = (front.clone(), blackhole.clone(), duplicate.clone(), forwarded.clone(), recorded.clone(), upstreams.clone(), tasks.clone());
    let main = tokio::spawn(async move {
        let mut buf = vec![0u8; 70000];
        loop {
            let Ok((n, client)) = f.recv_from(&mut buf).await else {
                tokio::time::sleep(std::time::Duration::from_millis(5)).await;
                continue;
            };
            let d = buf[..n].to_vec();
            rec.lock().unwrap().to_server.push((client, d.clone()));
            let existing = ups.lock().unwrap().get(&client).cloned();
            let up = match existing {
                Some(u) => u,
                None => {
                    let Ok(u) = UdpSocket::bind("127.0.0.1:0").await else { continue };
                    let u = Arc::new(u);
                    ups.lock().unwrap().insert(client, u.clone());
                    let (u2, f2, b2, rec2, fw2) = (u.clone(), f.clone(), b.clone(), rec.clone(), fw.clone());
                    let t = tokio::spawn(async move {
                        let mut buf = vec![0u8; 70000];
                        loop {
                            let Ok((n, _)) = u2.recv_from(&mut buf).await else {
                                tokio::time::sleep(std::time::Duration::from_millis(5)).await;
                                continue;
                            };
                            rec2.lock().unwrap().to_client.push((client, buf[..n].to_vec()));
                            if b2.load(Ordering::SeqCst) {
                                continue;
                            }
                            let _ = f2.send_to(&buf[..n], client).await;
                            fw2.fetch_add(1, Ordering::SeqCst);
                        }
                    });
                    tk.lock().unwrap().push(t);
                    u
                }
            };
            if b.load(Ordering::SeqCst) {
                continue;
            }
            let _ = up.send_to(&d, upstream).await;
            if dup.load(Ordering::SeqCst) {
                let _ = up.send_to(&d, upstream).await;
            }
            fw.fetch_add(1, Ordering::SeqCst);
        }
    });
    tasks.lock().unwrap().push(main);
    Ok(UdpFwd { port, blackhole, duplicate, forwarded, recorded, front, upstreams, upstream, tasks })
}
