//! C16 - configuration names select exactly the documented behaviour.
//! The *shipped* binaries (hooks off) are started with every documented value; observers: the set of
//! sockets the process holds (/proc), canary traffic against the independent reference implementation
//! configured from the same README-level credential, exit status and log scan for bad values.

use std::path::PathBuf;
use std::sync::Arc;
use std::time::{Duration, Instant};

use serde_json::{json, Value};
use tokio::io::{AsyncReadExt, AsyncWriteExt};

use super::c01::work_dir;
use super::nodes::*;
use super::procfs;
use crate::checks::Args;
use crate::peer::{ClientOpts, RefClient, RefServer, ServerOpts};
use crate::prng::Rng;
use crate::real::{Cfg, Proto};
use crate::report::Report;

fn shipped(name: &str) -> Option<PathBuf> {
    let d = std::env::var("OSV_SHIPPED_DIR").ok()?;
    let p = PathBuf::from(d).join(name);
    if p.exists() {
        Some(p)
    } else {
        None
    }
}

struct Started {
    node: Node,
    tcp: std::collections::HashSet<u16>,
    udp: std::collections::HashSet<u16>,
    exited: Option<i32>,
    log: String,
}

/// Start a shipped binary, give it time to bind (or to give up), observe.
fn start_and_observe(role: &str, config: &Value, dir: &std::path::Path, tag: &str, settle: Duration) -> Result<Started, String> {
    let bin = shipped(if role == "client" { "octo-squirrel-client" } else { "octo-squirrel-server" }).ok_or("shipped binaries not built (OSV_SHIPPED_DIR)")?;
    let mut node = start_node(role, config, dir, tag, 2, "info", None, Some(&bin)).map_err(|e| e.to_string())?;
    let t0 = Instant::now();
    let mut last = (std::collections::HashSet::new(), std::collections::HashSet::new());
    let mut stable_since = Instant::now();
    loop {
        std::thread::sleep(Duration::from_millis(40));
        let exited = node.exit_status();
        let cur = procfs::bound_ports(node.pid);
        if cur != last {
            last = cur;
            stable_since = Instant::now();
        }
        if exited.is_some() || (t0.elapsed() >= settle && stable_since.elapsed() >= Duration::from_millis(300)) || t0.elapsed() > settle * 4 {
            let log = node.log_tail(12);
            return Ok(Started { tcp: last.0, udp: last.1, exited, log, node });
        }
    }
}

fn has_panic(log: &str, exited: Option<i32>) -> bool {
    log.contains("panicked at") || exited == Some(101) || exited == Some(134)
}

/// A canary TCP exchange: reference client -> shipped server -> echo target.
async fn canary_ref_client(cfg: &Cfg, server_port: u16, rng: &mut Rng) -> Result<(), String> {
    let l = tokio::net::TcpListener::bind("127.0.0.1:0").await.map_err(|e| e.to_string())?;
    let tport = l.local_addr().unwrap().port();
    let echo = tokio::spawn(async move {
        if let Ok((mut s, _)) = l.accept().await {
            let mut b = [0u8; 4096];
            while let Ok(n) = s.read(&mut b).await {
                if n == 0 || s.write_all(&b[..n]).await.is_err() {
                    break;
                }
            }
        }
    });
    let now = std::time::SystemTime::now().duration_since(std::time::UNIX_EPOCH).unwrap().as_secs();
    let mut c = RefClient::new(cfg, &refimpl::addr::Addr::V4([127, 0, 0, 1], tport), rng, now, ClientOpts::default());
    let payload = rng.bytes(300);
    let w = c.write(&payload, rng);
    let mut s = tokio::net::TcpStream::connect(("127.0.0.1", server_port)).await.map_err(|e| format!("connect: {e}"))?;
    s.write_all(&w).await.map_err(|e| e.to_string())?;
    let mut got = Vec::new();
    let mut buf = [0u8; 4096];
    let t0 = Instant::now();
    let r = loop {
        match tokio::time::timeout(Duration::from_secs(6).saturating_sub(t0.elapsed()), s.read(&mut buf)).await {
            Err(_) => break Err("no echo through the server within 6 s".to_string()),
            Ok(Ok(0)) => break Err("server closed the connection without relaying".to_string()),
            Ok(Err(e)) => break Err(format!("read: {e}")),
            Ok(Ok(n)) => match c.read(&buf[..n]) {
                Ok(p) => {
                    got.extend_from_slice(&p);
                    if got.len() >= payload.len() {
                        break if got == payload { Ok(()) } else { Err("echo differs".to_string()) };
                    }
                }
                Err(e) => break Err(format!("reference cannot read the server's answer: {e}")),
            },
        }
    };
    echo.abort();
    r
}

#[derive(Clone, Copy, Debug, PartialEq)]
enum Via {
    Tcp,
    Tls,
    Ws,
    Wss,
    Quic,
}

fn tls_client_config(alpn: bool) -> Option<tokio_rustls::rustls::ClientConfig> {
    use tokio_rustls::rustls::pki_types::pem::PemObject;
    use tokio_rustls::rustls::pki_types::CertificateDer;
    let _ = tokio_rustls::rustls::crypto::aws_lc_rs::default_provider().install_default();
    let cert = CertificateDer::from_pem_file(verif_root().join("certs").join("ca.crt")).ok()?;
    let mut roots = tokio_rustls::rustls::RootCertStore::empty();
    roots.add(cert).ok()?;
    let mut cfg = tokio_rustls::rustls::ClientConfig::builder().with_root_certificates(roots).with_no_client_auth();
    if alpn {
        cfg.alpn_protocols = vec![b"http/1.1".to_vec()];
    }
    Some(cfg)
}

/// Reference client -> shipped server -> echo target over the named transport; Ok = the echo came back intact.
async fn canary_via(cfg: &Cfg, server_port: u16, via: Via, rng: &mut Rng) -> Result<(), String> {
    use futures::{SinkExt, StreamExt};
    let l = tokio::net::TcpListener::bind("127.0.0.1:0").await.map_err(|e| e.to_string())?;
    let tport = l.local_addr().unwrap().port();
    let echo = tokio::spawn(async move {
        if let Ok((mut s, _)) = l.accept().await {
            let mut b = [0u8; 4096];
            while let Ok(n) = s.read(&mut b).await {
                if n == 0 || s.write_all(&b[..n]).await.is_err() {
                    break;
                }
            }
        }
    });
    let now = std::time::SystemTime::now().duration_since(std::time::UNIX_EPOCH).unwrap().as_secs();
    let mut c = RefClient::new(cfg, &refimpl::addr::Addr::V4([127, 0, 0, 1], tport), rng, now, ClientOpts::default());
    let payload = rng.bytes(300);
    let w = c.write(&payload, rng);
    // a byte pipe over the transport
    enum Pipe {
        Stream(Box<dyn AsyncStream>),
        Ws(Box<dyn WsPipe>),
        Quic(quinn::SendStream, quinn::RecvStream, quinn::Connection, quinn::Endpoint),
    }
    trait AsyncStream: tokio::io::AsyncRead + tokio::io::AsyncWrite + Unpin + Send {}
    impl<T: tokio::io::AsyncRead + tokio::io::AsyncWrite + Unpin + Send> AsyncStream for T {}
    #[allow(async_fn_in_trait)]
    trait WsPipe: Send {
        fn send<'a>(&'a mut self, b: Vec<u8>) -> std::pin::Pin<Box<dyn std::future::Future<Output = Result<(), String>> + Send + 'a>>;
        fn recv<'a>(&'a mut self) -> std::pin::Pin<Box<dyn std::future::Future<Output = Result<Vec<u8>, String>> + Send + 'a>>;
    }
    impl<T: tokio::io::AsyncRead + tokio::io::AsyncWrite + Unpin + Send> WsPipe for tokio_websockets::WebSocketStream<T> {
        fn send<'a>(&'a mut self, b: Vec<u8>) -> std::pin::Pin<Box<dyn std::future::Future<Output = Result<(), String>> + Send + 'a>> {
            Box::pin(async move { SinkExt::send(self, tokio_websockets::Message::binary(bytes::Bytes::from(b))).await.map_err(|e| e.to_string()) })
        }
        fn recv<'a>(&'a mut self) -> std::pin::Pin<Box<dyn std::future::Future<Output = Result<Vec<u8>, String>> + Send + 'a>> {
            Box::pin(async move {
                loop {
                    match self.next().await {
                        None => return Err("websocket closed".to_string()),
                        Some(Err(e)) => return Err(e.to_string()),
                        Some(Ok(m)) if m.is_binary() => return Ok(m.into_payload().to_vec()),
                        Some(Ok(_)) => continue,
                    }
                }
            })
        }
    }
    let connect = async {
        let tcp = || async { tokio::net::TcpStream::connect(("127.0.0.1", server_port)).await.map_err(|e| format!("connect: {e}")) };
        let tls = |s: tokio::net::TcpStream| async move {
            let cfg = tls_client_config(false).ok_or("tls config")?;
            let name = tokio_rustls::rustls::pki_types::ServerName::try_from("localhost").map_err(|e| e.to_string())?;
            tokio_rustls::TlsConnector::from(Arc::new(cfg)).connect(name, s).await.map_err(|e| format!("tls handshake: {e}"))
        };
        let uri: http::Uri = format!("ws://localhost:{server_port}/ws").parse().unwrap();
        Ok::<Pipe, String>(match via {
            Via::Tcp => Pipe::Stream(Box::new(tcp().await?)),
            Via::Tls => Pipe::Stream(Box::new(tls(tcp().await?).await?)),
            Via::Ws => Pipe::Ws(Box::new(tokio_websockets::ClientBuilder::from_uri(uri).connect_on(tcp().await?).await.map_err(|e| format!("websocket upgrade: {e}"))?.0)),
            Via::Wss => Pipe::Ws(Box::new(tokio_websockets::ClientBuilder::from_uri(uri).connect_on(tls(tcp().await?).await?).await.map_err(|e| format!("websocket upgrade: {e}"))?.0)),
            Via::Quic => {
                let cfg = tls_client_config(true).ok_or("tls config")?;
                let mut ep = quinn::Endpoint::client("0.0.0.0:0".parse().unwrap()).map_err(|e| e.to_string())?;
                let qc = quinn::crypto::rustls::QuicClientConfig::try_from(cfg).map_err(|e| e.to_string())?;
                ep.set_default_client_config(quinn::ClientConfig::new(Arc::new(qc)));
                let conn = ep.connect(format!("127.0.0.1:{server_port}").parse().unwrap(), "localhost").map_err(|e| e.to_string())?.await.map_err(|e| format!("quic handshake: {e}"))?;
                let (tx, rx) = conn.open_bi().await.map_err(|e| e.to_string())?;
                Pipe::Quic(tx, rx, conn, ep)
            }
        })
    };
    let mut pipe = match tokio::time::timeout(Duration::from_secs(4), connect).await {
        Ok(Ok(p)) => p,
        Ok(Err(e)) => {
            echo.abort();
            return Err(e);
        }
        Err(_) => {
            echo.abort();
            return Err("transport handshake: no answer within 4 s".into());
        }
    };
    let r = async {
        match &mut pipe {
            Pipe::Stream(s) => s.write_all(&w).await.map_err(|e| e.to_string())?,
            Pipe::Ws(s) => s.send(w.clone()).await?,
            Pipe::Quic(tx, ..) => tx.write_all(&w).await.map_err(|e| e.to_string())?,
        }
        let mut got = Vec::new();
        let mut buf = vec![0u8; 8192];
        loop {
            let chunk: Vec<u8> = match &mut pipe {
                Pipe::Stream(s) => {
                    let n = s.read(&mut buf).await.map_err(|e| format!("read: {e}"))?;
                    if n == 0 {
                        return Err("server closed the connection without relaying".to_string());
                    }
                    buf[..n].to_vec()
                }
                Pipe::Ws(s) => s.recv().await?,
                Pipe::Quic(_, rx, ..) => match rx.read(&mut buf).await.map_err(|e| format!("read: {e}"))? {
                    Some(n) => buf[..n].to_vec(),
                    None => return Err("server finished the stream without relaying".to_string()),
                },
            };
            let p = c.read(&chunk).map_err(|e| format!("reference cannot read the server's answer: {e}"))?;
            got.extend_from_slice(&p);
            if got.len() >= payload.len() {
                return if got == payload { Ok(()) } else { Err("echo differs".to_string()) };
            }
        }
    };
    let out = match tokio::time::timeout(Duration::from_secs(6), r).await {
        Ok(x) => x,
        Err(_) => Err("no echo through the server within 6 s".to_string()),
    };
    echo.abort();
    out
}

/// Reference Shadowsocks UDP client -> shipped server's datagram relay -> UDP echo target.
async fn canary_udp(cfg: &Cfg, server_port: u16, rng: &mut Rng) -> Result<(), String> {
    let m = cfg.method().ok_or("not shadowsocks")?;
    let t = tokio::net::UdpSocket::bind("127.0.0.1:0").await.map_err(|e| e.to_string())?;
    let tport = t.local_addr().unwrap().port();
    let echo = tokio::spawn(async move {
        let mut b = vec![0u8; 70000];
        while let Ok((n, from)) = t.recv_from(&mut b).await {
            let _ = t.send_to(&b[..n], from).await;
        }
    });
    let s = tokio::net::UdpSocket::bind("127.0.0.1:0").await.map_err(|e| e.to_string())?;
    let keys = cfg.ref_client_keys();
    let target = refimpl::addr::Addr::V4([127, 0, 0, 1], tport);
    let payload = rng.bytes(200);
    let now = std::time::SystemTime::now().duration_since(std::time::UNIX_EPOCH).unwrap().as_secs();
    let sid = rng.next_u64();
    let wire = if m.is_2022() {
        let p = refimpl::ss::S22UdpPacket { session_id: sid, packet_id: 1, type_byte: 0, timestamp: now, client_session_id: None, padding: vec![], addr: target.clone(), payload: payload.clone() };
        refimpl::ss::s22_udp_client_encode(m, &keys, &p, &rng.arr())
    } else {
        refimpl::ss::sip004_udp_encode(m, &keys.psk, &rng.bytes(m.key_len()), &target, &payload)
    };
    let mut out = Err("no reply from the datagram relay within 2 s".to_string());
    for _ in 0..2 {
        let _ = s.send_to(&wire, ("127.0.0.1", server_port)).await;
        let mut buf = vec![0u8; 70000];
        if let Ok(Ok((n, _))) = tokio::time::timeout(Duration::from_secs(1), s.recv_from(&mut buf)).await {
            let dec = if m.is_2022() { refimpl::ss::s22_udp_client_decode(m, &keys.psk, &buf[..n]).map(|p| (p.addr, p.payload)) } else { refimpl::ss::sip004_udp_decode(m, &keys.psk, &buf[..n]) };
            out = match dec {
                Ok((a, p)) if p == payload && a == target => Ok(()),
                Ok(_) => Err("reply differs from what the target sent".to_string()),
                Err(e) => Err(format!("reference cannot read the reply: {e}")),
            };
            break;
        }
    }
    echo.abort();
    out
}

/// A canary through the shipped client into a reference server (which plays server and target at once).
async fn canary_ref_server(cfg: &Cfg, ref_port_listener: tokio::net::TcpListener, client_port: u16, rng: &mut Rng) -> Result<(), String> {
    let cfg2 = cfg.clone();
    let seed = rng.next_u64();
    let srv = tokio::spawn(async move {
        let mut rng = Rng::new(seed);
        let (mut s, _) = ref_port_listener.accept().await.map_err(|e| e.to_string())?;
        let now = std::time::SystemTime::now().duration_since(std::time::UNIX_EPOCH).unwrap().as_secs();
        let mut r = RefServer::new(&cfg2, now, ServerOpts::default());
        let mut buf = [0u8; 8192];
        let mut got = Vec::new();
        loop {
            let n = s.read(&mut buf).await.map_err(|e| e.to_string())?;
            if n == 0 {
                return Err("client closed before the request was complete".to_string());
            }
            got.extend_from_slice(&r.read(&buf[..n]).map_err(|e| format!("reference server cannot read the client: {e}"))?);
            if got.len() >= 100 {
                break;
            }
        }
        let addr = r.addr.clone();
        let w = r.write(&got, &mut rng);
        s.write_all(&w).await.map_err(|e| e.to_string())?;
        tokio::time::sleep(Duration::from_millis(300)).await;
        Ok::<_, String>(addr)
    });
    let mut s = tokio::net::TcpStream::connect(("127.0.0.1", client_port)).await.map_err(|e| format!("connect to client: {e}"))?;
    super::endpoints::local_handshake(&mut s, super::endpoints::LocalKind::Socks5Domain, "canary.example", 4242).await.map_err(|e| format!("{:?}", e))?;
    let payload = rng.bytes(100);
    s.write_all(&payload).await.map_err(|e| e.to_string())?;
    let mut back = vec![0u8; 100];
    match tokio::time::timeout(Duration::from_secs(6), s.read_exact(&mut back)).await {
        Ok(Ok(_)) if back == payload => {}
        Ok(Ok(_)) => return Err("echo differs".into()),
        Ok(Err(e)) => return Err(format!("no echo through the client: {e}")),
        Err(_) => return Err("no echo through the client within 6 s".into()),
    }
    match srv.await {
        Ok(Ok(Some(refimpl::addr::Addr::Domain(n, 4242)))) if n == b"canary.example" => Ok(()),
        Ok(Ok(a)) => Err(format!("reference server decoded another target: {:?}", a.map(|a| a.describe()))),
        Ok(Err(e)) => Err(e),
        Err(e) => Err(e.to_string()),
    }
}

fn cipher_names() -> Vec<(&'static str, refimpl::ss::Method)> {
    let mut v: Vec<(&'static str, refimpl::ss::Method)> = refimpl::ss::ALL_METHODS.iter().map(|m| (m.name(), *m)).collect();
    v.push(("chacha20-ietf-poly1305", refimpl::ss::Method::ChaCha20IetfPoly1305));
    v
}

pub async fn run(a: &Args) -> Report {
    let mut rep = Report::new();
    if shipped("octo-squirrel-server").is_none() {
        rep.inconclusive("shipped binaries not built (OSV_SHIPPED_DIR)");
        return rep;
    }
    let mut rng = Rng::derive(a.seed, 0xC16, 0);
    let dir = work_dir(a, "c16");
    let certs = verif_root().join("certs");
    let tls = json!({"certificateFile": certs.join("leaf.crt"), "keyFile": certs.join("leaf.key"), "serverName": "localhost"});
    let mut n = 0usize;
    let mut tag = || {
        n += 1;
        format!("c16-{n}")
    };

    // ---- (1) documented server modes x protocols: exactly the documented sockets
    let modes: [(&str, bool, bool); 5] = [("tcp", true, false), ("udp", false, true), ("tcp_and_udp", true, true), ("quic", false, true), ("tcp_and_quic", true, true)];
    for (cname, m) in cipher_names() {
        for (mode, want_tcp, want_udp) in modes {
            if !a.thorough && !(cname == "aes-128-gcm" || cname == "2022-blake3-aes-256-gcm" || cname == "chacha20-ietf-poly1305") && mode != "tcp_and_udp" {
                continue;
            }
            let cfg = Cfg::random(&mut rng, Proto::Ss(m), 0);
            let port = free_port();
            let mut e = cfg.server_entry("127.0.0.1", port, mode);
            e["cipher"] = json!(cname);
            if mode.contains("quic") {
                e["quic"] = tls.clone();
            }
            let t = tag();
            let dd = dir.clone();
            let conf = json!([e]);
            let st = tokio::task::spawn_blocking(move || start_and_observe("server", &conf, &dd, &t, Duration::from_millis(500))).await.unwrap();
            rep.evaluations += 1;
            rep.mon("server_starts_observed", 1);
            rep.distinct.insert(crate::report::hash_of(&("server-mode", cname, mode)));
            match st {
                Err(e) => rep.inconclusive(e),
                Ok(mut s) => {
                    let got = (s.tcp.contains(&port), s.udp.contains(&port));
                    if has_panic(&s.log, s.exited) {
                        rep.violation(format!("C16|server-mode|shadowsocks|{}|{}|panic", cname, mode), format!("server panics with documented mode {mode} / cipher {cname}"), json!({"log": s.log}));
                    } else if s.exited.is_some() {
                        rep.violation(format!("C16|server-mode|shadowsocks|{}|{}|documented-value-rejected", cname, mode), format!("server exits with documented mode {mode} / cipher {cname}"), json!({"exit": s.exited, "log": s.log}));
                    } else if got != (want_tcp, want_udp) {
                        rep.violation(format!("C16|server-mode|shadowsocks|{}|listens tcp={} udp={} but documented tcp={} udp={}", mode, got.0, got.1, want_tcp, want_udp), format!("shadowsocks server mode {mode}: sockets differ from the documented set"), json!({"cipher": cname, "port": port, "tcp_ports": format!("{:?}", s.tcp), "udp_ports": format!("{:?}", s.udp), "log": s.log}));
                    } else {
                        // the name selects the documented algorithm, key size and credential format on every socket it opens:
                        // the reference must interoperate over TCP, over the datagram relay and over QUIC alike
                        if want_tcp {
                            match canary_ref_client(&cfg, port, &mut rng).await {
                                Ok(()) => rep.mon("canaries_ok", 1),
                                Err(e) => rep.violation(format!("C16|cipher|shadowsocks|{}|reference-client-cannot-use-the-server:{}", cname, crate::panicmon::normalise(&e)), format!("cipher name {cname}: a reference client configured with the same password cannot relay through the server: {e}"), json!({"mode": mode, "password": cfg.server_password(), "log": s.node.log_tail(6)})),
                            }
                        }
                        let udp_relay = mode == "udp" || mode == "tcp_and_udp";
                        let r = canary_udp(&cfg, port, &mut rng).await;
                        match (udp_relay, r) {
                            (true, Ok(())) => rep.mon("udp_canaries_ok", 1),
                            (true, Err(e)) => rep.violation(format!("C16|cipher|shadowsocks|{}|udp|reference-client-cannot-use-the-datagram-relay:{}", cname, crate::panicmon::normalise(&e)), format!("mode {mode}, cipher {cname}: a reference UDP client configured with the same password is not served: {e}"), json!({"mode": mode, "password": cfg.server_password(), "log": s.node.log_tail(6)})),
                            (false, Ok(())) => rep.violation(format!("C16|server-mode|shadowsocks|{}|datagram-relay-although-not-documented", mode), format!("mode {mode} relays Shadowsocks datagrams although it is documented not to"), json!({"cipher": cname})),
                            (false, Err(_)) => rep.mon("udp_relay_absent_as_documented", 1),
                        }
                        if mode.contains("quic") {
                            match canary_via(&cfg, port, Via::Quic, &mut rng).await {
                                Ok(()) => rep.mon("quic_canaries_ok", 1),
                                Err(e) => rep.violation(format!("C16|cipher|shadowsocks|{}|quic|reference-client-cannot-use-the-server:{}", cname, crate::panicmon::normalise(&e)), format!("mode {mode}, cipher {cname}: a reference client over QUIC is not served: {e}"), json!({"mode": mode, "log": s.node.log_tail(6)})),
                            }
                        }
                    }
                    s.node.kill();
                }
            }
        }
    }
    // ---- (1b) transport sections: they change HOW the TCP side is spoken, never WHICH sockets a mode opens
    let sections: [(&str, bool, bool, bool); 5] = [("ssl", true, false, false), ("ws", false, true, false), ("ssl+ws", true, true, false), ("quic", false, false, true), ("ssl+quic", true, false, true)];
    for (mi, (mode, want_tcp, want_udp)) in modes.iter().enumerate() {
        for (si, (sname, ssl, ws, quic)) in sections.iter().enumerate() {
            if !a.thorough && (mi + si + a.seed as usize) % 3 != 0 && !(*mode == "tcp_and_udp" && *quic) {
                continue;
            }
            let (_, m) = cipher_names()[(mi * 5 + si) % 7];
            let cfg = Cfg::random(&mut rng, Proto::Ss(m), 0);
            let port = free_port();
            let mut e = cfg.server_entry("127.0.0.1", port, mode);
            if *ssl {
                e["ssl"] = tls.clone();
            }
            if *ws {
                e["ws"] = json!({"path": "/ws"});
            }
            if *quic || mode.contains("quic") {
                e["quic"] = tls.clone();
            }
            let t = tag();
            let dd = dir.clone();
            let conf = json!([e]);
            let st = tokio::task::spawn_blocking(move || start_and_observe("server", &conf, &dd, &t, Duration::from_millis(500))).await.unwrap();
            rep.evaluations += 1;
            rep.mon("server_starts_observed", 1);
            rep.distinct.insert(crate::report::hash_of(&("server-mode-section", mode, sname)));
            let Ok(mut s) = st else { continue };
            let got = (s.tcp.contains(&port), s.udp.contains(&port));
            let sig = format!("C16|server-mode|shadowsocks|{}|sections={}", mode, sname);
            if has_panic(&s.log, s.exited) || s.exited.is_some() {
                rep.violation(format!("{sig}|does-not-start"), format!("shadowsocks server mode {mode} with sections {sname} does not start"), json!({"log": s.log, "exit": s.exited}));
            } else if got != (*want_tcp, *want_udp) {
                rep.violation(format!("{sig}|listens tcp={} udp={} but documented tcp={} udp={}", got.0, got.1, want_tcp, want_udp), format!("shadowsocks server mode {mode} with sections {sname}: sockets differ from the documented set"), json!({"log": s.log}));
            } else {
                if *want_tcp {
                    let via = match (ssl, ws) {
                        (true, true) => Via::Wss,
                        (true, false) => Via::Tls,
                        (false, true) => Via::Ws,
                        _ => Via::Tcp,
                    };
                    match canary_via(&cfg, port, via, &mut rng).await {
                        Ok(()) => rep.mon("transport_canaries_ok", 1),
                        Err(e) => rep.violation(format!("{sig}|tcp-side-not-served-over-{:?}:{}", via, crate::panicmon::normalise(&e)), format!("mode {mode}, sections {sname}: a reference client over {:?} is not served: {e}", via), json!({"log": s.node.log_tail(6)})),
                    }
                }
                let udp_relay = *mode == "udp" || *mode == "tcp_and_udp";
                match (udp_relay, canary_udp(&cfg, port, &mut rng).await) {
                    (true, Ok(())) => rep.mon("udp_canaries_ok", 1),
                    (true, Err(e)) => rep.violation(format!("{sig}|datagram-relay-not-served:{}", crate::panicmon::normalise(&e)), format!("mode {mode}, sections {sname}: the mode documents a datagram relay (udp has priority over quic) but a reference UDP client is not served: {e}"), json!({"log": s.node.log_tail(6)})),
                    (false, Ok(())) => rep.violation(format!("{sig}|datagram-relay-although-not-documented"), format!("mode {mode}, sections {sname}: relays datagrams although the mode does not say so"), json!({})),
                    (false, Err(_)) => rep.mon("udp_relay_absent_as_documented", 1),
                }
                if mode.contains("quic") {
                    match canary_via(&cfg, port, Via::Quic, &mut rng).await {
                        Ok(()) => rep.mon("quic_canaries_ok", 1),
                        Err(e) => rep.violation(format!("{sig}|quic-side-not-served:{}", crate::panicmon::normalise(&e)), format!("mode {mode}, sections {sname}: a reference client over QUIC is not served: {e}"), json!({"log": s.node.log_tail(6)})),
                    }
                }
            }
            s.node.kill();
        }
    }
    // VMess / Trojan over every transport section
    for proto in [Proto::Vmess(3), Proto::Vmess(4), Proto::Trojan] {
        for (via, ssl, ws, quic) in [(Via::Tls, true, false, false), (Via::Ws, false, true, false), (Via::Wss, true, true, false), (Via::Quic, false, false, true)] {
            let cfg = Cfg::random(&mut rng, proto, 1);
            let port = free_port();
            let mut e = cfg.server_entry("127.0.0.1", port, "tcp");
            if ssl {
                e["ssl"] = tls.clone();
            }
            if ws {
                e["ws"] = json!({"path": "/ws"});
            }
            if quic {
                e["quic"] = tls.clone();
            }
            let t = tag();
            let dd = dir.clone();
            let conf = json!([e]);
            let st = tokio::task::spawn_blocking(move || start_and_observe("server", &conf, &dd, &t, Duration::from_millis(500))).await.unwrap();
            rep.evaluations += 1;
            rep.mon("server_starts_observed", 1);
            rep.distinct.insert(crate::report::hash_of(&("server-transport", proto.name(), format!("{:?}", via))));
            let Ok(mut s) = st else { continue };
            if has_panic(&s.log, s.exited) || s.exited.is_some() {
                rep.violation(format!("C16|server|{}|{:?}|does-not-start", proto.name(), via), "documented configuration does not start".to_string(), json!({"log": s.log, "exit": s.exited}));
            } else {
                // the transport sections say HOW the stream side is spoken; a UDP socket (the QUIC endpoint) belongs to the
                // quic section alone
                let got = (s.tcp.contains(&port), s.udp.contains(&port));
                rep.mon("socket_sets_compared", 1);
                if got != (true, quic) {
                    rep.violation(format!("C16|server|{}|{:?}|listens tcp={} udp={}", proto.name(), via, got.0, got.1), format!("{} server with sections {:?}: sockets differ from the documented set (tcp, and udp only with a quic section)", proto.name(), via), json!({"log": s.log, "ssl": ssl, "ws": ws, "quic": quic}));
                }
                match canary_via(&cfg, port, via, &mut rng).await {
                    Ok(()) => rep.mon("transport_canaries_ok", 1),
                    Err(e) => rep.violation(format!("C16|server|{}|{:?}|reference-client-not-served:{}", proto.name(), via, crate::panicmon::normalise(&e)), format!("{} server: a reference client over {:?} is not served: {e}", proto.name(), via), json!({"log": s.node.log_tail(6)})),
                }
            }
            s.node.kill();
        }
    }
    // VMess / Trojan servers: TCP always, QUIC (UDP socket) with a quic section
    for proto in [Proto::Vmess(3), Proto::Trojan] {
        for quic in [false, true] {
            let cfg = Cfg::random(&mut rng, proto, 1);
            let port = free_port();
            let mut e = cfg.server_entry("127.0.0.1", port, "tcp");
            if quic {
                e["quic"] = tls.clone();
            }
            let t = tag();
            let dd = dir.clone();
            let conf = json!([e]);
            let st = tokio::task::spawn_blocking(move || start_and_observe("server", &conf, &dd, &t, Duration::from_millis(500))).await.unwrap();
            rep.evaluations += 1;
            rep.mon("server_starts_observed", 1);
            rep.distinct.insert(crate::report::hash_of(&("server", proto.name(), quic)));
            if let Ok(mut s) = st {
                let got = (s.tcp.contains(&port), s.udp.contains(&port));
                if has_panic(&s.log, s.exited) || s.exited.is_some() {
                    rep.violation(format!("C16|server|{}|quic={}|does-not-start", cfg.protocol_name(), quic), "documented configuration does not start".to_string(), json!({"log": s.log, "exit": s.exited}));
                } else if got != (true, quic) {
                    rep.violation(format!("C16|server|{}|quic={}|listens tcp={} udp={}", cfg.protocol_name(), quic, got.0, got.1), "sockets differ from the documented set".to_string(), json!({"log": s.log}));
                } else {
                    match canary_ref_client(&cfg, port, &mut rng).await {
                        Ok(()) => rep.mon("canaries_ok", 1),
                        Err(e) => rep.violation(format!("C16|protocol|{}|reference-client-cannot-use-the-server:{}", cfg.protocol_name(), crate::panicmon::normalise(&e)), e, json!({"log": s.node.log_tail(6)})),
                    }
                }
                s.node.kill();
            }
        }
    }

    // ---- (1c) the configuration file is a LIST: one process serves every documented protocol and cipher at once, two entries
    // of every kind with credentials of their own (and, for the 32-byte ciphers, one KEY shared across three ciphers). Every
    // entry must be exactly what it would be alone: canaries through all of them, three interleaved rounds.
    {
        let shared_key = rng.bytes(32);
        let mut entries: Vec<(Cfg, u16, Value)> = Vec::new();
        for p in crate::real::all_protos() {
            for copy in 0..2 {
                let mut c = Cfg::random(&mut rng, p, if matches!(p, Proto::Vmess(_)) { 1 } else { 0 });
                if copy == 1 {
                    if let Proto::Ss(m) = p {
                        if m.is_2022() && m.key_len() == 32 {
                            c.server_psk = shared_key.clone();
                        }
                    }
                }
                let port = free_port();
                let e = c.server_entry("127.0.0.1", port, "tcp_and_udp");
                entries.push((c, port, e));
            }
        }
        let conf = Value::Array(entries.iter().map(|e| e.2.clone()).collect());
        let (t, dd, conf2) = (tag(), dir.clone(), conf.clone());
        let st = tokio::task::spawn_blocking(move || start_and_observe("server", &conf2, &dd, &t, Duration::from_millis(900))).await.unwrap();
        if let Ok(mut s) = st {
            for round in 0..3 {
                for (c, port, _) in entries.iter() {
                    rep.evaluations += 1;
                    rep.mon("canaries_through_one_process_serving_every_protocol", 1);
                    rep.distinct.insert(crate::report::hash_of(&("all-in-one", c.proto.name(), *port)));
                    if !s.tcp.contains(port) {
                        if round == 0 {
                            rep.violation(format!("C16|all-in-one|{}|entry-does-not-listen", c.proto.name()), format!("one process, {} entries: the entry for {} on port {port} does not listen", entries.len(), c.proto.name()), json!({"log": s.log}));
                        }
                        continue;
                    }
                    let mut r = canary_ref_client(c, *port, &mut rng).await;
                    if r.is_err() {
                        r = canary_ref_client(c, *port, &mut rng).await;
                    }
                    match r {
                        Ok(()) => rep.mon("canaries_ok", 1),
                        Err(e) => rep.violation(format!("C16|all-in-one|{}|reference-client-not-served:{}", c.proto.name(), crate::panicmon::normalise(&e)), format!("one process serving {} entries: the {} entry (round {round}) does not serve the reference client configured with ITS credential: {e}", entries.len(), c.proto.name()), json!({"entry": c.server_entry("127.0.0.1", *port, "tcp_and_udp"), "log": s.node.log_tail(8)})),
                    }
                }
            }
            if s.node.exit_status().is_some() {
                rep.violation("C16|all-in-one|server-exited".to_string(), "the server serving every protocol at once exited".to_string(), json!({"log": s.node.log_tail(8)}));
            }
            s.node.kill();
        }
    }

    // ---- (2) client modes and every cipher name on the client side (interoperation with the reference server)
    for (mode, want_tcp, want_udp) in [("tcp", true, false), ("udp", false, true), ("tcp_and_udp", true, true)] {
        for (cname, m) in cipher_names() {
            if !a.thorough && mode != "tcp_and_udp" && cname != "aes-256-gcm" {
                continue;
            }
            let cfg = Cfg::random(&mut rng, Proto::Ss(m), 0);
            let l = tokio::net::TcpListener::bind("127.0.0.1:0").await.unwrap();
            let sport = l.local_addr().unwrap().port();
            let cport = free_port();
            let mut e = cfg.client_entry("127.0.0.1", sport);
            e["cipher"] = json!(cname);
            let conf = json!({"port": cport, "mode": mode, "index": 0, "servers": [e]});
            let t = tag();
            let dd = dir.clone();
            let st = tokio::task::spawn_blocking(move || start_and_observe("client", &conf, &dd, &t, Duration::from_millis(500))).await.unwrap();
            rep.evaluations += 1;
            rep.mon("client_starts_observed", 1);
            rep.distinct.insert(crate::report::hash_of(&("client-mode", cname, mode)));
            if let Ok(mut s) = st {
                let got = (s.tcp.contains(&cport), s.udp.contains(&cport));
                if has_panic(&s.log, s.exited) || s.exited.is_some() {
                    rep.violation(format!("C16|client-mode|{}|{}|documented-value-rejected", cname, mode), format!("client does not start with documented mode {mode} / cipher {cname}"), json!({"log": s.log, "exit": s.exited}));
                } else if got != (want_tcp, want_udp) {
                    rep.violation(format!("C16|client-mode|{}|listens tcp={} udp={} but documented tcp={} udp={}", mode, got.0, got.1, want_tcp, want_udp), format!("client mode {mode}: sockets differ from the documented set"), json!({"cipher": cname, "log": s.log}));
                } else if want_tcp {
                    match canary_ref_server(&cfg, l, cport, &mut rng).await {
                        Ok(()) => rep.mon("canaries_ok", 1),
                        Err(e) => rep.violation(format!("C16|cipher|client|{}|reference-server-cannot-serve-the-client:{}", cname, crate::panicmon::normalise(&e)), format!("cipher name {cname} on the client: {e}"), json!({"password": cfg.client_password(), "log": s.node.log_tail(6)})),
                    }
                }
                s.node.kill();
            }
        }
    }

    // ---- (3) undocumented or inconsistent values: an error, never a panic, never a listening service
    let good = Cfg::random(&mut rng, Proto::Ss(refimpl::ss::Method::B3Aes256Gcm), 0);
    let k16 = refimpl::crypto::b64_encode(&rng.bytes(16));
    let k31 = refimpl::crypto::b64_encode(&rng.bytes(31));
    let k33 = refimpl::crypto::b64_encode(&rng.bytes(33));
    let mut bad: Vec<(&str, Value)> = Vec::new();
    let base = |port: u16| good.server_entry("127.0.0.1", port, "tcp_and_udp");
    let with = |port: u16, k: &str, v: Value| {
        let mut e = base(port);
        e[k] = v;
        e
    };
    let without = |port: u16, k: &str| {
        let mut e = base(port);
        e.as_object_mut().unwrap().remove(k);
        e
    };
    let p = || free_port();
    bad.push(("unknown-cipher-name", with(p(), "cipher", json!("aes-192-gcm"))));
    bad.push(("cipher-name-wrong-case", with(p(), "cipher", json!("AES-128-GCM"))));
    bad.push(("empty-cipher-name", with(p(), "cipher", json!(""))));
    bad.push(("missing-cipher", without(p(), "cipher")));
    bad.push(("unknown-protocol", with(p(), "protocol", json!("socks"))));
    bad.push(("protocol-wrong-case", with(p(), "protocol", json!("Shadowsocks"))));
    bad.push(("unknown-mode", with(p(), "mode", json!("tcp+udp"))));
    bad.push(("empty-mode", with(p(), "mode", json!(""))));
    bad.push(("key-16-bytes-for-a-32-byte-cipher", with(p(), "password", json!(k16))));
    bad.push(("key-31-bytes", with(p(), "password", json!(k31))));
    bad.push(("key-33-bytes", with(p(), "password", json!(k33))));
    bad.push(("key-empty", with(p(), "password", json!(""))));
    bad.push(("key-not-base64", with(p(), "password", json!("not base64 at all!"))));
    {
        let mut e = base(p());
        e["user"] = json!([{"name": "short", "password": k16}]);
        bad.push(("user-key-16-bytes-for-a-32-byte-cipher", e));
    }
    // a user table with a cipher that has no identity header (SIP023 defines it for the 2022 AES ciphers only): the server
    // could not tell users apart - serving whoever holds the server key would be a silent fallback to single-user mode
    for (name, method) in [("user-table-with-2022-blake3-chacha20-poly1305", refimpl::ss::Method::B3ChaCha20Poly1305), ("user-table-with-2022-blake3-chacha8-poly1305", refimpl::ss::Method::B3ChaCha8Poly1305), ("user-table-with-aes-256-gcm", refimpl::ss::Method::Aes256Gcm)] {
        let c = Cfg::random(&mut rng, Proto::Ss(method), 0);
        let mut e = c.server_entry("127.0.0.1", p(), "tcp_and_udp");
        e["user"] = json!([{"name": "alice", "password": refimpl::crypto::b64_encode(&rng.bytes(32))}, {"name": "bob", "password": refimpl::crypto::b64_encode(&rng.bytes(32))}]);
        bad.push((name, e));
    }
    {
        let v = Cfg::random(&mut rng, Proto::Vmess(3), 1);
        let mut e = v.server_entry("127.0.0.1", p(), "tcp");
        e["user"] = json!([{"name": "u", "password": "not-a-uuid"}]);
        bad.push(("vmess-malformed-uuid", e));
        let t = Cfg::random(&mut rng, Proto::Trojan, 0);
        let mut e = t.server_entry("127.0.0.1", p(), "tcp");
        e["ssl"] = json!({"certificateFile": "/nonexistent/cert.pem", "keyFile": "/nonexistent/key.pem", "serverName": "x"});
        bad.push(("missing-certificate-files", e));
        // a `quic` section that cannot be honoured: the entry must not come up as a TCP-only service without a word
        for (name, proto) in [("vmess-quic-section-with-missing-certificate", Proto::Vmess(3)), ("trojan-quic-section-with-missing-certificate", Proto::Trojan)] {
            let c = Cfg::random(&mut rng, proto, 1);
            let mut e = c.server_entry("127.0.0.1", p(), "tcp");
            e["quic"] = json!({"certificateFile": "/nonexistent/cert.pem", "keyFile": "/nonexistent/key.pem", "serverName": "x"});
            bad.push((name, e));
        }
        // an entry without its credential: nothing may listen (least of all something that takes the digest of "")
        for (name, proto) in [("trojan-without-password", Proto::Trojan), ("shadowsocks-without-password", Proto::Ss(refimpl::ss::Method::Aes128Gcm)), ("shadowsocks-2022-without-password", Proto::Ss(refimpl::ss::Method::B3Aes128Gcm))] {
            let c = Cfg::random(&mut rng, proto, 0);
            let mut e = c.server_entry("127.0.0.1", p(), "tcp");
            e.as_object_mut().unwrap().remove("password");
            bad.push((name, e.clone()));
            if proto == Proto::Trojan {
                e["user"] = json!([{"name": "alice", "password": "alice's own password"}]);
                bad.push(("trojan-without-password-but-with-a-user-list", e));
            }
        }
    }
    for (name, entry) in bad {
        let port = entry["port"].as_u64().unwrap_or(0) as u16;
        let t = tag();
        let dd = dir.clone();
        let conf = json!([entry]);
        let st = tokio::task::spawn_blocking(move || start_and_observe("server", &conf, &dd, &t, Duration::from_millis(600))).await.unwrap();
        rep.evaluations += 1;
        rep.mon("bad_values_tried", 1);
        rep.distinct.insert(crate::report::hash_of(&("bad", name)));
        if let Ok(mut s) = st {
            let listens = s.tcp.contains(&port) || s.udp.contains(&port);
            let reported = s.exited.map_or(false, |c| c != 0) || s.log.contains("ERROR");
            if has_panic(&s.log, s.exited) {
                rep.violation(format!("C16|bad-value|{}|panic", name), format!("bad configuration value ({name}) makes the server panic instead of reporting an error"), json!({"entry": entry, "log": s.log, "exit": s.exited}));
            } else if listens {
                rep.violation(format!("C16|bad-value|{}|accepted-and-serving tcp={} udp={}", name, s.tcp.contains(&port), s.udp.contains(&port)), format!("bad configuration value ({name}) is accepted and the entry serves traffic"), json!({"entry": entry, "log": s.log}));
            } else if !reported {
                rep.violation(format!("C16|bad-value|{}|no-error-reported", name), format!("bad configuration value ({name}): nothing listens but no error is reported either"), json!({"entry": entry, "log": s.log, "exit": s.exited}));
            } else {
                rep.mon("bad_values_reported_as_errors", 1);
            }
            s.node.kill();
        }
    }
    // one of the two sockets of a two-socket mode cannot be opened (the port is taken for that protocol only): the documented
    // socket set cannot be had, so the entry / the client must report that and not serve with half of it
    for (role, busy) in [("server", "udp"), ("server", "tcp"), ("client", "udp"), ("client", "tcp")] {
        let port = free_port();
        let _hold_udp = if busy == "udp" { std::net::UdpSocket::bind(("127.0.0.1", port)).ok() } else { None };
        let _hold_tcp = if busy == "tcp" { std::net::TcpListener::bind(("127.0.0.1", port)).ok() } else { None };
        if _hold_udp.is_none() && _hold_tcp.is_none() {
            continue;
        }
        let c = Cfg::random(&mut rng, Proto::Ss(refimpl::ss::Method::B3Aes128Gcm), 0);
        let conf = if role == "server" { json!([c.server_entry("127.0.0.1", port, "tcp_and_udp")]) } else { json!({"port": port, "mode": "tcp_and_udp", "index": 0, "servers": [c.client_entry("127.0.0.1", free_port())]}) };
        let (t, dd, conf2) = (tag(), dir.clone(), conf.clone());
        let st = tokio::task::spawn_blocking(move || start_and_observe(role, &conf2, &dd, &t, Duration::from_millis(700))).await.unwrap();
        rep.evaluations += 1;
        rep.mon("bad_values_tried", 1);
        let name = format!("{role}-mode-tcp_and_udp-with-the-{busy}-port-taken");
        rep.distinct.insert(crate::report::hash_of(&("bad", &name)));
        if let Ok(mut s) = st {
            // what the process itself holds on that port (the harness holds the other protocol)
            let serves = if busy == "udp" { s.tcp.contains(&port) } else { s.udp.contains(&port) };
            let reported = s.exited.map_or(false, |c| c != 0) || s.log.contains("ERROR");
            if has_panic(&s.log, s.exited) {
                rep.violation(format!("C16|bad-value|{name}|panic"), format!("{name}: panic"), json!({"config": conf, "log": s.log, "exit": s.exited}));
            } else if serves && !reported {
                rep.violation(format!("C16|bad-value|{name}|serves-with-half-of-the-documented-sockets-and-reports-nothing"), format!("{name}: the process serves {} only and reports no error", if busy == "udp" { "TCP" } else { "UDP" }), json!({"config": conf, "log": s.log, "exit": s.exited}));
            } else if serves {
                rep.violation(format!("C16|bad-value|{name}|serves-with-half-of-the-documented-sockets"), format!("{name}: an error is logged but the process goes on serving {} only", if busy == "udp" { "TCP" } else { "UDP" }), json!({"config": conf, "log": s.log, "exit": s.exited}));
            } else if !reported {
                rep.violation(format!("C16|bad-value|{name}|no-error-reported"), format!("{name}: nothing is served and nothing reported"), json!({"config": conf, "log": s.log, "exit": s.exited}));
            } else {
                rep.mon("bad_values_reported_as_errors", 1);
            }
            s.node.kill();
        }
    }
    // a client whose `index` names none of its servers
    for (name, index, n_servers) in [("client-index-beyond-the-server-list", 3usize, 1usize), ("client-index-with-an-empty-server-list", 0, 0)] {
        let c = Cfg::random(&mut rng, Proto::Trojan, 0);
        let servers: Vec<Value> = (0..n_servers).map(|_| c.client_entry("127.0.0.1", free_port())).collect();
        let cport = free_port();
        let conf = json!({"port": cport, "mode": "tcp", "index": index, "servers": servers});
        let (t, dd, conf2) = (tag(), dir.clone(), conf.clone());
        let st = tokio::task::spawn_blocking(move || start_and_observe("client", &conf2, &dd, &t, Duration::from_millis(500))).await.unwrap();
        rep.evaluations += 1;
        rep.mon("bad_values_tried", 1);
        rep.distinct.insert(crate::report::hash_of(&("bad", name)));
        if let Ok(mut s) = st {
            let reported = s.exited.map_or(false, |c| c != 0) || s.log.contains("ERROR");
            if has_panic(&s.log, s.exited) {
                rep.violation(format!("C16|bad-value|{name}|panic"), format!("bad configuration value ({name}) makes the client panic instead of reporting an error"), json!({"config": conf, "log": s.log, "exit": s.exited}));
            } else if s.tcp.contains(&cport) {
                rep.violation(format!("C16|bad-value|{name}|accepted-and-serving"), format!("{name}: the client listens"), json!({"config": conf, "log": s.log}));
            } else if !reported {
                rep.violation(format!("C16|bad-value|{name}|no-error-reported"), format!("{name}: nothing listens but no error is reported either"), json!({"config": conf, "log": s.log, "exit": s.exited}));
            } else {
                rep.mon("bad_values_reported_as_errors", 1);
            }
            s.node.kill();
        }
    }
    // misspelt cipher names on the client: no listener that relays under some other cipher
    for (proto, cipher) in [(Proto::Vmess(3), "chacha20-poly-1305"), (Proto::Vmess(3), "aes-128-gmc"), (Proto::Vmess(3), "AES-128-GCM"), (Proto::Vmess(3), ""), (Proto::Ss(refimpl::ss::Method::Aes128Gcm), "aes-128-gmc"), (Proto::Ss(refimpl::ss::Method::Aes128Gcm), "AES-128-GCM"), (Proto::Trojan, "Unknown")] {
        let v = Cfg::random(&mut rng, proto, 1);
        let l = tokio::net::TcpListener::bind("127.0.0.1:0").await.unwrap();
        let sport = l.local_addr().unwrap().port();
        let cport = free_port();
        let mut e = v.client_entry("127.0.0.1", sport);
        e["cipher"] = json!(cipher);
        let conf = json!({"port": cport, "mode": "tcp", "index": 0, "servers": [e]});
        let (t, dd, conf2) = (tag(), dir.clone(), conf.clone());
        let st = tokio::task::spawn_blocking(move || start_and_observe("client", &conf2, &dd, &t, Duration::from_millis(500))).await.unwrap();
        rep.evaluations += 1;
        rep.mon("bad_values_tried", 1);
        let name = format!("client-misspelt-cipher/{}/{:?}", proto.name().split('/').next().unwrap_or(""), cipher);
        rep.distinct.insert(crate::report::hash_of(&("bad", &name)));
        if let Ok(mut s) = st {
            if has_panic(&s.log, s.exited) {
                rep.violation(format!("C16|bad-value|{name}|panic"), "panic".to_string(), json!({"log": s.log}));
            } else if s.exited.is_none() && s.tcp.contains(&cport) && proto != Proto::Trojan {
                // it listens: then nothing it sends may be a request a reference server of the NEAREST documented cipher can serve
                // (Trojan has no cipher: the name is not used, a listener is fine)
                if canary_ref_server(&v, l, cport, &mut rng).await.is_ok() {
                    rep.violation(format!("C16|bad-value|{name}|silent-fallback-to-a-documented-cipher"), format!("a client configured with the cipher name {cipher:?} relays under a documented cipher without a word"), json!({"config": conf, "log": s.node.log_tail(6)}));
                } else {
                    rep.mon("bad_values_reported_as_errors", 1);
                }
            } else {
                rep.mon("bad_values_reported_as_errors", 1);
            }
            s.node.kill();
        }
    }
    // VMess client with a cipher the README does not list for VMess: no silent fallback
    {
        let v = Cfg::random(&mut rng, Proto::Vmess(3), 1);
        let l = tokio::net::TcpListener::bind("127.0.0.1:0").await.unwrap();
        let sport = l.local_addr().unwrap().port();
        let cport = free_port();
        let mut e = v.client_entry("127.0.0.1", sport);
        e["cipher"] = json!("aes-256-gcm");
        let conf = json!({"port": cport, "mode": "tcp", "index": 0, "servers": [e]});
        let t = tag();
        let dd = dir.clone();
        let st = tokio::task::spawn_blocking(move || start_and_observe("client", &conf, &dd, &t, Duration::from_millis(500))).await.unwrap();
        rep.evaluations += 1;
        rep.mon("bad_values_tried", 1);
        rep.distinct.insert(crate::report::hash_of(&("bad", "vmess-unlisted-cipher")));
        if let Ok(mut s) = st {
            if has_panic(&s.log, s.exited) {
                rep.violation("C16|bad-value|vmess-unlisted-cipher|panic".to_string(), "panic".to_string(), json!({"log": s.log}));
            } else if s.exited.is_none() && s.tcp.contains(&cport) {
                // it listens: then it must not relay with some other algorithm
                let r = canary_ref_server(&v, l, cport, &mut rng).await;
                if r.is_ok() {
                    rep.violation("C16|bad-value|vmess-unlisted-cipher|silent-fallback-to-aes-128-gcm".to_string(), "a VMess client configured with cipher aes-256-gcm (not offered for VMess) relays with aes-128-gcm without a word".to_string(), json!({"log": s.node.log_tail(6)}));
                } else {
                    rep.mon("bad_values_reported_as_errors", 1);
                }
            }
            s.node.kill();
        }
    }
    // the same for the datagram relay of a VMess client (modes udp and tcp_and_udp): a datagram must not travel under another cipher
    for (mode, cipher) in [("udp", "aes-256-gcm"), ("tcp_and_udp", "aes-256-gcm"), ("udp", "2022-blake3-aes-128-gcm"), ("tcp_and_udp", "2022-blake3-chacha20-poly1305")] {
        let v = Cfg::random(&mut rng, Proto::Vmess(3), 1);
        let l = tokio::net::TcpListener::bind("127.0.0.1:0").await.unwrap();
        let sport = l.local_addr().unwrap().port();
        let cport = free_port();
        let mut e = v.client_entry("127.0.0.1", sport);
        e["cipher"] = json!(cipher);
        let conf = json!({"port": cport, "mode": mode, "index": 0, "servers": [e]});
        let t = tag();
        let dd = dir.clone();
        let st = tokio::task::spawn_blocking(move || start_and_observe("client", &conf, &dd, &t, Duration::from_millis(500))).await.unwrap();
        rep.evaluations += 1;
        rep.mon("bad_values_tried", 1);
        let name = format!("vmess-unlisted-cipher/{cipher}/mode={mode}");
        rep.distinct.insert(crate::report::hash_of(&("bad", &name)));
        if let Ok(mut s) = st {
            if has_panic(&s.log, s.exited) {
                rep.violation(format!("C16|bad-value|{name}|panic"), "panic".to_string(), json!({"log": s.log}));
            } else if s.exited.is_none() && s.udp.contains(&cport) {
                // it serves local datagrams: whatever reaches the server must not be a VMess request under some other cipher
                let keys = v.ref_cmd_keys();
                let srv = tokio::spawn(async move {
                    let Ok(Ok((mut c, _))) = tokio::time::timeout(Duration::from_secs(2), l.accept()).await else { return None };
                    let mut got = Vec::new();
                    let mut b = [0u8; 4096];
                    let t0 = Instant::now();
                    while t0.elapsed() < Duration::from_millis(1500) {
                        match tokio::time::timeout(Duration::from_millis(500), c.read(&mut b)).await {
                            Ok(Ok(n)) if n > 0 => got.extend_from_slice(&b[..n]),
                            _ => break,
                        }
                        let now = std::time::SystemTime::now().duration_since(std::time::UNIX_EPOCH).unwrap().as_secs() as i64;
                        if let Ok(o) = refimpl::vmess::open_request_header(&keys, now, &got) {
                            return Some(o.header.security);
                        }
                    }
                    None
                });
                if let Ok(u) = tokio::net::UdpSocket::bind("127.0.0.1:0").await {
                    for _ in 0..2 {
                        let mut dg = vec![0u8, 0, 0, 1, 127, 0, 0, 1, 0, 53];
                        dg.extend_from_slice(b"what cipher carries this?");
                        let _ = u.send_to(&dg, ("127.0.0.1", cport)).await;
                        tokio::time::sleep(Duration::from_millis(100)).await;
                    }
                }
                match srv.await {
                    Ok(Some(sec)) => rep.violation(format!("C16|bad-value|{name}|silent-fallback:datagram-relayed-under-security-{sec}"), format!("a VMess client configured with cipher {cipher} (not offered for VMess), mode {mode}, relays datagrams under VMess security {sec} without a word"), json!({"log": s.node.log_tail(6)})),
                    _ => rep.mon("bad_values_reported_as_errors", 1),
                }
            } else {
                rep.mon("bad_values_reported_as_errors", 1);
            }
            s.node.kill();
        }
    }
    rep.sample(json!({"documented": {"ciphers": cipher_names().iter().map(|c| c.0).collect::<Vec<_>>(), "server_modes": ["tcp", "udp", "tcp_and_udp", "quic", "tcp_and_quic"], "client_modes": ["tcp", "udp", "tcp_and_udp"], "protocols": ["shadowsocks", "vmess", "trojan"]}, "observers": ["bound sockets of the process (/proc/<pid>/fd x /proc/net/{tcp,udp})", "canary through reference client / reference server configured from the same password", "exit status and log scan"]}));
    let _ = std::fs::remove_dir_all(&dir);
    let _ = Arc::new(());
    rep
}
