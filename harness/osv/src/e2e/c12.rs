//! C12 at node level - no key ever encrypts two messages with the same nonce, on the wire of running nodes.
//!
//! A TCP forwarder and a datagram man-in-the-middle sit between a real client (two client PROCESSES in fact, started
//! independently with the same credential) and a real server and tape everything both directions carry. Afterwards
//! the tapes are decoded with the reference implementation, which knows the keys and records (key fingerprint, nonce)
//! of every AEAD unit it opens; one hash set over ALL units of the run - every flow, every datagram binding, both
//! directions, both client processes - finds any reuse. What codec-level monitoring cannot see is covered here: how the
//! client and the server CREATE their sessions (one salt / session id / VMess key and IV per connection or per local
//! binding, a fresh one when a binding is re-opened, nothing carried from one process to the next), and how the packet
//! ids of a datagram session advance across the applications, targets and directions of real traffic.

use std::collections::{HashMap, HashSet};
use std::sync::Arc;
use std::time::Duration;

use refimpl::ss;
use refimpl::vmess;
use serde_json::json;
use tokio::net::UdpSocket;

use super::c01::work_dir;
use super::c02::{make_payload, socks5_udp, start_udp_target};
use super::endpoints::*;
use super::nodes::*;
use super::tcpflows::*;
use crate::units::{check_units, UnitSet};
use crate::checks::Args;
use crate::prng::Rng;
use crate::real::{all_protos, Cfg, Proto};
use crate::report::Report;

fn now_s() -> u64 {
    std::time::SystemTime::now().duration_since(std::time::UNIX_EPOCH).unwrap().as_secs()
}

/// Decode one taped TCP link (both directions) with the reference implementation; returns the fresh per-session values seen.
fn decode_link(cfg: &Cfg, c2s: &[u8], s2c: &[u8], fresh: &mut Vec<(&'static str, Vec<u8>)>) -> Result<(), String> {
    decode_link_x(cfg, c2s, s2c, fresh, false)
}

/// `answer_only`: the request is read for its keys only, the units recorded are those of the answer (the request bytes
/// are a verbatim copy of a request that has been recorded already).
fn decode_link_x(cfg: &Cfg, c2s: &[u8], s2c: &[u8], fresh: &mut Vec<(&'static str, Vec<u8>)>, answer_only: bool) -> Result<(), String> {
    let now = now_s();
    let forget_request = |fresh: &mut Vec<(&'static str, Vec<u8>)>, mark: usize| {
        if answer_only {
            let _ = refimpl::unit_log_take();
            refimpl::unit_log_start();
            fresh.truncate(mark);
        }
    };
    let mark = fresh.len();
    match cfg.proto {
        Proto::Ss(m) if m.is_2022() => {
            let mut r = ss::S22ServerReader::new(m, &cfg.ref_server_psk(), cfg.ref_users(), now);
            r.feed(c2s).map_err(|e| format!("request: {e}"))?;
            let salt = r.salt.clone().ok_or("request: no salt")?;
            fresh.push(("request-salt", salt.clone()));
            forget_request(fresh, mark);
            if !s2c.is_empty() {
                let key = r.response_key().to_vec();
                let mut cr = ss::S22ClientReader::new(m, &key, &salt, now);
                cr.feed(s2c).map_err(|e| format!("response: {e}"))?;
                if let Some(s) = cr.salt.clone() {
                    fresh.push(("response-salt", s));
                }
            }
        }
        Proto::Ss(m) => {
            let master = cfg.ref_server_psk();
            let mut r = ss::Sip004Reader::new(m, &master, false);
            r.feed(c2s).map_err(|e| format!("request: {e}"))?;
            if let Some(s) = r.salt.clone() {
                fresh.push(("request-salt", s));
            }
            forget_request(fresh, mark);
            if !s2c.is_empty() {
                let mut r2 = ss::Sip004Reader::new(m, &master, false);
                r2.feed(s2c).map_err(|e| format!("response: {e}"))?;
                if let Some(s) = r2.salt.clone() {
                    fresh.push(("response-salt", s));
                }
            }
        }
        Proto::Vmess(_) => {
            let o = vmess::open_request_header(&cfg.ref_cmd_keys(), now as i64, c2s).map_err(|e| format!("request header: {e}"))?;
            fresh.push(("vmess-auth-id", c2s[..16].to_vec()));
            fresh.push(("vmess-body-key-iv", [o.header.body_key.to_vec(), o.header.body_iv.to_vec()].concat()));
            let h = o.header.clone();
            let mut body = vmess::Body::new(vmess::Direction::Request, h.security, h.option, &h.body_key, &h.body_iv);
            let rb = body.feed(&c2s[o.consumed..]).map_err(|e| format!("request body: {e}"));
            forget_request(fresh, mark);
            if !answer_only {
                rb?;
            }
            if !s2c.is_empty() {
                let (rk, ri) = vmess::response_keys(&h.body_key, &h.body_iv);
                let (_content, used) = vmess::open_response_header(&rk, &ri, s2c).map_err(|e| format!("response header: {e}"))?;
                let mut rb = vmess::Body::new(vmess::Direction::Response, h.security, h.option, &h.body_key, &h.body_iv);
                rb.feed(&s2c[used..]).map_err(|e| format!("response body: {e}"))?;
            }
        }
        Proto::Trojan => {}
    }
    Ok(())
}

async fn one_config(a: Args, idx: usize, proto: Proto, transport: Transport) -> Report {
    let mut rep = Report::new();
    let mut rng = Rng::derive(a.seed, 0xC12E, idx as u64);
    let users = match proto {
        Proto::Ss(m) if m.supports_eih() => *rng.pick(&[0usize, 2]),
        Proto::Vmess(_) => 2,
        _ => 0,
    };
    let cfg = Cfg::random(&mut rng, proto, users);
    let ss_udp = matches!(proto, Proto::Ss(_));
    let dir = work_dir(&a, &format!("c12-{idx}"));
    let mut d = Deploy::new(cfg.clone(), transport, true, 2, &dir);
    if ss_udp {
        d.server_mode = Some("tcp_and_udp".into());
    }
    let cfgname = format!("{}|{}|users={}", proto.name(), transport.name(), users);
    let mut chopper = None;
    let mut udpfwd = None;
    for _ in 0..20 {
        let Ok(ch) = super::chopper::start(d.server_port).await else { continue };
        if ss_udp {
            match super::udpfwd::start(ch.port, d.server_port).await {
                Ok(u) => {
                    udpfwd = Some(u);
                    chopper = Some(ch);
                    break;
                }
                Err(_) => continue,
            }
        } else {
            chopper = Some(ch);
            break;
        }
    }
    let Some(chopper) = chopper else {
        rep.inconclusive("no port pair for the forwarders");
        return rep;
    };
    let (dd, tag, link) = (d.clone(), format!("c12-{idx}"), chopper.port);
    let pair = tokio::task::spawn_blocking(move || start_pair_via(&dd, &tag, link)).await.unwrap();
    let mut pair = match pair {
        Ok(p) => p,
        Err(e) => {
            rep.inconclusive(format!("{cfgname}: nodes do not start: {}", e.lines().next().unwrap_or("")));
            return rep;
        }
    };
    // a second client process, started independently with the same credential
    let mut d2 = d.clone();
    d2.client_port = free_port();
    d2.server_port = chopper.port;
    let (dj, ddir, t, lvl, cport2) = (d2.client_json(), d2.dir.clone(), format!("c12-{idx}-second"), d2.log_level.clone(), d2.client_port);
    let second = tokio::task::spawn_blocking(move || {
        let mut n = start_node("client", &dj, &ddir, &t, 2, &lvl, None, None).map_err(|e| e.to_string())?;
        wait_ready(&mut n, Some(cport2), Some(cport2), Duration::from_secs(15))?;
        Ok::<Node, String>(n)
    })
    .await
    .unwrap();
    let second = match second {
        Ok(n) => n,
        Err(e) => {
            rep.inconclusive(format!("{cfgname}: second client does not start: {}", e.lines().next().unwrap_or("")));
            return rep;
        }
    };
    let nonce = rng.next_u64();
    let reg = Registry::new(nonce);
    let Ok(target) = start_target(reg.clone()).await else { return rep };
    let udp_target = start_udp_target(nonce, 0, 2, false).await.ok();
    // TCP flows through both client processes
    let n_flows = if a.thorough { 40 } else { 12 };
    for (which, dep) in [(0u64, &d), (1u64, &d2)] {
        let mut specs = Vec::new();
        for k in 0..n_flows {
            let mut s = random_spec(&mut rng, (idx as u64) << 20 | which << 12 | k as u64, &README_KINDS, false);
            s.c2s = s.c2s.min(40_000);
            s.s2c = s.s2c.min(40_000);
            specs.push(s);
        }
        let r = run_batch(reg.clone(), dep, target.port, specs, 6, Duration::from_secs(30)).await;
        rep.evaluations += r.len() as u64;
        rep.mon("tcp_flows_taped", r.len() as u64);
    }
    // datagrams: several application sockets per client process, two targets each, a re-opened socket
    if let Some(ut) = &udp_target {
        let n_apps = if a.thorough { 6 } else { 3 };
        for (which, cport) in [(0u16, d.client_port), (1u16, d2.client_port)] {
            for app in 0..n_apps {
                let Ok(s) = UdpSocket::bind("127.0.0.1:0").await else { continue };
                let appid = 100 * which + app as u16;
                let mut buf = vec![0u8; 70000];
                // bursts (several requests before any reply is read) and request/reply turns
                for seq in 0..12u32 {
                    let p = make_payload(nonce, appid, 0, seq, *rng.pick(&[30usize, 300, 1400]), 0);
                    let host = if seq % 3 == 2 { "localhost" } else { "127.0.0.1" };
                    let _ = s.send_to(&socks5_udp(host, ut.port, &p), ("127.0.0.1", cport)).await;
                    rep.evaluations += 1;
                    if seq % 4 == 3 {
                        for _ in 0..8 {
                            if tokio::time::timeout(Duration::from_millis(150), s.recv_from(&mut buf)).await.is_err() {
                                break;
                            }
                        }
                    }
                }
                let _ = tokio::time::timeout(Duration::from_millis(200), s.recv_from(&mut buf)).await;
                rep.mon("udp_application_sockets", 1);
            }
        }
    }
    // a datagram session that goes on from another source address (a client behind a NAT that rebinds, a roaming device),
    // played by the reference client through the same man-in-the-middle: whatever the server makes of the move, what it
    // sends for that session before and after is in the tape and in the (key, nonce) set
    if let (Some(ut), Some(u), Some(m)) = (&udp_target, &udpfwd, cfg.method()) {
        if m.is_2022() {
            let keys = cfg.ref_client_keys();
            let target = refimpl::addr::Addr::V4([127, 0, 0, 1], ut.port);
            for round in 0..if a.thorough { 6 } else { 2 } {
                let sid = rng.next_u64();
                let (Ok(s1), Ok(s2)) = (UdpSocket::bind("127.0.0.1:0").await, UdpSocket::bind("127.0.0.1:0").await) else { continue };
                let mut buf = vec![0u8; 70000];
                for pid in 1..=8u64 {
                    let sock = if pid <= 4 || (round % 2 == 1 && pid == 7) { &s1 } else { &s2 };
                    let payload = make_payload(nonce, 500 + round as u16, 0, pid as u32, 100, 0);
                    let p = ss::S22UdpPacket { session_id: sid, packet_id: pid, type_byte: 0, timestamp: now_s(), client_session_id: None, padding: vec![], addr: target.clone(), payload };
                    let w = ss::s22_udp_client_encode(m, &keys, &p, &rng.arr());
                    let _ = sock.send_to(&w, ("127.0.0.1", u.port)).await;
                    rep.evaluations += 1;
                    // the replies (two per datagram) come back to whichever address the server believes in
                    for _ in 0..2 {
                        tokio::select! {
                            _ = s1.recv_from(&mut buf) => {}
                            _ = async { let mut b2 = vec![0u8; 70000]; let _ = s2.recv_from(&mut b2).await; } => {}
                            _ = tokio::time::sleep(Duration::from_millis(120)) => {}
                        }
                    }
                }
                rep.mon("datagram_sessions_continued_from_another_address", 1);
            }
        }
    }
    tokio::time::sleep(Duration::from_millis(400)).await;
    // ---- the tapes, decoded with the reference implementation
    let mut set = UnitSet::default();
    let mut fresh: Vec<(&'static str, Vec<u8>)> = Vec::new();
    let up = chopper.recorded.lock().unwrap().clone();
    let down = chopper.recorded_down.lock().unwrap().clone();
    let mut undecodable = 0u64;
    if matches!(transport, Transport::Tcp) {
        for (link, c2s) in up.iter() {
            if c2s.is_empty() || c2s.len() >= (1 << 20) {
                continue;
            }
            let s2c = down.get(link).cloned().unwrap_or_default();
            if s2c.len() >= (1 << 20) {
                continue;
            }
            refimpl::unit_log_start();
            let r = decode_link(&cfg, c2s, &s2c, &mut fresh);
            let units = refimpl::unit_log_take();
            rep.mon("aead_units_recorded_from_the_wire", units.len() as u64);
            rep.mon("tcp_links_decoded", 1);
            check_units(&mut rep, "wire", &cfgname, units, &mut set, json!({"seed": a.seed, "link": link}));
            if let Err(e) = r {
                // a link the reference cannot read to its end (a flow that was reset mid-chunk ends in a partial unit)
                if !(e.contains("ncomplete") || e.contains("truncated")) {
                    undecodable += 1;
                    rep.note(format!("{cfgname}: link {link}: {e}"));
                }
            }
        }
    }
    if let Some(u) = &udpfwd {
        let rec = u.recorded.lock().unwrap();
        let m = cfg.method().unwrap();
        let psk = cfg.ref_server_psk();
        let users_ref = cfg.ref_users();
        let ckey = cfg.ref_client_keys().psk;
        let mut sids: HashSet<u64> = HashSet::new();
        let mut per_session_ids: std::collections::HashMap<u64, Vec<u64>> = std::collections::HashMap::new();
        refimpl::unit_log_start();
        for (_from, pkt) in rec.to_server.iter() {
            rep.mon("datagrams_decoded_from_the_wire", 1);
            if m.is_2022() {
                match ss::s22_udp_server_decode(m, &psk, &users_ref, pkt) {
                    Ok((p, _)) => {
                        sids.insert(p.session_id);
                        per_session_ids.entry(p.session_id).or_default().push(p.packet_id);
                    }
                    Err(_) => undecodable += 1,
                }
            } else {
                fresh.push(("udp-salt", pkt[..m.key_len().min(pkt.len())].to_vec()));
                if ss::sip004_udp_decode(m, &psk, pkt).is_err() {
                    undecodable += 1;
                }
            }
        }
        for (_to, pkt) in rec.to_client.iter() {
            rep.mon("datagrams_decoded_from_the_wire", 1);
            if m.is_2022() {
                match ss::s22_udp_client_decode(m, &ckey, pkt) {
                    Ok(p) => per_session_ids.entry(p.session_id ^ 0x8000_0000_0000_0000).or_default().push(p.packet_id),
                    Err(_) => undecodable += 1,
                }
            } else {
                fresh.push(("udp-salt", pkt[..m.key_len().min(pkt.len())].to_vec()));
                if ss::sip004_udp_decode(m, &psk, pkt).is_err() {
                    undecodable += 1;
                }
            }
        }
        let units = refimpl::unit_log_take();
        rep.mon("aead_units_recorded_from_the_wire", units.len() as u64);
        check_units(&mut rep, "wire-udp", &cfgname, units, &mut set, json!({"seed": a.seed}));
        for s in sids.iter() {
            fresh.push(("udp-client-session-id", s.to_be_bytes().to_vec()));
        }
        // within one session and direction, in the order the datagrams passed the wire, packet ids strictly increase
        for (sid, ids) in per_session_ids.iter() {
            if ids.windows(2).any(|w| w[1] <= w[0]) {
                rep.violation(format!("C12|wire-udp|{}|packet-id-not-strictly-increasing", cfgname), format!("{cfgname}: within one datagram session the packet ids on the wire do not strictly increase"), json!({"seed": a.seed, "session": format!("{:016x}", sid), "ids": ids.iter().take(40).collect::<Vec<_>>()}));
            }
        }
        rep.mon("udp_sessions_on_the_wire", sids.len() as u64);
        // one session per local binding: fewer sessions than application sockets means bindings share a session
        let apps = rep.monitors.get("udp_application_sockets").copied().unwrap_or(0);
        if m.is_2022() && (sids.len() as u64) < apps {
            rep.violation(format!("C12|wire-udp|{}|sessions-shared-between-bindings", cfgname), format!("{cfgname}: {} application sockets were served with {} client session ids", apps, sids.len()), json!({"seed": a.seed, "applications": apps, "sessions": sids.len()}));
        }
    }
    // per-session random values: no repeats within the run (two independently started client processes included)
    let mut seen: HashSet<(&'static str, Vec<u8>)> = HashSet::new();
    for (k, v) in fresh.iter() {
        rep.mon(&format!("fresh_values_on_the_wire:{k}"), 1);
        if !seen.insert((k, v.clone())) {
            rep.violation(format!("C12|wire|{}|{}-repeated", cfgname, k), format!("{cfgname}: a {k} appeared twice on the wire of one run"), json!({"seed": a.seed, "value": crate::report::hex(v)}));
        }
    }
    if undecodable > 0 {
        rep.mon("taped_units_the_reference_could_not_decode_(not_judged)", undecodable);
    }
    rep.case(&("wire", idx), set.count > 0);
    if idx == 0 {
        rep.sample(json!({"config": cfgname, "client_processes": 2, "tcp_links_taped": up.len(), "aead_units": set.count, "fresh_values": fresh.len()}));
    }
    for (who, node) in [("client", &mut pair.client), ("server", &mut pair.server)] {
        if !node.alive() {
            rep.violation(format!("C12|wire|{}|{}-exited", cfgname, who), format!("{who} exited"), json!({"log": node.log_tail(8)}));
        }
    }
    drop(second);
    drop(pair);
    drop(target);
    if std::env::var("OSV_KEEP_LOGS").is_err() {
        let _ = std::fs::remove_dir_all(&dir);
    }
    rep
}

/// An always-answering target: greets with 200 bytes at once, then echoes.
pub(super) async fn start_greeter() -> Option<(u16, tokio::task::JoinHandle<()>, Arc<std::sync::atomic::AtomicU64>)> {
    use tokio::io::{AsyncReadExt, AsyncWriteExt};
    let l = tokio::net::TcpListener::bind("127.0.0.1:0").await.ok()?;
    let port = l.local_addr().ok()?.port();
    let dials = Arc::new(std::sync::atomic::AtomicU64::new(0));
    let d2 = dials.clone();
    let h = tokio::spawn(async move {
        while let Ok((mut s, _)) = l.accept().await {
            let n = d2.fetch_add(1, std::sync::atomic::Ordering::SeqCst);
            tokio::spawn(async move {
                let greeting: Vec<u8> = (0..200u32).map(|i| (i as u8) ^ (n as u8)).collect();
                if s.write_all(&greeting).await.is_err() {
                    return;
                }
                let mut b = [0u8; 4096];
                while let Ok(k) = s.read(&mut b).await {
                    if k == 0 || s.write_all(&b[..k]).await.is_err() {
                        break;
                    }
                }
            });
        }
    });
    Some((port, h, dials))
}

/// Present `wire` to the server through `via` and collect what it answers (until 400 ms of silence after the first
/// answer byte, at most 3 s / 64 KiB).
async fn present(via: Transport, port: u16, wire: &[u8]) -> Result<Vec<u8>, String> {
    let mut p = super::pipe::Pipe::connect(via, port).await?;
    p.send(wire).await?;
    let mut got = Vec::new();
    let deadline = tokio::time::Instant::now() + Duration::from_secs(3);
    loop {
        let wait = if got.is_empty() { Duration::from_millis(1200) } else { Duration::from_millis(400) };
        match tokio::time::timeout(wait, p.recv()).await {
            Ok(Ok(Some(b))) => got.extend_from_slice(&b),
            _ => break,
        }
        if got.len() > 65536 || tokio::time::Instant::now() > deadline {
            break;
        }
    }
    p.abort();
    Ok(got)
}

/// Like `present`, for two connections at once and in two pieces: the first `head` bytes travel on both connections,
/// 150 ms later the rest on both (whatever a server decides at the first bytes of a request it decides for both copies
/// before either is complete).
async fn present_twins(via: Transport, port: u16, wire: &[u8], head: usize) -> Result<(Vec<u8>, Vec<u8>), String> {
    let head = head.min(wire.len().saturating_sub(1)).max(1);
    let (mut p1, mut p2) = (super::pipe::Pipe::connect(via, port).await?, super::pipe::Pipe::connect(via, port).await?);
    p1.send(&wire[..head]).await?;
    p2.send(&wire[..head]).await?;
    tokio::time::sleep(Duration::from_millis(150)).await;
    p1.send(&wire[head..]).await?;
    p2.send(&wire[head..]).await?;
    let mut outs = Vec::new();
    for p in [&mut p1, &mut p2] {
        let mut got = Vec::new();
        let deadline = tokio::time::Instant::now() + Duration::from_secs(3);
        loop {
            let wait = if got.is_empty() { Duration::from_millis(1200) } else { Duration::from_millis(400) };
            match tokio::time::timeout(wait, p.recv()).await {
                Ok(Ok(Some(b))) => got.extend_from_slice(&b),
                _ => break,
            }
            if got.len() > 65536 || tokio::time::Instant::now() > deadline {
                break;
            }
        }
        outs.push(got);
    }
    p1.abort();
    p2.abort();
    let b = outs.pop().unwrap_or_default();
    let a = outs.pop().unwrap_or_default();
    Ok((a, b))
}

/// A request the server has answered is presented again, verbatim, by a third party (an attacker who taped it): once
/// more, and as three simultaneous copies. The server seals its answers under keys it derives from the request (VMess:
/// response header and body key / IV are functions of the request's; Shadowsocks: the master key and a salt of the
/// server's choosing), so EVERYTHING it sends in answer to the copies goes into one (key, nonce) set with the answer to
/// the original. Whether the copy is refused or served is not judged here (C10) - only that no two units the server
/// ever emitted share key and nonce.
async fn replayed_requests(a: Args, idx: usize, proto: Proto, transport: Transport) -> Report {
    use crate::peer::{ClientOpts, RefClient};
    let mut rep = Report::new();
    let mut rng = Rng::derive(a.seed, 0xC12F, idx as u64);
    let users = match proto {
        Proto::Ss(m) if m.supports_eih() => *rng.pick(&[0usize, 2]),
        Proto::Vmess(_) => 2,
        _ => 0,
    };
    let cfg = Cfg::random(&mut rng, proto, users);
    let dir = work_dir(&a, &format!("c12-r{idx}"));
    let d = Deploy::new(cfg.clone(), transport, false, 2, &dir);
    let cfgname = format!("{}|{}|users={}", proto.name(), transport.name(), users);
    // the server process runs TWO inbounds with the same protocol, credential and users (the configuration file is a list):
    // a copy of a request answered at one inbound is also presented at the other one
    let mut d_other = d.clone();
    d_other.server_port = free_port();
    let two_inbounds = json!([d.server_entry(), d_other.server_entry()]);
    let (dd, tag) = (d.clone(), format!("c12-r{idx}"));
    let quic = matches!(transport, Transport::Quic);
    let started = tokio::task::spawn_blocking(move || {
        let mut server = start_node("server", &two_inbounds, &dd.dir, &tag, dd.workers, &dd.log_level, None, None).map_err(|e| e.to_string())?;
        wait_ready(&mut server, if quic { None } else { Some(dd.server_port) }, if quic { Some(dd.server_port) } else { None }, Duration::from_secs(15))?;
        Ok::<Node, String>(server)
    })
    .await
    .unwrap();
    let mut server = match started {
        Ok(s) => s,
        Err(e) => {
            rep.inconclusive(format!("{cfgname}: server does not start: {}", e.lines().next().unwrap_or("")));
            return rep;
        }
    };
    let Some((tport, greeter, dials)) = start_greeter().await else { return rep };
    let mut set = UnitSet::default();
    let rounds = if a.thorough { 6 } else { 2 };
    let mut served_again = 0u64;
    for round in 0..rounds {
        let opts = ClientOpts { vmess_option: *rng.pick(&[0x01u8, 0x05, 0x0D, 0x1D]), ..ClientOpts::default() };
        let mut c = RefClient::new(&cfg, &refimpl::addr::Addr::V4([127, 0, 0, 1], tport), &mut rng, now_s(), opts);
        let n = rng.range(1, 900);
        let payload = rng.bytes(n);
        let wire = c.write(&payload, &mut rng);
        let first = match present(transport, d.server_port, &wire).await {
            Ok(b) => b,
            Err(e) => {
                rep.inconclusive(format!("{cfgname}: {e}"));
                continue;
            }
        };
        rep.evaluations += 1;
        if first.is_empty() {
            rep.inconclusive(format!("{cfgname}: the original request was not answered"));
            continue;
        }
        let mut fresh = Vec::new();
        refimpl::unit_log_start();
        let r = decode_link_x(&cfg, &wire, &first, &mut fresh, false);
        let units = refimpl::unit_log_take();
        if let Err(e) = r {
            if !(e.contains("ncomplete") || e.contains("truncated")) {
                rep.inconclusive(format!("{cfgname}: the answer to the original is not readable: {e}"));
                continue;
            }
        }
        rep.mon("replay:answers_to_originals_decoded", 1);
        rep.mon("replay:aead_units_recorded", units.len() as u64);
        check_units(&mut rep, "wire-replay", &cfgname, units, &mut set, json!({"seed": a.seed, "round": round, "copy": 0}));
        // the copies: one more, then three at once
        let before = dials.load(std::sync::atomic::Ordering::SeqCst);
        let mut answers = vec![present(transport, d.server_port, &wire).await.unwrap_or_default()];
        let (p1, p2, p3) = tokio::join!(present(transport, d.server_port, &wire), present(transport, d.server_port, &wire), present(transport, d.server_port, &wire));
        answers.extend([p1.unwrap_or_default(), p2.unwrap_or_default(), p3.unwrap_or_default()]);
        // ... and at the other inbound of the same process (twice)
        for _ in 0..2 {
            answers.push(present(transport, d_other.server_port, &wire).await.unwrap_or_default());
            rep.mon("replay:copies_presented_at_another_inbound_of_the_process", 1);
        }
        rep.evaluations += 6;
        rep.mon("replay:copies_presented", 6);
        for (k, ans) in answers.iter().enumerate() {
            if ans.is_empty() {
                rep.mon("replay:copies_left_unanswered", 1);
                continue;
            }
            rep.mon("replay:copies_answered", 1);
            refimpl::unit_log_start();
            let r = decode_link_x(&cfg, &wire, ans, &mut fresh, true);
            let units = refimpl::unit_log_take();
            rep.mon("replay:aead_units_recorded", units.len() as u64);
            if let Err(e) = &r {
                if units.is_empty() {
                    rep.mon("replay:answers_to_copies_not_readable_with_the_request_keys", 1);
                    let _ = e;
                }
            }
            check_units(&mut rep, "wire-replay", &cfgname, units, &mut set, json!({"seed": a.seed, "round": round, "copy": k + 1, "answer_bytes": ans.len(), "deploy": d.describe()}));
        }
        tokio::time::sleep(Duration::from_millis(100)).await;
        served_again += dials.load(std::sync::atomic::Ordering::SeqCst).saturating_sub(before);
        // twins: a FRESH request arrives on two connections at the same time and in two pieces (the cut behind the part
        // of the request that identifies it - auth id / salt - and before its header is complete)
        for head in [20usize, 40] {
            let opts = ClientOpts { vmess_option: *rng.pick(&[0x01u8, 0x05, 0x0D, 0x1D]), ..ClientOpts::default() };
            let mut c = RefClient::new(&cfg, &refimpl::addr::Addr::V4([127, 0, 0, 1], tport), &mut rng, now_s(), opts);
            let n = rng.range(1, 300);
            let wire = c.write(&rng.bytes(n), &mut rng);
            // Shadowsocks 2022 wants salt and fixed header in the first read: such a request is legitimately refused when cut there
            if matches!(proto, Proto::Ss(m) if m.is_2022()) {
                continue;
            }
            let Ok((a1, a2)) = present_twins(transport, d.server_port, &wire, head).await else { continue };
            rep.evaluations += 2;
            rep.mon("replay:twin_requests_presented_in_two_pieces", 2);
            for (k, ans) in [a1, a2].iter().enumerate() {
                if ans.is_empty() {
                    continue;
                }
                rep.mon("replay:twin_requests_answered", 1);
                refimpl::unit_log_start();
                let _ = decode_link_x(&cfg, &wire, ans, &mut fresh, k > 0);
                let units = refimpl::unit_log_take();
                rep.mon("replay:aead_units_recorded", units.len() as u64);
                check_units(&mut rep, "wire-replay", &cfgname, units, &mut set, json!({"seed": a.seed, "round": round, "twin": k, "first_piece_bytes": head, "answer_bytes": ans.len(), "deploy": d.describe()}));
            }
        }
    }
    rep.mon("replay:copies_that_reached_the_target_(C10_judges_that)", served_again);
    rep.case(&("wire-replay", idx), set.count > 0);
    if idx == 0 {
        rep.sample(json!({"config": cfgname, "part": "replayed requests", "rounds": rounds, "copies_per_request": "4 at the inbound that answered the original, 2 at a second inbound of the same server process", "aead_units": set.count}));
    }
    if !server.alive() {
        rep.violation(format!("C12|wire-replay|{}|server-exited", cfgname), "server exited", json!({"log": server.log_tail(8)}));
    }
    greeter.abort();
    drop(server);
    if std::env::var("OSV_KEEP_LOGS").is_err() {
        let _ = std::fs::remove_dir_all(&dir);
    }
    rep
}

/// One client session, two listeners: the server process runs two Shadowsocks 2022 inbounds with the same key (the
/// configuration file is a list). A reference client sends datagrams of ONE session - packet ids 1..4 to the first
/// listener, 5..8 to the second, then 9..10 to the first again - from one socket. Every answer is opened with the
/// reference decoder: whatever the two listeners make of the session, no two answers may carry the same (server
/// session id, packet id) - under one key that pair is the nonce.
async fn udp_session_at_two_inbounds(a: Args, idx: usize, m: refimpl::ss::Method, users: usize) -> Report {
    use refimpl::ss;
    let mut rep = Report::new();
    let mut rng = Rng::derive(a.seed, 0xC12D, idx as u64);
    let cfg = Cfg::random(&mut rng, Proto::Ss(m), users);
    let dir = work_dir(&a, &format!("c12-u{idx}"));
    let d = Deploy::new(cfg.clone(), Transport::Tcp, true, 2, &dir);
    let mut d_other = d.clone();
    d_other.server_port = free_port();
    let cfgname = format!("{}|udp|users={}", m.name(), users);
    let two_inbounds = json!([d.server_entry(), d_other.server_entry()]);
    let (dd, tag, p2) = (d.clone(), format!("c12-u{idx}"), d_other.server_port);
    let started = tokio::task::spawn_blocking(move || {
        let mut server = start_node("server", &two_inbounds, &dd.dir, &tag, dd.workers, &dd.log_level, None, None).map_err(|e| e.to_string())?;
        wait_ready(&mut server, Some(dd.server_port), Some(dd.server_port), Duration::from_secs(15))?;
        wait_ready(&mut server, Some(p2), Some(p2), Duration::from_secs(15))?;
        Ok::<Node, String>(server)
    })
    .await
    .unwrap();
    let mut server = match started {
        Ok(s) => s,
        Err(e) => {
            rep.inconclusive(format!("{cfgname}: server does not start: {}", e.lines().next().unwrap_or("")));
            return rep;
        }
    };
    let t = tokio::net::UdpSocket::bind("127.0.0.1:0").await.unwrap();
    let tport = t.local_addr().unwrap().port();
    let echo = tokio::spawn(async move {
        let mut b = vec![0u8; 4096];
        while let Ok((n, from)) = t.recv_from(&mut b).await {
            let _ = t.send_to(&b[..n], from).await;
        }
    });
    let keys = cfg.ref_client_keys();
    let reply_key = keys.psk.clone();
    let mut set = UnitSet::default();
    let rounds = if a.thorough { 6 } else { 2 };
    for round in 0..rounds {
        let s = tokio::net::UdpSocket::bind("127.0.0.1:0").await.unwrap();
        let session = rng.next_u64();
        let mut seen: HashMap<(u64, u64), u16> = HashMap::new();
        let mut answers = 0u64;
        let mut buf = vec![0u8; 4096];
        for (port, ids) in [(d.server_port, 1..=4u64), (d_other.server_port, 5..=8), (d.server_port, 9..=10)] {
            for id in ids {
                let p = ss::S22UdpPacket { session_id: session, packet_id: id, type_byte: 0, timestamp: now_s(), client_session_id: None, padding: vec![], addr: refimpl::addr::Addr::V4([127, 0, 0, 1], tport), payload: rng.bytes(40) };
                let w = ss::s22_udp_client_encode(m, &keys, &p, &rng.arr());
                let _ = s.send_to(&w, ("127.0.0.1", port)).await;
                rep.evaluations += 1;
                if let Ok(Ok((n, from))) = tokio::time::timeout(Duration::from_millis(800), s.recv_from(&mut buf)).await {
                    refimpl::unit_log_start();
                    let r = ss::s22_udp_client_decode(m, &reply_key, &buf[..n]);
                    let units = refimpl::unit_log_take();
                    if let Ok(pk) = r {
                        answers += 1;
                        rep.mon("udp-two-inbounds:answers_opened", 1);
                        if let Some(first_port) = seen.insert((pk.session_id, pk.packet_id), from.port()) {
                            rep.violation(format!("C12|udp-two-inbounds|{}|server-session-id-and-packet-id-used-twice", cfgname), format!("{cfgname}: two answers to one client session carry the same server session id and packet id {} (one from port {first_port}, one from port {})", pk.packet_id, from.port()), json!({"seed": a.seed, "round": round, "deploy": [d.server_entry(), d_other.server_entry()]}));
                        }
                        check_units(&mut rep, "udp-two-inbounds", &cfgname, units, &mut set, json!({"seed": a.seed, "round": round, "from_port": from.port()}));
                    }
                }
            }
        }
        rep.case(&("udp-two-inbounds", idx, round), answers > 0);
        if answers == 0 {
            rep.inconclusive(format!("{cfgname}: no datagram of the session was answered"));
        }
    }
    if !server.alive() {
        rep.violation(format!("C12|udp-two-inbounds|{}|server-exited", cfgname), "server exited", json!({"log": server.log_tail(8)}));
    }
    echo.abort();
    drop(server);
    let _ = std::fs::remove_dir_all(&dir);
    rep
}

pub async fn run(a: &Args) -> Report {
    // the wire is decodable for the plain tcp transport (tls / quic hide it, websocket frames mask it)
    let protos: Vec<Proto> = all_protos().into_iter().filter(|p| p.encrypted()).collect();
    let sem = Arc::new(tokio::sync::Semaphore::new(5));
    let mut hs = Vec::new();
    for (idx, p) in protos.into_iter().enumerate() {
        if !a.thorough && (idx + a.seed as usize) % 3 == 2 {
            continue;
        }
        let a = a.clone();
        let sem = sem.clone();
        hs.push(tokio::spawn(async move {
            let _g = sem.acquire_owned().await.unwrap();
            one_config(a, idx, p, Transport::Tcp).await
        }));
    }
    // requests presented again by a third party, through every transport (quick: one rotating transport per protocol)
    let protos: Vec<Proto> = all_protos().into_iter().filter(|p| p.encrypted()).collect();
    for (idx, p) in protos.into_iter().enumerate() {
        for (k, t) in ALL_TRANSPORTS.iter().enumerate() {
            if !a.thorough && (idx + k + a.seed as usize) % 5 != 0 {
                continue;
            }
            let a = a.clone();
            let sem = sem.clone();
            let t = *t;
            hs.push(tokio::spawn(async move {
                let _g = sem.acquire_owned().await.unwrap();
                replayed_requests(a, idx * 8 + k, p, t).await
            }));
        }
    }
    {
        use refimpl::ss::Method as M;
        for (k, (m, users)) in [(M::B3Aes128Gcm, 0usize), (M::B3Aes256Gcm, 2), (M::B3ChaCha20Poly1305, 0), (M::B3ChaCha8Poly1305, 0)].into_iter().enumerate() {
            if !a.thorough && (k + a.seed as usize) % 2 != 0 {
                continue;
            }
            let (a, sem) = (a.clone(), sem.clone());
            hs.push(tokio::spawn(async move {
                let _g = sem.acquire_owned().await.unwrap();
                udp_session_at_two_inbounds(a, k, m, users).await
            }));
        }
    }
    let mut rep = Report::new();
    for h in hs {
        if let Ok(r) = h.await {
            rep.merge(r);
        }
    }
    rep
}
