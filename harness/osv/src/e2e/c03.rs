//! C03 at node level - what RUNNING nodes put on the wire is read by the strict reference implementation.
//!
//! The codec-level differential hands the encoders items of at most 8 KiB, "the largest the relay can produce". That
//! is an assumption about the relay; here the relay itself produces the items:
//!
//!  * a real client, fed by an application that writes 1 byte .. 1 MiB per write, talks to a strict reference SERVER
//!    (plain tcp, and websocket): every chunk on the wire must respect the sender limits of its specification
//!    (SIP004: 0x3FFF payload bytes; SIP022: 0xFFFF; VMess: 2^14-ish sealed chunks as the reference reader
//!    enforces), the request must name the target the application asked for, the payload must be the positional
//!    stream the application wrote; the reference server answers with chunks of the LARGEST size its specification
//!    allows and the application must receive exactly those bytes;
//!  * a strict reference CLIENT talks to a real server whose target answers with bursts of up to 1 MiB in one write:
//!    what the server emits must again respect the sender limits and decode to the target's bytes.
//!
//! The evidence names the largest chunk seen per protocol and direction.

use std::collections::BTreeMap;
use std::sync::{Arc, Mutex};
use std::time::Duration;

use refimpl::addr::Addr;
use serde_json::json;
use tokio::io::{AsyncReadExt, AsyncWriteExt};
use tokio::net::{TcpListener, TcpStream};

use super::c01::work_dir;
use super::c07::SrvConn;
use super::endpoints::{local_handshake, LocalKind};
use super::nodes::*;
use super::pipe::Pipe;
use crate::checks::Args;
use crate::peer::{ClientOpts, RefClient, RefServer, ServerOpts};
use crate::prng::{stream_fill, Rng};
use crate::real::{all_protos, Cfg, Proto};
use crate::report::Report;

fn now_s() -> u64 {
    std::time::SystemTime::now().duration_since(std::time::UNIX_EPOCH).unwrap().as_secs()
}

pub(super) const HDR: usize = 8 + 4 + 4 + 4;

pub(super) fn header(nonce: u64, flow: u32, up: u32, down: u32) -> Vec<u8> {
    let mut h = nonce.to_be_bytes().to_vec();
    h.extend_from_slice(&flow.to_be_bytes());
    h.extend_from_slice(&up.to_be_bytes());
    h.extend_from_slice(&down.to_be_bytes());
    h
}

fn parse_header(nonce: u64, b: &[u8]) -> Option<(u32, u32, u32)> {
    if b.len() < HDR || b[..8] != nonce.to_be_bytes() {
        return None;
    }
    Some((u32::from_be_bytes(b[8..12].try_into().unwrap()), u32::from_be_bytes(b[12..16].try_into().unwrap()), u32::from_be_bytes(b[16..20].try_into().unwrap())))
}

pub(super) fn stream(nonce: u64, flow: u32, dir: u64, len: usize) -> Vec<u8> {
    let mut v = vec![0u8; len];
    stream_fill(nonce, flow as u64, dir, 0, &mut v);
    v
}

#[derive(Default)]
struct Seen {
    problems: Vec<(String, String)>,
    largest_chunk_from_client: usize,
    flows_decoded: u64,
    bytes_compared: u64,
}

/// The strict reference server: decodes what the real client sends, checks it, answers with maximal chunks.
async fn ref_server_conn(mut c: SrvConn, cfg: Cfg, nonce: u64, want_addr: Addr, seen: Arc<Mutex<Seen>>, seed: u64) {
    let mut rng = Rng::new(seed);
    let max_chunk = match cfg.proto {
        Proto::Ss(m) if m.is_2022() => 0xFFFF,
        Proto::Ss(_) => 0x3FFF,
        _ => 0x3FFF,
    };
    let mut srv = RefServer::new(&cfg, now_s(), ServerOpts { max_chunk, strict_limits: true, ..Default::default() });
    let mut got: Vec<u8> = Vec::new();
    let mut hdr: Option<(u32, u32, u32)> = None;
    let mut largest_unit = 0usize;
    let problem = |k: &str, d: String| seen.lock().unwrap().problems.push((k.to_string(), d));
    loop {
        let Ok(Some(b)) = tokio::time::timeout(Duration::from_secs(20), c.recv()).await else {
            if hdr.is_some() {
                problem("request-incomplete-at-the-reference-server", format!("{} of {:?} bytes", got.len(), hdr));
            }
            return;
        };
        match srv.read_units(&b) {
            Ok(units) => {
                for u in units {
                    largest_unit = largest_unit.max(u.len());
                    got.extend_from_slice(&u);
                }
            }
            Err(e) => {
                problem(&format!("ref-rejects:{}", crate::panicmon::normalise(&e.to_string())), format!("after {} payload bytes", got.len()));
                return;
            }
        }
        if hdr.is_none() {
            hdr = parse_header(nonce, &got);
        }
        if let Some((_, up, _)) = hdr {
            if got.len() >= HDR + up as usize {
                break;
            }
        }
    }
    let (flow, up, down) = hdr.unwrap();
    {
        let mut s = seen.lock().unwrap();
        s.largest_chunk_from_client = s.largest_chunk_from_client.max(srv.ss_chunk_lens().into_iter().max().unwrap_or(if matches!(cfg.proto, Proto::Vmess(_)) { largest_unit } else { 0 }));
        s.flows_decoded += 1;
        s.bytes_compared += up as u64;
    }
    if srv.addr.as_ref() != Some(&want_addr) {
        problem("addr-mismatch", format!("reference server decoded {:?}", srv.addr.as_ref().map(|a| a.describe())));
    }
    if got[HDR..HDR + up as usize] != stream(nonce, flow, 0, up as usize)[..] || got.len() != HDR + up as usize {
        problem("payload-mismatch", format!("flow {flow}: {} bytes decoded, {} written", got.len() - HDR, up));
    }
    // the answer: chunks as large as the specification allows, several per write
    let body = stream(nonce, flow, 1, down as usize);
    let mut off = 0;
    while off < body.len() {
        let n = (body.len() - off).min(*rng.pick(&[1usize, 0x3FFF, 0xFFFF, 200_000]));
        let w = srv.write(&body[off..off + n], &mut rng);
        c.send(&w).await;
        off += n;
    }
    // let the client drain before the connection goes away
    let _ = tokio::time::timeout(Duration::from_secs(10), async { while c.recv().await.is_some() {} }).await;
}

async fn app_flow(client_port: u16, nonce: u64, flow: u32, up: usize, wsize: usize, down: usize) -> Result<(), String> {
    let mut s = TcpStream::connect(("127.0.0.1", client_port)).await.map_err(|e| format!("connect to the client: {e}"))?;
    local_handshake(&mut s, LocalKind::Socks5Domain, "wire.example", 8443).await.map_err(|e| format!("local handshake: {:?}", e))?;
    let mut data = header(nonce, flow, up as u32, down as u32);
    data.extend_from_slice(&stream(nonce, flow, 0, up));
    let (mut r, mut w) = s.into_split();
    let writer = async {
        // the header goes with the first write
        let mut off = 0;
        let mut first = true;
        while off < data.len() {
            let n = (data.len() - off).min(if first { HDR + wsize } else { wsize });
            first = false;
            w.write_all(&data[off..off + n]).await.map_err(|e| format!("write: {e}"))?;
            off += n;
        }
        Ok::<(), String>(())
    };
    let reader = async {
        let mut got = vec![0u8; down];
        tokio::time::timeout(Duration::from_secs(30), r.read_exact(&mut got)).await.map_err(|_| "answer incomplete after 30 s".to_string())?.map_err(|e| format!("answer incomplete: {e}"))?;
        if got != stream(nonce, flow, 1, down) {
            return Err("answer differs from what the reference server sent".into());
        }
        Ok::<(), String>(())
    };
    let (a, b) = tokio::join!(writer, reader);
    a?;
    b
}

async fn client_side(a: &Args, idx: usize, proto: Proto, ws: bool, rep: &mut Report) {
    let mut rng = Rng::derive(a.seed, 0xC03E, idx as u64);
    let users = match proto {
        Proto::Ss(m) if m.supports_eih() => *rng.pick(&[0usize, 2]),
        Proto::Vmess(_) => 2,
        _ => 0,
    };
    let cfg = Cfg::random(&mut rng, proto, users);
    let cfgname = format!("{}|{}", proto.name(), if ws { "ws" } else { "tcp" });
    let dir = work_dir(a, &format!("c03-{idx}"));
    let port = free_port();
    let Ok(l) = TcpListener::bind(("127.0.0.1", port)).await else {
        rep.inconclusive("reference server: bind");
        return;
    };
    let nonce = rng.next_u64();
    let seen = Arc::new(Mutex::new(Seen::default()));
    let want_addr = Addr::Domain(b"wire.example".to_vec(), 8443);
    let (cfg2, seen2, wa) = (cfg.clone(), seen.clone(), want_addr.clone());
    let seed0 = rng.next_u64();
    let srv_task = tokio::spawn(async move {
        let mut n = 0u64;
        loop {
            let Ok((s, _)) = l.accept().await else { continue };
            let _ = s.set_nodelay(true);
            n += 1;
            let (cfg, seen, wa) = (cfg2.clone(), seen2.clone(), wa.clone());
            tokio::spawn(async move {
                let c = if ws {
                    match tokio::time::timeout(Duration::from_secs(3), tokio_websockets::ServerBuilder::new().accept(s)).await {
                        Ok(Ok((_r, w))) => SrvConn::Ws(w),
                        _ => return,
                    }
                } else {
                    SrvConn::Tcp(s)
                };
                ref_server_conn(c, cfg, nonce, wa, seen, seed0 ^ n).await;
            });
        }
    });
    let mut d = Deploy::new(cfg.clone(), if ws { Transport::Ws } else { Transport::Tcp }, false, 2, &dir);
    d.server_port = port;
    let (dj, ddir, t, lvl, cport) = (d.client_json(), d.dir.clone(), format!("c03-{idx}"), d.log_level.clone(), d.client_port);
    let node = tokio::task::spawn_blocking(move || {
        let mut n = start_node("client", &dj, &ddir, &t, 2, &lvl, None, None).map_err(|e| e.to_string())?;
        wait_ready(&mut n, Some(cport), None, Duration::from_secs(15))?;
        Ok::<Node, String>(n)
    })
    .await
    .unwrap();
    let mut node = match node {
        Ok(n) => n,
        Err(e) => {
            rep.inconclusive(format!("{cfgname}: client does not start: {}", e.lines().next().unwrap_or("")));
            srv_task.abort();
            return;
        }
    };
    // (upload, write size, download)
    let mut plan: Vec<(usize, usize, usize)> = vec![(1, 1, 1), (100, 7, 70_000), (20_000, 20_000, 100), (70_000, 70_000, 70_000), (300_000, 65_536, 300_000), (1 << 20, 1 << 20, 200_000), (40_000, 16_384, 16_384), (16_383, 16_383, 16_383), (16_385, 16_385, 65_535)];
    if a.thorough {
        for _ in 0..24 {
            let up = *rng.pick(&[1usize, 8_191, 8_193, 16_384, 32_768, 65_535, 65_536, 131_072, 500_000, 2_000_000]);
            plan.push((up, *rng.pick(&[1usize, 1000, 8192, 16_384, 32_768, 65_536, 1 << 20]).min(&up.max(1)), *rng.pick(&[1usize, 16_383, 16_384, 65_535, 65_536, 1_000_000])));
        }
    }
    let mut hs = Vec::new();
    let sem = Arc::new(tokio::sync::Semaphore::new(4));
    for (k, (up, ws_, down)) in plan.iter().cloned().enumerate() {
        // one-byte writes only for small uploads
        let wsz = if ws_ == 1 && up > 2000 { 997 } else { ws_ };
        let sem = sem.clone();
        hs.push(tokio::spawn(async move {
            let _g = sem.acquire_owned().await.unwrap();
            (k, up, wsz, down, tokio::time::timeout(Duration::from_secs(60), app_flow(cport, nonce, k as u32, up, wsz, down)).await.unwrap_or(Err("flow did not finish within 60 s".into())))
        }));
    }
    for h in hs {
        let Ok((k, up, wsz, down, r)) = h.await else { continue };
        rep.evaluations += 1;
        rep.case(&("client-side", idx, k), true);
        rep.mon("flows_real_client_to_strict_reference_server", 1);
        if let Err(e) = r {
            // the reference server's own complaint (if any) is the more precise symptom and is reported below
            if seen.lock().unwrap().problems.is_empty() {
                rep.violation(format!("C03|nodes|ref-server->real-client|{}|{}", cfgname, crate::panicmon::normalise(&e)), format!("{cfgname}: flow upload={up} (writes of {wsz}) download={down}: {e}"), json!({"seed": a.seed, "client": d.client_json(), "flow": {"upload": up, "write_size": wsz, "download": down}, "client_log": node.log_tail(8)}));
            }
        } else {
            rep.mon("payload_bytes_compared", (up + down) as u64);
        }
    }
    let s = seen.lock().unwrap();
    let mut by: BTreeMap<String, (u64, String)> = BTreeMap::new();
    for (k, dsc) in s.problems.iter() {
        let e = by.entry(k.clone()).or_insert((0, dsc.clone()));
        e.0 += 1;
    }
    for (k, (n, dsc)) in by {
        rep.violation(format!("C03|nodes|real-client->ref-server|{}|{}", cfgname, k), format!("{cfgname}: what the running client put on the wire: {k} ({dsc}) x{n}"), json!({"seed": a.seed, "client": d.client_json(), "count": n, "largest_chunk_seen": s.largest_chunk_from_client}));
    }
    rep.extra.insert(format!("largest_chunk_from_a_real_client:{}", cfgname), json!(s.largest_chunk_from_client));
    rep.mon("flows_decoded_by_the_strict_reference_server", s.flows_decoded);
    if !node.alive() {
        rep.violation(format!("C03|nodes|{}|client-exited", cfgname), "client exited".to_string(), json!({"log": node.log_tail(8)}));
    }
    srv_task.abort();
    drop(node);
    if std::env::var("OSV_KEEP_LOGS").is_err() {
        let _ = std::fs::remove_dir_all(&dir);
    }
}

/// A target that reads the header and the upload, then writes the whole download in ONE write and closes.
pub(super) async fn burst_target(nonce: u64) -> std::io::Result<(u16, tokio::task::JoinHandle<()>, Arc<Mutex<Vec<String>>>)> {
    let l = TcpListener::bind("127.0.0.1:0").await?;
    let port = l.local_addr()?.port();
    let problems = Arc::new(Mutex::new(Vec::new()));
    let p2 = problems.clone();
    let t = tokio::spawn(async move {
        loop {
            let Ok((mut s, _)) = l.accept().await else { continue };
            let p = p2.clone();
            tokio::spawn(async move {
                let mut got = Vec::new();
                let mut b = vec![0u8; 65536];
                let hdr = loop {
                    match tokio::time::timeout(Duration::from_secs(20), s.read(&mut b)).await {
                        Ok(Ok(n)) if n > 0 => got.extend_from_slice(&b[..n]),
                        _ => return,
                    }
                    if let Some(h) = parse_header(nonce, &got) {
                        if got.len() >= HDR + h.1 as usize {
                            break h;
                        }
                    } else if got.len() >= HDR {
                        p.lock().unwrap().push("target received bytes that are not a flow header".into());
                        return;
                    }
                };
                let (flow, up, down) = hdr;
                if got[HDR..] != stream(nonce, flow, 0, up as usize)[..] {
                    p.lock().unwrap().push(format!("flow {flow}: the target received other bytes than the reference client sent"));
                }
                let _ = s.write_all(&stream(nonce, flow, 1, down as usize)).await;
                let _ = s.shutdown().await;
                let _ = tokio::time::timeout(Duration::from_secs(5), s.read(&mut b)).await;
            });
        }
    });
    Ok((port, t, problems))
}

async fn server_side(a: &Args, idx: usize, proto: Proto, transport: Transport, rep: &mut Report) {
    let mut rng = Rng::derive(a.seed, 0xC03F, idx as u64);
    let users = match proto {
        Proto::Ss(m) if m.supports_eih() => *rng.pick(&[0usize, 2]),
        Proto::Vmess(_) => 2,
        _ => 0,
    };
    let cfg = Cfg::random(&mut rng, proto, users);
    let cfgname = format!("{}|{}", proto.name(), transport.name());
    let dir = work_dir(a, &format!("c03s-{idx}"));
    let d = Deploy::new(cfg.clone(), transport, false, 2, &dir);
    let (dd, tag) = (d.clone(), format!("c03s-{idx}"));
    let started = tokio::task::spawn_blocking(move || {
        let mut server = start_node("server", &dd.server_json(), &dd.dir, &tag, dd.workers, &dd.log_level, None, None).map_err(|e| e.to_string())?;
        let quic = dd.transport == Transport::Quic;
        wait_ready(&mut server, if quic { None } else { Some(dd.server_port) }, if quic { Some(dd.server_port) } else { None }, Duration::from_secs(15))?;
        Ok::<Node, String>(server)
    })
    .await
    .unwrap();
    let mut server = match started {
        Ok(s) => s,
        Err(e) => {
            rep.inconclusive(format!("{cfgname}: server does not start: {}", e.lines().next().unwrap_or("")));
            return;
        }
    };
    let nonce = rng.next_u64();
    let Ok((tport, ttask, tproblems)) = burst_target(nonce).await else {
        rep.inconclusive("target: bind");
        return;
    };
    let target = Addr::V4([127, 0, 0, 1], tport);
    let mut plan: Vec<(usize, usize)> = vec![(1, 1), (100, 70_000), (20_000, 16_383), (3, 16_384), (70_000, 300_000), (5, 1 << 20), (65_535, 65_536)];
    if a.thorough {
        for _ in 0..16 {
            plan.push((*rng.pick(&[1usize, 16_384, 70_000, 300_000]), *rng.pick(&[1usize, 8_192, 8_193, 16_383, 16_384, 32_768, 65_535, 65_536, 500_000, 2_000_000])));
        }
    }
    let mut largest = 0usize;
    for (k, (up, down)) in plan.iter().cloned().enumerate() {
        rep.evaluations += 1;
        rep.case(&("server-side", idx, k), true);
        rep.mon("flows_strict_reference_client_to_real_server", 1);
        let vopt = *rng.pick(&refimpl::vmess::VALID_OPTION_MASKS);
        let max_chunk = match proto {
            Proto::Ss(m) if m.is_2022() => 0xFFFF,
            _ => 0x3FFF,
        };
        let mut c = RefClient::new(&cfg, &target, &mut rng, now_s(), ClientOpts { vmess_option: vopt, max_chunk, strict_limits: true, ..Default::default() });
        let mut data = header(nonce, k as u32, up as u32, down as u32);
        data.extend_from_slice(&stream(nonce, k as u32, 0, up));
        let mut largest_unit = 0usize;
        let r: Result<(), String> = async {
            let mut p = Pipe::connect(transport, d.server_port).await?;
            let mut off = 0;
            while off < data.len() {
                let n = (data.len() - off).min(*rng.pick(&[HDR + 1, 0x3FFF, 0xFFFF, 300_000]));
                let w = c.write(&data[off..off + n], &mut rng);
                p.send(&w).await?;
                off += n;
            }
            let want = stream(nonce, k as u32, 1, down);
            let mut got: Vec<u8> = Vec::new();
            let t0 = std::time::Instant::now();
            while got.len() < want.len() {
                let b = tokio::time::timeout(Duration::from_secs(30).saturating_sub(t0.elapsed()), p.recv()).await.map_err(|_| format!("answer incomplete after 30 s: {} of {} bytes", got.len(), want.len()))??;
                let Some(b) = b else { return Err(format!("end of stream after {} of {} answer bytes", got.len(), want.len())) };
                for u in c.read_units(&b).map_err(|e| format!("ref-rejects:{}", crate::panicmon::normalise(&e.to_string())))? {
                    if matches!(proto, Proto::Vmess(_)) {
                        largest_unit = largest_unit.max(u.len());
                    }
                    got.extend_from_slice(&u);
                }
            }
            if got != want {
                return Err("answer decoded by the reference client differs from what the target wrote".into());
            }
            p.finish().await;
            p.abort();
            Ok(())
        }
        .await;
        largest = largest.max(c.ss_chunk_lens().into_iter().max().unwrap_or(0)).max(largest_unit);
        match r {
            Ok(()) => rep.mon("payload_bytes_compared", (up + down) as u64),
            Err(e) => rep.violation(format!("C03|nodes|real-server->ref-client|{}|{}", cfgname, crate::panicmon::normalise(&e)), format!("{cfgname}: flow upload={up} download={down} (one burst from the target): {e}"), json!({"seed": a.seed, "server": d.server_json(), "flow": {"upload": up, "download": down}, "largest_chunk_seen": largest, "server_log": server.log_tail(8)})),
        }
    }
    for p in tproblems.lock().unwrap().iter() {
        rep.violation(format!("C03|nodes|ref-client->real-server|{}|target-side", cfgname), format!("{cfgname}: {p}"), json!({"seed": a.seed, "server": d.server_json()}));
    }
    rep.extra.insert(format!("largest_chunk_from_a_real_server:{}", cfgname), json!(largest));
    if !server.alive() {
        rep.violation(format!("C03|nodes|{}|server-exited", cfgname), "server exited".to_string(), json!({"log": server.log_tail(8)}));
    }
    ttask.abort();
    drop(server);
    if std::env::var("OSV_KEEP_LOGS").is_err() {
        let _ = std::fs::remove_dir_all(&dir);
    }
}

pub async fn run(a: &Args) -> Report {
    let protos = all_protos();
    let sem = Arc::new(tokio::sync::Semaphore::new(6));
    let mut hs = Vec::new();
    for (i, p) in protos.iter().cloned().enumerate() {
        for side in 0..2 {
            let (a, sem) = (a.clone(), sem.clone());
            hs.push(tokio::spawn(async move {
                let _g = sem.acquire_owned().await.unwrap();
                let mut rep = Report::new();
                if side == 0 {
                    // every protocol over plain tcp; websocket for a rotating third (thorough: all)
                    client_side(&a, i * 4, p, false, &mut rep).await;
                    if a.thorough || (i + a.seed as usize) % 3 == 0 {
                        client_side(&a, i * 4 + 1, p, true, &mut rep).await;
                    }
                } else {
                    server_side(&a, i * 4 + 2, p, Transport::Tcp, &mut rep).await;
                    let t2 = ALL_TRANSPORTS[1 + (i + a.seed as usize) % 4];
                    if a.thorough {
                        for t in [Transport::Tls, Transport::Ws, Transport::Wss, Transport::Quic] {
                            server_side(&a, i * 4 + 3 + 100 * (t as usize), p, t, &mut rep).await;
                        }
                    } else {
                        server_side(&a, i * 4 + 3, p, t2, &mut rep).await;
                    }
                }
                rep
            }));
        }
    }
    let mut rep = Report::new();
    for h in hs {
        if let Ok(r) = h.await {
            rep.merge(r);
        }
    }
    rep.sample(json!({"client_side": "application -> REAL client -> strict reference server (tcp / ws): uploads of 1 B .. 1 MiB written in pieces of 1 B .. 1 MiB, answers of up to 300 KB in chunks of the largest size the specification allows", "server_side": "strict reference client -> REAL server -> target that answers with one burst of up to 1 MiB", "oracle": "sender limits (SIP004 0x3FFF, SIP022 0xFFFF), target address, positional payload streams in both directions"}));
    rep
}
