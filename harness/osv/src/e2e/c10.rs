//! C10 at node level - a recorded Shadowsocks 2022 handshake presented again is refused.
//! A forwarder between the real client and the real server tapes everything the client sends. After (and while)
//! genuine flows run, the tape of each connection is played back to the server on new connections - once, and as
//! several simultaneous copies. Oracle: the scripted target attributes connections to flows by the flow token inside
//! the relayed payload; a flow must never be dialled a second time. A fresh flow afterwards must still work.

use std::sync::Arc;
use std::time::Duration;

use serde_json::json;
use tokio::io::{AsyncReadExt, AsyncWriteExt};

use super::c01::work_dir;
use super::endpoints::*;
use super::nodes::*;
use super::tcpflows::*;
use crate::checks::Args;
use crate::prng::Rng;
use crate::real::{Cfg, Proto};
use crate::report::Report;

async fn play(server_port: u16, tape: &[u8], hold: Duration) {
    if let Ok(mut s) = tokio::net::TcpStream::connect(("127.0.0.1", server_port)).await {
        let _ = s.set_nodelay(true);
        let _ = s.write_all(tape).await;
        let mut b = [0u8; 4096];
        let _ = tokio::time::timeout(hold, async {
            while let Ok(n) = s.read(&mut b).await {
                if n == 0 {
                    break;
                }
            }
        })
        .await;
    }
}

fn second_dials(reg: &Registry) -> Vec<u64> {
    reg.flows.lock().unwrap().iter().filter(|(_, f)| f.target.lock().unwrap().prefix_problem.as_deref() == Some("a second connection arrived for this flow")).map(|(id, _)| *id).collect()
}

async fn one_config(a: Args, idx: usize, m: refimpl::ss::Method, transport: Transport, users: usize) -> Report {
    let mut rep = Report::new();
    let mut rng = Rng::derive(a.seed, 0xC10E, idx as u64);
    let cfg = Cfg::random(&mut rng, Proto::Ss(m), users);
    let dir = work_dir(&a, &format!("c10-{idx}"));
    let d = Deploy::new(cfg, transport, false, 4, &dir);
    let cfgname = format!("{}|{}|users={}", m.name(), transport.name(), users);
    let Ok(ch) = super::chopper::start(d.server_port).await else { return rep };
    let tag = format!("c10-{idx}");
    let (dd, chp) = (d.clone(), ch.port);
    let started = tokio::task::spawn_blocking(move || {
        let mut server = start_node("server", &dd.server_json(), &dd.dir, &tag, dd.workers, &dd.log_level, None, None).map_err(|e| e.to_string())?;
        wait_ready(&mut server, Some(dd.server_port), None, Duration::from_secs(15))?;
        let mut dc = dd.clone();
        dc.server_port = chp;
        let mut client = start_node("client", &dc.client_json(), &dd.dir, &tag, dd.workers, &dd.log_level, None, None).map_err(|e| e.to_string())?;
        wait_ready(&mut client, Some(dd.client_port), None, Duration::from_secs(15))?;
        Ok::<Pair, String>(Pair { deploy: dd, client, server })
    })
    .await
    .unwrap();
    let mut pair = match started {
        Ok(p) => p,
        Err(e) => {
            rep.inconclusive(format!("nodes do not start: {}", e.lines().next().unwrap_or("")));
            return rep;
        }
    };
    let reg = Registry::new(rng.next_u64());
    let Ok(target) = start_target(reg.clone()).await else { return rep };
    let base = (idx as u64) << 20;
    // genuine flows: short ones that complete, and long ones that are still running while their tape is replayed
    let mut specs = Vec::new();
    for k in 0..4u64 {
        specs.push(FlowSpec { id: base + k, kind: README_KINDS[k as usize % 4], c2s: 1500, s2c: 1500, write_c: 500, write_s: 500, pause_ms: 0, pattern: Pattern::RequestResponse, closer: Closer::TargetAfterAnswer });
    }
    for k in 4..6u64 {
        specs.push(FlowSpec { id: base + k, kind: README_KINDS[k as usize % 4], c2s: 60_000, s2c: 60_000, write_c: 500, write_s: 500, pause_ms: 10, pattern: Pattern::Simultaneous, closer: Closer::AppAfterAll });
    }
    let (reg2, d2, tp) = (reg.clone(), d.clone(), target.port);
    let flows = tokio::spawn(async move { run_batch(reg2, &d2, tp, specs, 6, Duration::from_secs(25)).await });
    // while the long flows run: replay whatever has been taped so far
    tokio::time::sleep(Duration::from_millis(500)).await;
    let tapes_mid: Vec<Vec<u8>> = ch.recorded.lock().unwrap().values().cloned().collect();
    for t in tapes_mid.iter() {
        play(d.server_port, t, Duration::from_millis(300)).await;
        rep.evaluations += 1;
        rep.mon("tapes_replayed_while_the_original_runs", 1);
    }
    let results = flows.await.unwrap_or_default();
    let genuine_ok = results.iter().filter(|(_, v)| v.symptom.is_none()).count();
    rep.mon("genuine_flows_completed", genuine_ok as u64);
    if genuine_ok == 0 {
        rep.inconclusive(format!("{cfgname}: no genuine flow completed (judged by C01)"));
        return rep;
    }
    // afterwards: every tape once, then four simultaneous copies of each
    let tapes: Vec<Vec<u8>> = ch.recorded.lock().unwrap().values().cloned().collect();
    for t in tapes.iter() {
        play(d.server_port, t, Duration::from_millis(300)).await;
        rep.evaluations += 1;
        rep.mon("tapes_replayed_sequentially", 1);
    }
    for t in tapes.iter() {
        let mut hs = Vec::new();
        for _ in 0..4 {
            let t = t.clone();
            let port = d.server_port;
            hs.push(tokio::spawn(async move { play(port, &t, Duration::from_millis(300)).await }));
        }
        for h in hs {
            let _ = h.await;
        }
        rep.evaluations += 4;
        rep.mon("tapes_replayed_concurrently", 4);
    }
    // a truncated tape (handshake without the end of its first chunk), then the whole tape
    for t in tapes.iter().take(2) {
        let cut = t.len().min(60);
        play(d.server_port, &t[..cut], Duration::from_millis(100)).await;
        play(d.server_port, t, Duration::from_millis(300)).await;
        rep.evaluations += 2;
    }
    tokio::time::sleep(Duration::from_millis(300)).await;
    let twice = second_dials(&reg);
    rep.mon("flows_watched_for_a_second_dial", reg.flows.lock().unwrap().len() as u64);
    for id in twice {
        rep.violation(format!("C10|nodes|{}|replayed-handshake-dialled-the-target-again", cfgname), format!("{cfgname}: the taped handshake of flow {id}, presented again, made the server dial the target a second time"), json!({"seed": a.seed, "deploy": d.describe(), "tapes": tapes.len()}));
    }
    let stray = reg.unattributed.lock().unwrap().clone();
    if !stray.is_empty() {
        rep.violation(format!("C10|nodes|{}|replay-reached-the-target-with-other-bytes", cfgname), format!("{cfgname}: {}", stray[0]), json!({"stray": stray}));
    }
    // the service still works for fresh handshakes
    let r = run_batch(reg.clone(), &d, target.port, vec![FlowSpec { id: base + 50, kind: LocalKind::Socks5V4, c2s: 1000, s2c: 1000, write_c: 500, write_s: 500, pause_ms: 0, pattern: Pattern::RequestResponse, closer: Closer::TargetAfterAnswer }], 1, Duration::from_secs(15)).await;
    if r.iter().any(|(_, v)| v.symptom.is_some()) {
        rep.violation(format!("C10|nodes|{}|fresh-handshake-refused-after-replays", cfgname), format!("{cfgname}: after the replays a fresh flow is not served"), json!({"seed": a.seed}));
    }
    rep.case(&(idx, "replay"), !tapes.is_empty());
    if idx == 0 {
        rep.sample(json!({"config": cfgname, "tapes": tapes.len(), "tape_lengths": tapes.iter().map(|t| t.len()).collect::<Vec<_>>(), "replays": "each tape: while its flow still runs, once afterwards, four copies at once, truncated then whole", "oracle": "flow token inside the relayed payload: no flow is dialled twice"}));
    }
    for (who, node) in [("client", &mut pair.client), ("server", &mut pair.server)] {
        if !node.alive() {
            rep.violation(format!("C10|nodes|{}|{}-exited", cfgname, who), format!("{who} exited"), json!({"log": node.log_tail(8)}));
        }
    }
    drop(pair);
    let _ = std::fs::remove_dir_all(&dir);
    rep
}

/// One salt cache per server: in mode tcp_and_quic a handshake accepted on one listener, presented again on the other
/// one, must be refused just the same. A reference client's request goes to the TCP listener (accepted: the echo target
/// is dialled), then the very same bytes go into a QUIC stream of the same server.
async fn cross_listener(a: Args, idx: usize, m: refimpl::ss::Method) -> Report {
    use crate::peer::{ClientOpts, RefClient};
    let mut rep = Report::new();
    let mut rng = Rng::derive(a.seed, 0xC10F, idx as u64);
    let cfg = Cfg::random(&mut rng, Proto::Ss(m), 0);
    let dir = work_dir(&a, &format!("c10-x{idx}"));
    let mut d = Deploy::new(cfg.clone(), Transport::Quic, false, 2, &dir);
    d.server_mode = Some("tcp_and_quic".into());
    let cfgname = format!("{}|tcp_and_quic", m.name());
    let (dd, tag) = (d.clone(), format!("c10-x{idx}"));
    let started = tokio::task::spawn_blocking(move || {
        let mut server = start_node("server", &dd.server_json(), &dd.dir, &tag, dd.workers, &dd.log_level, None, None).map_err(|e| e.to_string())?;
        wait_ready(&mut server, Some(dd.server_port), Some(dd.server_port), Duration::from_secs(15))?;
        Ok::<Node, String>(server)
    })
    .await
    .unwrap();
    let server = match started {
        Ok(s) => s,
        Err(e) => {
            rep.inconclusive(format!("server does not start: {}", e.lines().next().unwrap_or("")));
            return rep;
        }
    };
    // a target that counts connections
    let l = tokio::net::TcpListener::bind("127.0.0.1:0").await.unwrap();
    let tport = l.local_addr().unwrap().port();
    let dials = Arc::new(std::sync::atomic::AtomicU64::new(0));
    let d2 = dials.clone();
    let tgt = tokio::spawn(async move {
        while let Ok((mut s, _)) = l.accept().await {
            d2.fetch_add(1, std::sync::atomic::Ordering::SeqCst);
            tokio::spawn(async move {
                let mut b = [0u8; 1024];
                while let Ok(n) = s.read(&mut b).await {
                    if n == 0 || s.write_all(&b[..n]).await.is_err() {
                        break;
                    }
                }
            });
        }
    });
    for (first, second) in [("tcp", "quic"), ("quic", "tcp")] {
        let now = std::time::SystemTime::now().duration_since(std::time::UNIX_EPOCH).unwrap().as_secs();
        let mut c = RefClient::new(&cfg, &refimpl::addr::Addr::V4([127, 0, 0, 1], tport), &mut rng, now, ClientOpts::default());
        let w = c.write(b"a taped request", &mut rng);
        let before = dials.load(std::sync::atomic::Ordering::SeqCst);
        let mut counts = Vec::new();
        for via in [first, second] {
            if via == "tcp" {
                play(d.server_port, &w, Duration::from_millis(400)).await;
            } else if let Some((_ep, _conn, mut tx, mut rx)) = quic_open(d.server_port).await {
                let _ = tx.write_all(&w).await;
                let mut b = [0u8; 1024];
                let _ = tokio::time::timeout(Duration::from_millis(400), rx.read(&mut b)).await;
            } else {
                rep.inconclusive("quic connection to the server failed");
            }
            tokio::time::sleep(Duration::from_millis(150)).await;
            counts.push(dials.load(std::sync::atomic::Ordering::SeqCst) - before);
        }
        rep.evaluations += 2;
        rep.mon("cross_listener_replays", 1);
        rep.case(&(idx, first, second), counts.first() == Some(&1));
        match counts[..] {
            [1, 1] => rep.mon("cross_listener_replays_refused", 1),
            [1, n] if n > 1 => rep.violation(format!("C10|nodes|{}|handshake-accepted-over-{}-accepted-again-over-{}", cfgname, first, second), format!("{cfgname}: a handshake accepted on the {first} listener was accepted again when presented on the {second} listener of the same server"), json!({"seed": a.seed, "deploy": d.describe(), "dials": counts})),
            _ => rep.inconclusive(format!("the original handshake over {first} was not served")),
        }
    }
    tgt.abort();
    drop(server);
    let _ = std::fs::remove_dir_all(&dir);
    rep
}

/// The 30-second rule against the server's REAL clock after a quiet period. At second 0 a request and a datagram are served
/// (whatever the server remembers about "now" it remembers from then); a second request and a second datagram are sealed
/// at second 0 as well, but held back. Nothing at all reaches the server for 32 s. Then the held messages arrive - 32 s
/// old, each the first thing the server sees after the silence - and must be refused; fresh ones right behind them must
/// be served (the control without which a dead server would pass).
async fn stale_after_quiet(a: Args, idx: usize, m: refimpl::ss::Method, users: usize) -> Report {
    use crate::peer::{ClientOpts, RefClient};
    let mut rep = Report::new();
    let mut rng = Rng::derive(a.seed, 0xC105, idx as u64);
    let cfg = Cfg::random(&mut rng, Proto::Ss(m), users);
    let dir = work_dir(&a, &format!("c10-q{idx}"));
    let mut d = Deploy::new(cfg.clone(), Transport::Tcp, true, 2, &dir);
    d.server_mode = Some("tcp_and_udp".into());
    let cfgname = format!("{}|users={}|quiet-then-stale", m.name(), users);
    let (dd, tag) = (d.clone(), format!("c10-q{idx}"));
    let started = tokio::task::spawn_blocking(move || {
        let mut server = start_node("server", &dd.server_json(), &dd.dir, &tag, dd.workers, &dd.log_level, None, None).map_err(|e| e.to_string())?;
        wait_ready(&mut server, Some(dd.server_port), Some(dd.server_port), Duration::from_secs(15))?;
        Ok::<Node, String>(server)
    })
    .await
    .unwrap();
    let mut server = match started {
        Ok(s) => s,
        Err(e) => {
            rep.inconclusive(format!("server does not start: {}", e.lines().next().unwrap_or("")));
            return rep;
        }
    };
    // targets that log the first 8 bytes of what arrives (a tag per message)
    let l = tokio::net::TcpListener::bind("127.0.0.1:0").await.unwrap();
    let tport = l.local_addr().unwrap().port();
    let seen: Arc<std::sync::Mutex<Vec<u64>>> = Arc::new(std::sync::Mutex::new(Vec::new()));
    let s2 = seen.clone();
    let tgt = tokio::spawn(async move {
        while let Ok((mut s, _)) = l.accept().await {
            let s2 = s2.clone();
            tokio::spawn(async move {
                let mut b = [0u8; 64];
                if let Ok(Ok(n)) = tokio::time::timeout(Duration::from_secs(3), s.read(&mut b)).await {
                    if n >= 8 {
                        s2.lock().unwrap().push(u64::from_be_bytes(b[..8].try_into().unwrap()));
                    }
                }
            });
        }
    });
    let u = tokio::net::UdpSocket::bind("127.0.0.1:0").await.unwrap();
    let uport = u.local_addr().unwrap().port();
    let s3 = seen.clone();
    let utgt = tokio::spawn(async move {
        let mut b = vec![0u8; 2048];
        while let Ok((n, _)) = u.recv_from(&mut b).await {
            if n >= 8 {
                s3.lock().unwrap().push(u64::from_be_bytes(b[..8].try_into().unwrap()));
            }
        }
    });
    let keys = cfg.ref_client_keys();
    let now = || std::time::SystemTime::now().duration_since(std::time::UNIX_EPOCH).unwrap().as_secs();
    let t0 = now();
    let mut request = |tag: u64, stamp: u64, rng: &mut Rng| {
        let mut c = RefClient::new(&cfg, &refimpl::addr::Addr::V4([127, 0, 0, 1], tport), rng, stamp, ClientOpts::default());
        let mut payload = tag.to_be_bytes().to_vec();
        payload.extend_from_slice(b" a request");
        c.write(&payload, rng)
    };
    let session = rng.next_u64();
    let datagram = |tag: u64, id: u64, stamp: u64, rng: &mut Rng| {
        let mut payload = tag.to_be_bytes().to_vec();
        payload.extend_from_slice(b" a datagram");
        let p = refimpl::ss::S22UdpPacket { session_id: session, packet_id: id, type_byte: 0, timestamp: stamp, client_session_id: None, padding: vec![], addr: refimpl::addr::Addr::V4([127, 0, 0, 1], uport), payload };
        refimpl::ss::s22_udp_client_encode(m, &keys, &p, &rng.arr())
    };
    let (r_now, r_held, d_now, d_held) = (request(1, t0, &mut rng), request(2, t0, &mut rng), datagram(11, 1, t0, &mut rng), datagram(12, 2, t0, &mut rng));
    let us = tokio::net::UdpSocket::bind("127.0.0.1:0").await.unwrap();
    play(d.server_port, &r_now, Duration::from_millis(300)).await;
    let _ = us.send_to(&d_now, ("127.0.0.1", d.server_port)).await;
    tokio::time::sleep(Duration::from_millis(300)).await;
    let served_first = { let g = seen.lock().unwrap(); (g.contains(&1), g.contains(&11)) };
    // ---- the silence
    tokio::time::sleep(Duration::from_secs(32)).await;
    let age = now() - t0;
    // each held message is the FIRST thing its listener sees after the silence
    play(d.server_port, &r_held, Duration::from_millis(300)).await;
    let _ = us.send_to(&d_held, ("127.0.0.1", d.server_port)).await;
    tokio::time::sleep(Duration::from_millis(300)).await;
    let t1 = now();
    let (r_fresh, d_fresh) = (request(3, t1, &mut rng), datagram(13, 3, t1, &mut rng));
    play(d.server_port, &r_fresh, Duration::from_millis(300)).await;
    let _ = us.send_to(&d_fresh, ("127.0.0.1", d.server_port)).await;
    tokio::time::sleep(Duration::from_millis(400)).await;
    let g: Vec<u64> = seen.lock().unwrap().clone();
    rep.evaluations += 6;
    rep.mon("messages_presented_32_s_after_they_were_sealed", 2);
    let w = json!({"seed": a.seed, "config": cfgname, "age_of_the_held_messages_s": age, "tags_seen_by_the_targets": g, "meaning": {"1/11": "request / datagram served at second 0", "2/12": "sealed at second 0, presented after the silence", "3/13": "fresh, presented right behind"}, "server_log": server.log_tail(6)});
    if !served_first.0 || !g.contains(&3) {
        rep.inconclusive(format!("{cfgname}: the control requests were not served (nothing observed)"));
    } else {
        rep.case(&(idx, "quiet-stale-request"), true);
        if g.contains(&2) {
            rep.violation(format!("C10|nodes|{}|request-sealed-{}-s-ago-served-after-a-quiet-period", cfgname, if age >= 31 { ">30" } else { "?" }), format!("{cfgname}: a request whose timestamp was {age} s old was served (it was the first message after 32 s of silence)"), w.clone());
        } else {
            rep.mon("stale_messages_refused_after_a_quiet_period", 1);
        }
    }
    if !served_first.1 || !g.contains(&13) {
        rep.inconclusive(format!("{cfgname}: the control datagrams were not relayed (nothing observed)"));
    } else {
        rep.case(&(idx, "quiet-stale-datagram"), true);
        if g.contains(&12) {
            rep.violation(format!("C10|nodes|{}|datagram-sealed-{}-s-ago-relayed-after-a-quiet-period", cfgname, if age >= 31 { ">30" } else { "?" }), format!("{cfgname}: a datagram whose timestamp was {age} s old was relayed (it was the first datagram after 32 s of silence)"), w);
        } else {
            rep.mon("stale_messages_refused_after_a_quiet_period", 1);
        }
    }
    if !server.alive() {
        rep.violation(format!("C10|nodes|{}|server-exited", cfgname), "server exited".to_string(), json!({"log": server.log_tail(8)}));
    }
    tgt.abort();
    utgt.abort();
    drop(server);
    let _ = std::fs::remove_dir_all(&dir);
    rep
}

async fn quic_open(port: u16) -> Option<(quinn::Endpoint, quinn::Connection, quinn::SendStream, quinn::RecvStream)> {
    use tokio_rustls::rustls::pki_types::pem::PemObject;
    use tokio_rustls::rustls::pki_types::CertificateDer;
    let _ = tokio_rustls::rustls::crypto::aws_lc_rs::default_provider().install_default();
    let cert = CertificateDer::from_pem_file(verif_root().join("certs").join("ca.crt")).ok()?;
    let mut roots = tokio_rustls::rustls::RootCertStore::empty();
    roots.add(cert).ok()?;
    let mut cfg = tokio_rustls::rustls::ClientConfig::builder().with_root_certificates(roots).with_no_client_auth();
    cfg.alpn_protocols = vec![b"http/1.1".to_vec()];
    let mut ep = quinn::Endpoint::client("0.0.0.0:0".parse().unwrap()).ok()?;
    let qc = quinn::crypto::rustls::QuicClientConfig::try_from(cfg).ok()?;
    ep.set_default_client_config(quinn::ClientConfig::new(Arc::new(qc)));
    let conn = tokio::time::timeout(Duration::from_secs(4), ep.connect(format!("127.0.0.1:{port}").parse().unwrap(), "localhost").ok()?).await.ok()?.ok()?;
    let (tx, rx) = conn.open_bi().await.ok()?;
    Some((ep, conn, tx, rx))
}

pub async fn run(a: &Args) -> Report {
    use refimpl::ss::Method as M;
    let all = [M::B3Aes128Gcm, M::B3Aes256Gcm, M::B3ChaCha20Poly1305, M::B3ChaCha8Poly1305];
    let mut m: Vec<(M, Transport, usize)> = Vec::new();
    for (i, x) in all.iter().enumerate() {
        if a.thorough {
            m.push((*x, Transport::Tcp, 0));
            m.push((*x, Transport::Ws, if x.supports_eih() { 2 } else { 0 }));
        } else if (i + a.seed as usize) % 2 == 0 {
            m.push((*x, Transport::Tcp, if x.supports_eih() { 2 } else { 0 }));
        } else {
            m.push((*x, Transport::Ws, 0));
        }
    }
    let sem = Arc::new(tokio::sync::Semaphore::new(4));
    let mut hs = Vec::new();
    for (idx, (p, t, u)) in m.into_iter().enumerate() {
        let a = a.clone();
        let sem = sem.clone();
        hs.push(tokio::spawn(async move {
            let _g = sem.acquire_owned().await.unwrap();
            one_config(a, idx, p, t, u).await
        }));
    }
    for (k, x) in all.iter().enumerate() {
        if a.thorough || (k + a.seed as usize) % 2 == 1 {
            let a = a.clone();
            let x = *x;
            hs.push(tokio::spawn(async move { cross_listener(a, k, x).await }));
        }
    }
    // real time: 33 s each, side by side with everything above
    for (k, x) in all.iter().enumerate() {
        if a.thorough || (k + a.seed as usize) % 2 == 0 {
            let (a, x) = (a.clone(), *x);
            hs.push(tokio::spawn(async move { stale_after_quiet(a, k, x, if x.supports_eih() && k % 2 == 0 { 2 } else { 0 }).await }));
        }
    }
    let mut rep = Report::new();
    for h in hs {
        if let Ok(r) = h.await {
            rep.merge(r);
        }
    }
    rep
}
