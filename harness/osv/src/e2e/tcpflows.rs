//! Running batches of scripted TCP flows through a deployment and judging them (shared by C01, C09-L2, C15).

use std::sync::Arc;
use std::time::{Duration, Instant};

use serde_json::json;

use super::endpoints::*;
use super::nodes::Deploy;
use crate::prng::Rng;

pub const SIZES: [usize; 13] = [0, 1, 2, 17, 1024, 8191, 8192, 8193, 20000, 65536, 300_000, 1 << 20, 4 << 20];

pub fn random_spec(rng: &mut Rng, id: u64, kinds: &[LocalKind], big: bool) -> FlowSpec {
    let cap = if big { SIZES.len() } else { SIZES.len() - 3 };
    let c2s = SIZES[rng.below(cap as u64) as usize];
    let s2c = SIZES[rng.below(cap as u64) as usize];
    let ws = |rng: &mut Rng, total: usize| -> usize {
        let w = *rng.pick(&[1usize, 7, 100, 1400, 8192, 65536]);
        if w == 1 && total > 4096 {
            100
        } else {
            w
        }
    };
    let write_c = ws(rng, c2s);
    let write_s = ws(rng, s2c);
    let pattern = if rng.chance(1, 2) { Pattern::RequestResponse } else { Pattern::Simultaneous };
    let closer = match rng.below(8) {
        0..=2 => Closer::TargetAfterAnswer,
        3 | 4 => Closer::AppAfterAll,
        5 => Closer::AppAfterRequest,
        6 => Closer::AppMid(rng.range(0, c2s)),
        _ => Closer::TargetMid(rng.range(0, s2c)),
    };
    // pauses only where the whole script still takes at most ~2 s
    let writes = c2s / write_c.max(1) + s2c / write_s.max(1);
    let pause_ms = if rng.chance(1, 5) && writes > 0 { rng.below(6).min(2000 / writes as u64) } else { 0 };
    FlowSpec { id, kind: *rng.pick(kinds), c2s, s2c, write_c, write_s, pause_ms, pattern, closer }
}

pub fn host_for(kind: LocalKind) -> &'static str {
    match kind {
        LocalKind::Socks5V4 => "127.0.0.1",
        LocalKind::Socks5V6 => "::1",
        _ => "localhost",
    }
}

pub fn expected_listener(kind: LocalKind, port: u16) -> String {
    match kind {
        LocalKind::Socks5V6 => format!("::1:{port}"),
        _ => format!("127.0.0.1:{port}"),
    }
}

#[derive(Debug, Clone)]
pub struct Verdict {
    /// None = held
    pub symptom: Option<String>,
    pub detail: serde_json::Value,
    pub stalled: bool,
    pub bytes_verified: usize,
    pub latency_eof_ms: Option<u128>,
}

/// Run `specs` concurrently (at most `conc` at a time) through the deployment's client; returns one verdict per spec.
pub async fn run_batch(reg: Arc<Registry>, d: &Deploy, target_port: u16, specs: Vec<FlowSpec>, conc: usize, timeout: Duration) -> Vec<(FlowSpec, Verdict)> {
    let sem = Arc::new(tokio::sync::Semaphore::new(conc.max(1)));
    let mut handles = Vec::new();
    for spec in specs {
        let flow = reg.add(spec.clone());
        let reg = reg.clone();
        let sem = sem.clone();
        let client_port = d.client_port;
        handles.push(tokio::spawn(async move {
            let _p = sem.acquire_owned().await.unwrap();
            let host = host_for(spec.kind);
            let t0 = Instant::now();
            let app = tokio::spawn(run_app_flow(reg.clone(), flow.clone(), client_port, host, target_port));
            let abort = app.abort_handle();
            let finished = tokio::time::timeout(timeout, app).await.is_ok();
            if !finished {
                abort.abort();
            }
            // give the far side a moment to observe the end of the flow
            let grace = Instant::now();
            loop {
                if judge(&reg, &flow, target_port, true).symptom.is_none() || grace.elapsed() > Duration::from_secs(if finished { 4 } else { 1 }) {
                    break;
                }
                tokio::time::sleep(Duration::from_millis(10)).await;
            }
            let mut v = judge(&reg, &flow, target_port, false);
            v.stalled = !finished;
            if !finished && v.symptom.is_none() {
                v.symptom = Some("stall:application-side-did-not-finish".into());
            }
            v.detail["elapsed_ms"] = json!(t0.elapsed().as_millis());
            (spec, v)
        }));
    }
    let mut out = Vec::new();
    for h in handles {
        if let Ok(x) = h.await {
            out.push(x);
        }
    }
    out
}

/// Compare what both endpoints observed with what the script says must have happened.
pub fn judge(reg: &Registry, flow: &Flow, target_port: u16, quiet: bool) -> Verdict {
    let spec = &flow.spec;
    let app = flow.app.lock().unwrap().clone();
    let tgt = flow.target.lock().unwrap().clone();
    let detail = json!({
        "app": {"ok_bytes": app.ok_bytes, "eof": app.eof, "reset": app.reset, "sent": app.sent, "error": app.error, "bad": app.bad},
        "target": {"connected": tgt.connected, "ok_bytes": tgt.ok_bytes, "eof": tgt.eof, "reset": tgt.reset, "sent": tgt.sent, "error": tgt.error, "bad": tgt.bad, "listener": tgt.listener},
    });
    let mut v = Verdict { symptom: None, detail, stalled: false, bytes_verified: app.ok_bytes + tgt.ok_bytes, latency_eof_ms: None };
    let mut fail = |s: String| {
        if v.symptom.is_none() {
            v.symptom = Some(s);
        }
    };
    if let Some(e) = &app.error {
        if e.starts_with("local handshake") || e.starts_with("connect to client") {
            fail(format!("handshake:{}", crate::panicmon::normalise(e)));
            return v;
        }
    }
    if !tgt.connected {
        // a reset discards what was not yet read: an application that resets may legitimately never reach the target
        if !matches!(spec.closer, Closer::AppReset(_)) {
            fail("target-never-dialled".into());
        }
        return v;
    }
    if tgt.listener.as_deref() != Some(&expected_listener(spec.kind, target_port)) {
        fail(format!("dialled-wrong-address:{}", tgt.listener.clone().unwrap_or_default()));
    }
    if let Some(p) = &tgt.prefix_problem {
        fail(format!("prefix:{p}"));
    }
    if let Some((at, class)) = &tgt.bad {
        fail(format!("target-received-wrong-bytes:{}", classify(class)));
        v.detail["target_bad_offset"] = json!(at);
    }
    if let Some((at, class)) = &app.bad {
        fail(format!("application-received-wrong-bytes:{}", classify(class)));
        v.detail["app_bad_offset"] = json!(at);
    }
    if spec.kind == LocalKind::HttpPlain && !quiet {
        let want = c2s_prefix(reg.nonce, spec, host_for(spec.kind), target_port);
        match take_http_head(spec.id) {
            Some(h) if h == want => {}
            Some(h) => {
                v.detail["http_head_got"] = json!(String::from_utf8_lossy(&h));
                fail("plain-http-request-head-altered".into());
            }
            None => {}
        }
    }
    // The closing side walked away while bytes addressed to it were still unread: the kernel then answers with RST
    // and the relay sees a *write* failure on that leg. That situation is named in the symptom so that it can be told
    // apart from a clean close (FIN after everything was read).
    let unread_at_closer = match spec.closer {
        Closer::AppAfterRequest | Closer::AppMid(_) | Closer::AppReset(_) => tgt.sent > app.ok_bytes,
        Closer::TargetMid(_) | Closer::TargetReset(_) => app.sent > tgt.ok_bytes,
        _ => false,
    };
    let sfx = if unread_at_closer { ":closer-left-unread-data" } else { "" };
    // completeness, for the direction(s) the closing pattern guarantees
    match spec.closer {
        Closer::TargetAfterAnswer => {
            if tgt.ok_bytes < spec.c2s {
                fail("request-incomplete-at-target".into());
            }
            if app.ok_bytes < spec.s2c {
                fail("answer-incomplete-at-application".into());
            } else if !app.eof {
                fail("no-end-of-stream-at-application-after-target-closed".into());
            }
            if app.ok_bytes > spec.s2c {
                fail("application-received-extra-bytes".into());
            }
            if let (Some(c), Some(e)) = (tgt.closed_at, app.eof_at) {
                v.latency_eof_ms = Some(e.saturating_duration_since(c).as_millis());
            }
        }
        Closer::AppAfterAll | Closer::AppAfterAllTargetHolds => {
            if tgt.ok_bytes < spec.c2s {
                fail("request-incomplete-at-target".into());
            }
            if app.ok_bytes < spec.s2c {
                fail("answer-incomplete-at-application".into());
            }
            if !tgt.eof && !tgt.reset {
                fail("no-end-of-stream-at-target-after-application-closed".into());
            }
        }
        Closer::AppAfterRequest => {
            if tgt.ok_bytes < spec.c2s {
                fail(format!("request-incomplete-at-target-although-application-sent-it-before-closing{sfx}"));
            }
            if !tgt.eof && !tgt.reset {
                fail("no-end-of-stream-at-target-after-application-closed".into());
            }
        }
        Closer::AppMid(n) => {
            if tgt.ok_bytes < n.min(spec.c2s) {
                fail(format!("bytes-sent-before-close-missing-at-target{sfx}"));
            }
            if !tgt.eof && !tgt.reset {
                fail("no-end-of-stream-at-target-after-application-closed".into());
            }
        }
        Closer::TargetMid(n) => {
            if app.ok_bytes < n.min(spec.s2c) {
                fail(format!("bytes-sent-before-close-missing-at-application{sfx}"));
            }
            if !app.eof && !app.reset {
                fail("no-end-of-stream-at-application-after-target-closed".into());
            }
            if let (Some(c), Some(e)) = (tgt.closed_at, app.eof_at) {
                v.latency_eof_ms = Some(e.saturating_duration_since(c).as_millis());
            }
        }
        Closer::AppReset(_) => {
            if !tgt.eof && !tgt.reset {
                fail("target-not-released-after-application-reset".into());
            }
        }
        Closer::TargetReset(_) => {
            if !app.eof && !app.reset {
                fail("application-not-released-after-target-reset".into());
            }
        }
    }
    if tgt.ok_bytes > spec.c2s {
        fail("target-received-extra-bytes".into());
    }
    v
}

fn classify(class: &str) -> String {
    if class.starts_with("lost") {
        "loss".into()
    } else if class.starts_with("duplicated") {
        "duplication".into()
    } else if class.starts_with("bytes of flow") {
        "bytes-of-another-flow".into()
    } else {
        "corruption".into()
    }
}
