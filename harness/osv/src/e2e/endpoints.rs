//! Scripted applications and targets for TCP flows, with the positional-stream oracle:
//! byte i of flow f in direction d is a pure function of (run nonce, f, d, i), so each receiver
//! verifies order, loss, duplication, corruption and cross-flow delivery with O(1) state.

use std::collections::HashMap;
use std::net::SocketAddr;
use std::sync::{Arc, Mutex};
use std::time::{Duration, Instant};

use serde_json::json;
use tokio::io::{AsyncReadExt, AsyncWriteExt};
use tokio::net::{TcpListener, TcpStream};

use crate::prng::stream_fill;

#[derive(Clone, Copy, Debug, PartialEq, Eq, Hash)]
pub enum LocalKind {
    Socks5V4,
    Socks5Domain,
    Socks5V6,
    HttpConnect,
    HttpPlain,
}

pub const README_KINDS: [LocalKind; 4] = [LocalKind::Socks5V4, LocalKind::Socks5Domain, LocalKind::HttpConnect, LocalKind::HttpPlain];

#[derive(Clone, Copy, Debug, PartialEq, Eq, Hash)]
pub enum Pattern {
    /// target answers after it has the whole request
    RequestResponse,
    /// both directions stream at once
    Simultaneous,
    /// like RequestResponse, but the target stays silent for this many milliseconds before it answers
    LateAnswer(u64),
    /// both directions stream at once, but the APPLICATION reads nothing before it has written everything (its
    /// answer piles up in the relay's buffers meanwhile: the upload must go on regardless)
    DeafApp,
    /// both directions stream at once, but the TARGET reads nothing before it has written everything
    DeafTarget,
    /// the target starts to read this many milliseconds after it has recognised the flow (what was uploaded meanwhile waits
    /// in the relay's connection to the target: closing that connection must not throw it away)
    SlowTarget(u64),
}

#[derive(Clone, Copy, Debug, PartialEq, Eq, Hash)]
pub enum Closer {
    /// target closes after it has received everything and sent its whole answer
    TargetAfterAnswer,
    /// application closes after it has sent everything and received the whole answer
    AppAfterAll,
    /// application closes right after its last request byte, without waiting for the answer
    AppAfterRequest,
    /// application closes after having sent this many payload bytes
    AppMid(usize),
    /// target closes after having sent this many payload bytes
    TargetMid(usize),
    /// application resets (SO_LINGER 0) after having sent this many payload bytes
    AppReset(usize),
    /// target resets after having sent this many payload bytes
    TargetReset(usize),
    /// application closes after it has sent everything and received the whole answer; the target sees the end of the
    /// stream but does NOT close its own side: it keeps its socket open and silent (for 100 s)
    AppAfterAllTargetHolds,
}

#[derive(Clone, Debug)]
pub struct FlowSpec {
    pub id: u64,
    pub kind: LocalKind,
    pub c2s: usize,
    pub s2c: usize,
    pub write_c: usize,
    pub write_s: usize,
    pub pause_ms: u64,
    pub pattern: Pattern,
    pub closer: Closer,
}

impl FlowSpec {
    pub fn describe(&self) -> serde_json::Value {
        json!({"flow": self.id, "local": format!("{:?}", self.kind), "c2s_bytes": self.c2s, "s2c_bytes": self.s2c, "write_sizes": [self.write_c, self.write_s], "pause_ms": self.pause_ms, "pattern": format!("{:?}", self.pattern), "closer": format!("{:?}", self.closer)})
    }
}

#[derive(Clone, Debug, Default)]
pub struct Side {
    pub connected: bool,
    /// payload bytes verified against the positional stream
    pub ok_bytes: usize,
    /// first offset at which a received byte was not the expected one, with a classification
    pub bad: Option<(usize, String)>,
    pub eof: bool,
    pub eof_at: Option<Instant>,
    pub sent: usize,
    pub send_done_at: Option<Instant>,
    pub error: Option<String>,
    pub reset: bool,
    /// (target side) which listener accepted the connection
    pub listener: Option<String>,
    /// (target side) bytes of the local handshake that leaked through, or prefix mismatch
    pub prefix_problem: Option<String>,
    pub closed_at: Option<Instant>,
}

pub struct Flow {
    pub spec: FlowSpec,
    pub app: Mutex<Side>,
    pub target: Mutex<Side>,
}

pub struct Registry {
    pub nonce: u64,
    pub flows: Mutex<HashMap<u64, Arc<Flow>>>,
    pub unattributed: Mutex<Vec<String>>,
}

impl Registry {
    pub fn new(nonce: u64) -> Arc<Registry> {
        Arc::new(Registry { nonce, flows: Mutex::new(HashMap::new()), unattributed: Mutex::new(Vec::new()) })
    }
    pub fn add(&self, spec: FlowSpec) -> Arc<Flow> {
        let f = Arc::new(Flow { spec, app: Mutex::new(Side::default()), target: Mutex::new(Side::default()) });
        self.flows.lock().unwrap().insert(f.spec.id, f.clone());
        f
    }
}

pub fn token(nonce: u64, flow: u64) -> [u8; 24] {
    let mut t = [0u8; 24];
    t[..8].copy_from_slice(&nonce.to_be_bytes());
    t[8..16].copy_from_slice(&flow.to_be_bytes());
    t[16..].copy_from_slice(b"OSVFLOW!");
    t
}

/// The bytes the application sends before the positional stream: the flow token, inside an HTTP request head for plain HTTP.
pub fn c2s_prefix(nonce: u64, spec: &FlowSpec, host: &str, port: u16) -> Vec<u8> {
    match spec.kind {
        LocalKind::HttpPlain => {
            let tok = crate::report::hex(&token(nonce, spec.id));
            let hostport = if port == 80 { host.to_string() } else { format!("{host}:{port}") };
            format!("POST http://{hostport}/t/{tok}?x=1 HTTP/1.1\r\nHost: {hostport}\r\nContent-Type: application/octet-stream\r\nTransfer-Encoding: identity\r\nX-Filler: {}\r\n\r\n", "f".repeat((spec.id % 300) as usize)).into_bytes()
        }
        _ => token(nonce, spec.id).to_vec(),
    }
}

const DIR_C2S: u64 = 0;
const DIR_S2C: u64 = 1;

/// Verifies received bytes against the positional stream of (flow, dir).
struct Verifier {
    nonce: u64,
    flow: u64,
    dir: u64,
    off: usize,
    bad: Option<(usize, String)>,
}

impl Verifier {
    fn feed(&mut self, data: &[u8], reg: Option<&Registry>) {
        if self.bad.is_some() {
            return;
        }
        let mut want = vec![0u8; data.len()];
        stream_fill(self.nonce, self.flow, self.dir, self.off as u64, &mut want);
        if want == data {
            self.off += data.len();
            return;
        }
        let k = (0..data.len()).find(|i| data[*i] != want[*i]).unwrap();
        let at = self.off + k;
        // classify: later position of the same stream (loss), earlier (duplication), another flow's stream, or garbage
        let probe = &data[k..data.len().min(k + 16)];
        let mut class = "corrupted".to_string();
        if probe.len() >= 8 {
            let mut buf = vec![0u8; probe.len()];
            for delta in 1..=(1usize << 16) {
                stream_fill(self.nonce, self.flow, self.dir, (at + delta) as u64, &mut buf);
                if buf == probe {
                    class = format!("lost {delta} bytes");
                    break;
                }
                if at >= delta {
                    stream_fill(self.nonce, self.flow, self.dir, (at - delta) as u64, &mut buf);
                    if buf == probe {
                        class = format!("duplicated {delta} bytes");
                        break;
                    }
                }
                if delta > 70000 {
                    break;
                }
            }
            if class == "corrupted" {
                if let Some(reg) = reg {
                    let ids: Vec<u64> = reg.flows.lock().unwrap().keys().copied().collect();
                    'outer: for id in ids {
                        for d in [DIR_C2S, DIR_S2C] {
                            if id == self.flow && d == self.dir {
                                continue;
                            }
                            for o in [at, 0] {
                                stream_fill(self.nonce, id, d, o as u64, &mut buf);
                                if buf == probe {
                                    class = format!("bytes of flow {id} dir {d}");
                                    break 'outer;
                                }
                            }
                        }
                    }
                }
            }
        }
        self.off += k;
        self.bad = Some((at, class));
    }
}

fn set_reset(s: &TcpStream) {
    let _ = s.set_linger(Some(Duration::from_secs(0)));
}

async fn pump_out(w: &mut (impl AsyncWriteExt + Unpin), nonce: u64, flow: u64, dir: u64, total: usize, wsize: usize, pause_ms: u64, stop_at: Option<usize>, progress: &Mutex<Side>) -> Result<usize, String> {
    let mut off = 0usize;
    let limit = stop_at.map_or(total, |s| s.min(total));
    let mut buf = vec![0u8; wsize.max(1)];
    while off < limit {
        let n = (limit - off).min(buf.len());
        stream_fill(nonce, flow, dir, off as u64, &mut buf[..n]);
        w.write_all(&buf[..n]).await.map_err(|e| format!("write: {e}"))?;
        off += n;
        progress.lock().unwrap().sent = off;
        if pause_ms > 0 {
            tokio::time::sleep(Duration::from_millis(pause_ms)).await;
        }
    }
    w.flush().await.map_err(|e| format!("flush: {e}"))?;
    progress.lock().unwrap().send_done_at = Some(Instant::now());
    Ok(off)
}

/// Reads until EOF/error (or until `want` bytes when `stop_at_want`), verifying; updates `side`.
async fn pump_in(r: &mut (impl AsyncReadExt + Unpin), ver: &mut Verifier, reg: &Registry, side: &Mutex<Side>, want: Option<usize>) {
    let mut buf = vec![0u8; 65536];
    loop {
        if let Some(w) = want {
            if ver.off >= w {
                return;
            }
        }
        match r.read(&mut buf).await {
            Ok(0) => {
                let mut s = side.lock().unwrap();
                s.eof = true;
                s.eof_at = Some(Instant::now());
                return;
            }
            Ok(n) => {
                ver.feed(&buf[..n], Some(reg));
                let mut s = side.lock().unwrap();
                s.ok_bytes = ver.off;
                if s.bad.is_none() {
                    s.bad = ver.bad.clone();
                }
            }
            Err(e) => {
                let mut s = side.lock().unwrap();
                s.reset = true;
                s.eof_at = Some(Instant::now());
                s.error = Some(format!("read: {e}"));
                return;
            }
        }
    }
}

pub struct TargetHandle {
    pub port: u16,
    pub tasks: Vec<tokio::task::JoinHandle<()>>,
}

impl Drop for TargetHandle {
    fn drop(&mut self) {
        for t in &self.tasks {
            t.abort();
        }
    }
}

/// Listen on 127.0.0.1:port and [::1]:port; `localhost` resolves to the IPv4 one in this sandbox.
pub async fn start_target(reg: Arc<Registry>) -> std::io::Result<TargetHandle> {
    let l4 = TcpListener::bind("127.0.0.1:0").await?;
    let port = l4.local_addr()?.port();
    let mut tasks = Vec::new();
    let l6 = TcpListener::bind(("::1", port)).await.ok();
    for (name, l) in [("127.0.0.1", Some(l4)), ("::1", l6)] {
        let Some(l) = l else { continue };
        let reg = reg.clone();
        let name = format!("{name}:{port}");
        tasks.push(tokio::spawn(async move {
            loop {
                match l.accept().await {
                    Ok((s, peer)) => {
                        let reg = reg.clone();
                        let name = name.clone();
                        tokio::spawn(async move { target_conn(s, peer, reg, name).await });
                    }
                    Err(_) => tokio::time::sleep(Duration::from_millis(20)).await,
                }
            }
        }));
    }
    Ok(TargetHandle { port, tasks })
}

async fn target_conn(mut s: TcpStream, _peer: SocketAddr, reg: Arc<Registry>, listener: String) {
    let _ = s.set_nodelay(true);
    // identify the flow from the first bytes
    let mut head = Vec::new();
    let mut buf = [0u8; 4096];
    let flow_id: Option<(u64, usize)> = loop {
        match tokio::time::timeout(Duration::from_secs(30), s.read(&mut buf)).await {
            Ok(Ok(0)) | Err(_) | Ok(Err(_)) => break None,
            Ok(Ok(n)) => head.extend_from_slice(&buf[..n]),
        }
        if head.len() >= 5 && (head.starts_with(b"POST ") || head.starts_with(b"GET ")) {
            if let Some(end) = head.windows(4).position(|w| w == b"\r\n\r\n") {
                let line = String::from_utf8_lossy(&head[..end]).to_string();
                let id = line.find("/t/").and_then(|i| line.get(i + 3..i + 3 + 48)).map(crate::report::unhex).filter(|t| t.len() == 24 && t[..8] == reg.nonce.to_be_bytes()).map(|t| u64::from_be_bytes(t[8..16].try_into().unwrap()));
                break id.map(|i| (i, end + 4));
            }
            if head.len() > 16384 {
                break None;
            }
        } else if head.len() >= 24 {
            if head[..8] == reg.nonce.to_be_bytes() && &head[16..24] == b"OSVFLOW!" {
                break Some((u64::from_be_bytes(head[8..16].try_into().unwrap()), 24));
            }
            break None;
        }
    };
    let Some((id, prefix_len)) = flow_id else {
        reg.unattributed.lock().unwrap().push(format!("connection at {listener} with unrecognisable first bytes {}", crate::report::hex_short(&head)));
        return;
    };
    let Some(flow) = reg.flows.lock().unwrap().get(&id).cloned() else {
        reg.unattributed.lock().unwrap().push(format!("connection at {listener} for unknown flow {id}"));
        return;
    };
    let spec = flow.spec.clone();
    {
        let mut t = flow.target.lock().unwrap();
        if t.connected {
            t.prefix_problem = Some("a second connection arrived for this flow".into());
            return;
        }
        t.connected = true;
        t.listener = Some(listener);
    }
    // the plain-HTTP head must have arrived byte-identical
    if spec.kind == LocalKind::HttpPlain {
        // the expected head is reconstructed by the checker from the same inputs (host/port are known there)
        flow.target.lock().unwrap().prefix_problem = None;
        HTTP_HEADS.lock().unwrap().get_or_insert_with(HashMap::new).insert(id, head[..prefix_len].to_vec());
    }
    let mut ver = Verifier { nonce: reg.nonce, flow: id, dir: DIR_C2S, off: 0, bad: None };
    ver.feed(&head[prefix_len..], Some(&reg));
    {
        let mut t = flow.target.lock().unwrap();
        t.ok_bytes = ver.off;
        t.bad = ver.bad.clone();
    }
    let nonce = reg.nonce;
    let stop_at = match spec.closer {
        Closer::TargetMid(n) | Closer::TargetReset(n) => Some(n),
        _ => None,
    };
    {
        let (mut r, mut w) = s.split();
        let reader = async {
            if let Pattern::SlowTarget(ms) = spec.pattern {
                tokio::time::sleep(Duration::from_millis(ms)).await;
            }
            pump_in(&mut r, &mut ver, &reg, &flow.target, None).await;
        };
        let writer = async {
            if matches!(spec.pattern, Pattern::RequestResponse | Pattern::LateAnswer(_)) {
                // wait for the whole request (or for the peer to give up)
                let t0 = Instant::now();
                loop {
                    let (ok, eof, reset) = {
                        let t = flow.target.lock().unwrap();
                        (t.ok_bytes, t.eof, t.reset)
                    };
                    if ok >= spec.c2s || eof || reset || t0.elapsed() > Duration::from_secs(120) {
                        break;
                    }
                    tokio::time::sleep(Duration::from_millis(2)).await;
                }
            }
            if let Pattern::LateAnswer(ms) = spec.pattern {
                tokio::time::sleep(Duration::from_millis(ms)).await;
            }
            if let Err(e) = pump_out(&mut w, nonce, id, DIR_S2C, spec.s2c, spec.write_s, spec.pause_ms, stop_at, &flow.target).await {
                flow.target.lock().unwrap().error.get_or_insert(e);
            }
            if spec.closer == Closer::TargetAfterAnswer {
                // FIN after the answer, once the whole request is in (or the peer has gone)
                let t0 = Instant::now();
                loop {
                    let (ok, eof, reset) = {
                        let t = flow.target.lock().unwrap();
                        (t.ok_bytes, t.eof, t.reset)
                    };
                    if ok >= spec.c2s || eof || reset || t0.elapsed() > Duration::from_secs(60) {
                        break;
                    }
                    tokio::time::sleep(Duration::from_millis(2)).await;
                }
                let _ = w.shutdown().await;
                flow.target.lock().unwrap().closed_at = Some(Instant::now());
            }
        };
        match spec.closer {
            Closer::TargetMid(_) | Closer::TargetReset(_) => {
                // the target walks away as soon as it has written its part
                tokio::pin!(reader);
                tokio::select! {
                    _ = writer => {}
                    _ = async { (&mut reader).await; futures::future::pending::<()>().await } => {}
                }
            }
            _ if spec.pattern == Pattern::DeafTarget => {
                writer.await;
                reader.await;
            }
            _ => {
                tokio::join!(reader, writer);
            }
        }
    }
    if matches!(spec.closer, Closer::TargetReset(_)) {
        set_reset(&s);
    }
    if spec.closer == Closer::AppAfterAllTargetHolds {
        // the relay must let go of this flow although the target never closes
        tokio::time::sleep(Duration::from_secs(100)).await;
    }
    flow.target.lock().unwrap().closed_at.get_or_insert(Instant::now());
    drop(s);
}

pub static HTTP_HEADS: Mutex<Option<HashMap<u64, Vec<u8>>>> = Mutex::new(None);

pub fn take_http_head(id: u64) -> Option<Vec<u8>> {
    HTTP_HEADS.lock().unwrap().as_mut().and_then(|m| m.remove(&id))
}

#[derive(Debug)]
pub enum HandshakeError {
    Io(String),
    Refused(String),
}

/// Perform the local handshake of `kind` for target `host:port` on `s`. For HttpPlain nothing is exchanged here.
pub async fn local_handshake(s: &mut TcpStream, kind: LocalKind, host: &str, port: u16) -> Result<(), HandshakeError> {
    use HandshakeError::*;
    match kind {
        LocalKind::Socks5V4 | LocalKind::Socks5Domain | LocalKind::Socks5V6 => {
            s.write_all(&[5, 1, 0]).await.map_err(|e| Io(e.to_string()))?;
            let mut r = [0u8; 2];
            s.read_exact(&mut r).await.map_err(|e| Io(format!("method reply: {e}")))?;
            if r != [5, 0] {
                return Err(Refused(format!("method selection reply {:?}", r)));
            }
            let mut req = vec![5, 1, 0];
            match kind {
                LocalKind::Socks5V4 => {
                    req.push(1);
                    req.extend_from_slice(&host.parse::<std::net::Ipv4Addr>().map_err(|e| Io(e.to_string()))?.octets());
                }
                LocalKind::Socks5V6 => {
                    req.push(4);
                    req.extend_from_slice(&host.parse::<std::net::Ipv6Addr>().map_err(|e| Io(e.to_string()))?.octets());
                }
                _ => {
                    req.push(3);
                    req.push(host.len() as u8);
                    req.extend_from_slice(host.as_bytes());
                }
            }
            req.extend_from_slice(&port.to_be_bytes());
            s.write_all(&req).await.map_err(|e| Io(e.to_string()))?;
            let mut h = [0u8; 4];
            s.read_exact(&mut h).await.map_err(|e| Io(format!("command reply: {e}")))?;
            if h[0] != 5 || h[1] != 0 || h[2] != 0 {
                return Err(Refused(format!("command reply {:?}", h)));
            }
            let n = match h[3] {
                1 => 6,
                4 => 18,
                3 => {
                    let mut l = [0u8; 1];
                    s.read_exact(&mut l).await.map_err(|e| Io(e.to_string()))?;
                    l[0] as usize + 2
                }
                t => return Err(Refused(format!("reply ATYP {t}"))),
            };
            let mut rest = vec![0u8; n];
            s.read_exact(&mut rest).await.map_err(|e| Io(format!("bound address: {e}")))?;
            Ok(())
        }
        LocalKind::HttpConnect => {
            let hp = if host.contains(':') { format!("[{host}]:{port}") } else { format!("{host}:{port}") };
            s.write_all(format!("CONNECT {hp} HTTP/1.1\r\nHost: {hp}\r\nProxy-Connection: keep-alive\r\n\r\n").as_bytes()).await.map_err(|e| Io(e.to_string()))?;
            let mut got = Vec::new();
            let mut b = [0u8; 1];
            while !got.ends_with(b"\r\n\r\n") {
                let n = s.read(&mut b).await.map_err(|e| Io(e.to_string()))?;
                if n == 0 {
                    return Err(Refused(format!("EOF during CONNECT reply after {:?}", String::from_utf8_lossy(&got))));
                }
                got.push(b[0]);
                if got.len() > 4096 {
                    return Err(Refused("oversized CONNECT reply".into()));
                }
            }
            let line = String::from_utf8_lossy(&got).to_string();
            if !line.starts_with("HTTP/1.1 200") && !line.starts_with("HTTP/1.0 200") {
                return Err(Refused(format!("CONNECT reply {:?}", line.lines().next())));
            }
            Ok(())
        }
        LocalKind::HttpPlain => Ok(()),
    }
}

/// Run the application side of one flow through the client's local port.
pub async fn run_app_flow(reg: Arc<Registry>, flow: Arc<Flow>, client_port: u16, host: &str, port: u16) {
    let spec = flow.spec.clone();
    let mut s = match TcpStream::connect(("127.0.0.1", client_port)).await {
        Ok(s) => s,
        Err(e) => {
            flow.app.lock().unwrap().error = Some(format!("connect to client: {e}"));
            return;
        }
    };
    let _ = s.set_nodelay(true);
    flow.app.lock().unwrap().connected = true;
    match tokio::time::timeout(Duration::from_secs(20), local_handshake(&mut s, spec.kind, host, port)).await {
        Ok(Ok(())) => {}
        Ok(Err(e)) => {
            flow.app.lock().unwrap().error = Some(format!("local handshake: {:?}", e));
            return;
        }
        Err(_) => {
            flow.app.lock().unwrap().error = Some("local handshake: no reply within 20 s".into());
            return;
        }
    }
    let prefix = c2s_prefix(reg.nonce, &spec, host, port);
    let nonce = reg.nonce;
    let id = spec.id;
    let stop_at = match spec.closer {
        Closer::AppMid(n) | Closer::AppReset(n) => Some(n),
        _ => None,
    };
    let mut ver = Verifier { nonce, flow: id, dir: DIR_S2C, off: 0, bad: None };
    let want_in = match spec.closer {
        Closer::AppAfterAll | Closer::AppAfterAllTargetHolds => Some(spec.s2c),
        _ => None,
    };
    {
        let (mut r, mut w) = s.split();
        let reader = async {
            pump_in(&mut r, &mut ver, &reg, &flow.app, want_in).await;
        };
        let writer = async {
            if let Err(e) = w.write_all(&prefix).await {
                flow.app.lock().unwrap().error.get_or_insert(format!("write prefix: {e}"));
                return;
            }
            if let Err(e) = pump_out(&mut w, nonce, id, DIR_C2S, spec.c2s, spec.write_c, spec.pause_ms, stop_at, &flow.app).await {
                flow.app.lock().unwrap().error.get_or_insert(e);
            }
        };
        match spec.closer {
            Closer::AppAfterRequest | Closer::AppMid(_) | Closer::AppReset(_) => {
                // close as soon as the last byte is written, whatever has or has not come back
                tokio::pin!(reader);
                tokio::select! {
                    _ = writer => {}
                    _ = async { (&mut reader).await; futures::future::pending::<()>().await } => {}
                }
            }
            _ if spec.pattern == Pattern::DeafApp => {
                writer.await;
                reader.await;
            }
            _ => {
                // AppAfterAll: until the whole answer is in; otherwise the target ends the flow: read until EOF
                tokio::join!(reader, writer);
            }
        }
    }
    if matches!(spec.closer, Closer::AppReset(_)) {
        set_reset(&s);
    }
    flow.app.lock().unwrap().closed_at = Some(Instant::now());
    drop(s);
}

/// A target that speaks first: on accept it sends `nonce | connection index | n positional bytes` and closes.
/// Used for flows in which the application sends nothing at all.
pub async fn start_greeter(nonce: u64, n: usize) -> std::io::Result<TargetHandle> {
    let l = TcpListener::bind("127.0.0.1:0").await?;
    let port = l.local_addr()?.port();
    let t = tokio::spawn(async move {
        let mut idx = 0u64;
        loop {
            if let Ok((mut s, _)) = l.accept().await {
                idx += 1;
                let i = idx;
                tokio::spawn(async move {
                    let mut head = nonce.to_be_bytes().to_vec();
                    head.extend_from_slice(&i.to_be_bytes());
                    let mut body = vec![0u8; n];
                    stream_fill(nonce, 0xF1F1_0000 + i, DIR_S2C, 0, &mut body);
                    let _ = s.write_all(&head).await;
                    let _ = s.write_all(&body).await;
                    let _ = s.shutdown().await;
                    let mut sink = [0u8; 1024];
                    while let Ok(n) = s.read(&mut sink).await {
                        if n == 0 {
                            break;
                        }
                    }
                });
            }
        }
    });
    Ok(TargetHandle { port, tasks: vec![t] })
}

/// Application that completes the local handshake and then only listens. Ok(bytes verified) or the symptom.
pub async fn run_silent_app(client_port: u16, kind: LocalKind, host: &str, port: u16, nonce: u64, n: usize, wait: Duration) -> Result<usize, String> {
    let mut s = TcpStream::connect(("127.0.0.1", client_port)).await.map_err(|e| format!("connect to client: {e}"))?;
    match tokio::time::timeout(Duration::from_secs(20), local_handshake(&mut s, kind, host, port)).await {
        Ok(Ok(())) => {}
        Ok(Err(e)) => return Err(format!("handshake:{:?}", e)),
        Err(_) => return Err("handshake:no reply within 20 s".into()),
    }
    let mut got = Vec::new();
    let mut buf = [0u8; 65536];
    let t0 = Instant::now();
    loop {
        match tokio::time::timeout(wait.saturating_sub(t0.elapsed()), s.read(&mut buf)).await {
            Err(_) => return Err(if got.is_empty() { "target-that-speaks-first-is-never-heard".into() } else { "answer-incomplete-at-application".into() }),
            Ok(Ok(0)) => break,
            Ok(Ok(k)) => got.extend_from_slice(&buf[..k]),
            Ok(Err(e)) => return Err(format!("read: {e}")),
        }
    }
    if got.len() < 16 || got[..8] != nonce.to_be_bytes() {
        return Err(if got.is_empty() { "end-of-stream-without-the-targets-bytes".into() } else { "application-received-wrong-bytes:corruption".into() });
    }
    let i = u64::from_be_bytes(got[8..16].try_into().unwrap());
    let mut want = vec![0u8; n];
    stream_fill(nonce, 0xF1F1_0000 + i, DIR_S2C, 0, &mut want);
    if got[16..] == want[..] {
        Ok(n)
    } else if want.starts_with(&got[16..]) {
        Err("answer-incomplete-at-application".into())
    } else {
        Err("application-received-wrong-bytes:corruption".into())
    }
}
